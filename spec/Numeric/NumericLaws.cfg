INIT Init
NEXT Next
INVARIANT Laws
CHECK_DEADLOCK FALSE
