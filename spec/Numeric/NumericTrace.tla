---------------------------- MODULE NumericTrace ----------------------------
(***************************************************************************)
(* C05 acceptor.  One event per operator application: the operands were    *)
(* stored in variables, the operator applied to the variables, and the     *)
(* variables re-read afterwards (a2, b2): the frame condition "operators   *)
(* never alter their operands".  Returns "" or the reason of rejection.    *)
(***************************************************************************)
EXTENDS Numeric, TLC, Json
CONSTANT TraceFile
E == ndJsonDeserialize(TraceFile)
VARIABLES l, bad, seen
Init == l = 1 /\ bad = <<>> /\ seen = 0
IntOps == {"floor", "ceiling", "truncate", "round", "mod", "rem", "gcd", "lcm", "logand", "logior", "logxor",
           "ash", "expt", "isqrt"}
BoolOps == {"<", "<=", ">", ">=", "=", "/=", "zerop", "plusp", "minusp"}
Sign(x) == x.n.s
Holds(op, c) == CASE op = "<" -> c < 0 [] op = "<=" -> c <= 0 [] op = ">" -> c > 0 [] op = ">=" -> c >= 0
                  [] op = "=" -> c = 0 [] op = "/=" -> c # 0
Holds3(op, a, b, c) == IF op = "/=" THEN RCmp(a, b) # 0 /\ RCmp(b, c) # 0 /\ RCmp(a, c) # 0
                       ELSE Holds(op, RCmp(a, b)) /\ Holds(op, RCmp(b, c))
Check(e) ==
  LET a == e.a  b == e.b  r == e.r IN
  IF e.a2 # a \/ e.b2 # b THEN "operand-changed"
  ELSE IF e.st # "ok" THEN "failed:" \o e.st
  ELSE IF e.op \in BoolOps THEN
       (IF e.op \in {"zerop", "plusp", "minusp"}
        THEN IF e.bool = (CASE e.op = "zerop" -> Sign(a) = 0 [] e.op = "plusp" -> Sign(a) > 0 [] e.op = "minusp" -> Sign(a) < 0)
             THEN "" ELSE "wrong"
        \* three arguments: the ordering relations hold between neighbours, = between all, /= between every two
        ELSE IF e.n = 3 THEN (IF e.bool = Holds3(e.op, a, b, e.c) THEN "" ELSE "wrong-three-arguments")
        ELSE IF e.fb THEN (IF e.bool = Holds(e.op, CmpFloat(a, e.fm, e.fe)) THEN "" ELSE "wrong-vs-float")
        ELSE IF e.bool = Holds(e.op, RCmp(a, b)) THEN "" ELSE "wrong")
  ELSE IF ~RWell(r) \/ ~RWell(e.r2) THEN "malformed"
  ELSE IF ~Lowest(r, e.low) THEN "not-lowest-terms"
  ELSE IF ~TypeOK(r, e.ty) THEN "not-canonical"
  ELSE CASE e.op = "+" -> IF REq(r, RAdd(a, b)) THEN "" ELSE "wrong"
         [] e.op = "-" -> IF REq(r, RSub(a, b)) THEN "" ELSE "wrong"
         [] e.op = "*" -> IF REq(r, RMul(a, b)) THEN "" ELSE "wrong"
         [] e.op = "/" -> IF REq(r, RDiv(a, b)) THEN "" ELSE "wrong"
         [] e.op = "1+" -> IF REq(r, RAdd(a, OfInt(One))) THEN "" ELSE "wrong"
         [] e.op = "1-" -> IF REq(r, RSub(a, OfInt(One))) THEN "" ELSE "wrong"
         [] e.op = "abs" -> IF r = R(Abs(a.n), a.d) THEN "" ELSE "wrong"
         \* (of two or three arguments: e.n, the third one is e.c)
         [] e.op = "max" -> LET m == IF RCmp(a, b) >= 0 THEN a ELSE b IN
                            IF r = (IF e.n = 3 /\ RCmp(e.c, m) > 0 THEN e.c ELSE m) THEN "" ELSE "wrong"
         [] e.op = "min" -> LET m == IF RCmp(a, b) <= 0 THEN a ELSE b IN
                            IF r = (IF e.n = 3 /\ RCmp(e.c, m) < 0 THEN e.c ELSE m) THEN "" ELSE "wrong"
         [] e.op \in {"floor", "ceiling", "truncate", "round"} ->
              IF IsInt(r) /\ IsInt(e.r2) /\ DivOK(a.n, b.n, r.n, e.r2.n, e.op) THEN "" ELSE "wrong"
         [] e.op = "mod" -> IF IsInt(r) /\ DivOK(a.n, b.n, e.q, r.n, "floor") THEN "" ELSE "wrong"
         [] e.op = "rem" -> IF IsInt(r) /\ DivOK(a.n, b.n, e.q, r.n, "truncate") THEN "" ELSE "wrong"
         [] e.op = "gcd" -> IF IsInt(r) /\ GcdOK(a.n, b.n, r.n, e.cert) THEN "" ELSE "wrong"
         [] e.op = "lcm" -> \* lcm * gcd = |a*b| with the certified gcd e.q; lcm >= 0
              IF IsInt(r) /\ r.n.s >= 0 /\ GcdOK(a.n, b.n, e.q, e.cert) /\ Mul(r.n, e.q) = Abs(Mul(a.n, b.n)) THEN "" ELSE "wrong"
         [] e.op \in {"logand", "logior", "logxor"} -> IF IsInt(r) /\ r.n = BitOp(e.op, a.n, b.n) THEN "" ELSE "wrong"
         [] e.op = "ash" -> \* e.k = shift count (small): left: r = a * 2^k; right: r * 2^m <= a < (r + 1) * 2^m
              IF IsInt(r) /\ (IF e.k >= 0 THEN r.n = Mul(a.n, Pow(Two, e.k))
                              ELSE LET p == Pow(Two, -e.k) IN Cmp(Mul(r.n, p), a.n) <= 0 /\ Cmp(a.n, Mul(Add(r.n, One), p)) < 0)
              THEN "" ELSE "wrong"
         [] e.op = "expt" -> IF IsInt(r) /\ r.n = Pow(a.n, e.k) THEN "" ELSE "wrong"
         [] e.op = "isqrt" -> IF IsInt(r) /\ r.n.s >= 0 /\ Cmp(Mul(r.n, r.n), a.n) <= 0
                                 /\ Cmp(a.n, Mul(Add(r.n, One), Add(r.n, One))) < 0 THEN "" ELSE "wrong"
         [] OTHER -> "unknown-operator"
Next == /\ l <= Len(E) /\ l' = l + 1 /\ seen' = seen + 1
        /\ LET e == E[l]  c == Check(e) IN
           bad' = IF c = "" THEN bad ELSE Append(bad, [l |-> l, t |-> e.t, why |-> c, op |-> e.op])
Done == (l = Len(E) + 1) => PrintT("RESULT" \o ToJson([bad |-> bad, checked |-> seen]))
=============================================================================
