---------------------------- MODULE NumericTrace ----------------------------
(***************************************************************************)
(* C05 - integer arithmetic is exact and comparisons agree with            *)
(* mathematics.  A register machine: operator events name the registers    *)
(* they read; the frame condition is that every register except the        *)
(* destination is unchanged after the call (operands are never altered).   *)
(* Each operator is given by its defining relation on exact values.        *)
(***************************************************************************)
EXTENDS BigInt, TLC, Json, FiniteSets
CONSTANT TraceFile
E == ndJsonDeserialize(TraceFile)
VARIABLES l, bad, seen
Init == l = 1 /\ bad = <<>> /\ seen = 0

DivOK(a, b, q, r, mode) ==
  /\ Add(Mul(q, b), r) = a
  /\ MCmp(r.m, b.m) < 0
  /\ CASE mode = "floor"    -> r.s = 0 \/ r.s = b.s
       [] mode = "ceiling"  -> r.s = 0 \/ r.s = -b.s
       [] mode = "truncate" -> r.s = 0 \/ r.s = a.s
       [] OTHER -> TRUE
Check(e) ==
  LET a == e.a  b == e.b  r == e.r  r2 == e.r2 IN
  IF e.a2 # a \/ e.b2 # b THEN "operand-changed"
  ELSE IF e.st # "ok" THEN "failed:" \o e.st
  ELSE IF ~WellFormed(r) \/ ~WellFormed(r2) THEN "malformed"
  ELSE CASE e.op = "+" -> IF r = Add(a, b) THEN "" ELSE "wrong"
         [] e.op = "-" -> IF Add(r, b) = a THEN "" ELSE "wrong"
         [] e.op = "*" -> IF r = Mul(a, b) THEN "" ELSE "wrong"
         [] e.op = "<" -> IF e.bool = (Cmp(a, b) < 0) THEN "" ELSE "wrong"
         [] e.op = "<=" -> IF e.bool = (Cmp(a, b) <= 0) THEN "" ELSE "wrong"
         [] e.op = ">" -> IF e.bool = (Cmp(a, b) > 0) THEN "" ELSE "wrong"
         [] e.op = "=" -> IF e.bool = (Cmp(a, b) = 0) THEN "" ELSE "wrong"
         [] e.op \in {"floor", "ceiling", "truncate"} -> IF DivOK(a, b, r, r2, e.op) THEN "" ELSE "wrong"
         [] e.op = "mod" -> IF \E q \in {e.q} : DivOK(a, b, q, r, "floor") THEN "" ELSE "wrong"
         [] e.op = "rem" -> IF \E q \in {e.q} : DivOK(a, b, q, r, "truncate") THEN "" ELSE "wrong"
         [] e.op = "abs" -> IF r = Abs(a) THEN "" ELSE "wrong"
         [] e.op = "max" -> IF r = (IF Cmp(a, b) >= 0 THEN a ELSE b) THEN "" ELSE "wrong"
         [] e.op = "min" -> IF r = (IF Cmp(a, b) <= 0 THEN a ELSE b) THEN "" ELSE "wrong"
         [] e.op = "gcd" -> \* g divides both (cofactors logged) and is a combination of them (Bezout logged)
                            IF /\ r.s >= 0 /\ Mul(r, e.ca) = a /\ Mul(r, e.cb) = b
                               /\ Add(Mul(e.sa, a), Mul(e.sb, b)) = r THEN "" ELSE "wrong"
         [] OTHER -> ""
Canon(e) == IF e.st = "ok" /\ e.ty # "" /\ Check(e) = ""
            THEN IF (e.ty = "fixnum") = IsFix(e.r) THEN "" ELSE "not-canonical" ELSE ""
Next == /\ l <= Len(E) /\ l' = l + 1 /\ seen' = seen + 1
        /\ LET e == E[l]  c == Check(e)  k == Canon(e) IN
           bad' = IF c = "" /\ k = "" THEN bad ELSE Append(bad, [l |-> l, t |-> e.t, why |-> IF c # "" THEN c ELSE k, op |-> e.op])
Done == (l = Len(E) + 1) => PrintT("RESULT" \o ToJson([bad |-> bad, checked |-> seen]))
=============================================================================
