------------------------------ MODULE Numeric ------------------------------
(***************************************************************************)
(* C05 - integer and rational arithmetic is exact and comparisons agree    *)
(* with mathematics.                                                       *)
(*                                                                         *)
(* Values are exact: an integer is a BigInt [s, m]; a rational is          *)
(* [n, d] with d > 0 (integers have d = 1); a float operand of a           *)
(* comparison is given exactly as mantissa * 2^exponent.  Every operator   *)
(* is specified by its defining relation, checked with add / subtract /    *)
(* multiply / compare on limbs only; where the relation needs a witness    *)
(* (quotient, cofactors, Bezout coefficients) the recorded event carries a *)
(* certificate which is verified here and never trusted.                   *)
(***************************************************************************)
EXTENDS BigInt, Bitwise, FiniteSets
R(n, d) == [n |-> n, d |-> d]
OfInt(x) == R(x, One)
RWell(x) == WellFormed(x.n) /\ WellFormed(x.d) /\ x.d.s = 1
REq(x, y) == Mul(x.n, y.d) = Mul(y.n, x.d)
RCmp(x, y) == Cmp(Mul(x.n, y.d), Mul(y.n, x.d))
RAdd(x, y) == R(Add(Mul(x.n, y.d), Mul(y.n, x.d)), Mul(x.d, y.d))
RSub(x, y) == R(Sub(Mul(x.n, y.d), Mul(y.n, x.d)), Mul(x.d, y.d))
RMul(x, y) == R(Mul(x.n, y.n), Mul(x.d, y.d))
\* x / y with y # 0, denominator kept positive
RDiv(x, y) == IF y.n.s > 0 THEN R(Mul(x.n, y.d), Mul(x.d, y.n)) ELSE R(Neg(Mul(x.n, y.d)), Neg(Mul(x.d, y.n)))
\* lowest terms, shown by Bezout coefficients s*n + t*d = 1
Lowest(x, c) == x.d.s = 1 /\ Add(Mul(c.s, x.n), Mul(c.t, x.d)) = One
IsInt(x) == x.d = One
\* the representation type the value must have
TypeOK(x, ty) == IF IsInt(x) THEN (ty = "fixnum") = IsFix(x.n) /\ ty \in {"fixnum", "bignum"} ELSE ty = "ratio"

\* ---- integer division family: a = q*b + r with the rounding rule --------------------------------------
Twice(x) == Add(x, x)
Even(x) == x.m = <<>> \/ x.m[1] % 2 = 0
DivOK(a, b, q, r, mode) ==
  /\ Add(Mul(q, b), r) = a
  /\ CASE mode = "floor"    -> MCmp(r.m, b.m) < 0 /\ (r.s = 0 \/ r.s = b.s)
       [] mode = "ceiling"  -> MCmp(r.m, b.m) < 0 /\ (r.s = 0 \/ r.s = -b.s)
       [] mode = "truncate" -> MCmp(r.m, b.m) < 0 /\ (r.s = 0 \/ r.s = a.s)
       [] mode = "round"    -> LET c == MCmp(Twice(Abs(r)).m, b.m) IN c < 0 \/ (c = 0 /\ Even(q))
\* g = gcd(a, b): divides both (cofactors ca, cb) and is a combination of them (sa, sb); gcd(0,0) = 0
GcdOK(a, b, g, c) == /\ g.s >= 0 /\ Mul(g, c.ca) = a /\ Mul(g, c.cb) = b
                     /\ Add(Mul(c.sa, a), Mul(c.sb, b)) = g
RECURSIVE Pow(_, _)
Pow(x, k) == IF k = 0 THEN One
             ELSE IF k % 2 = 0 THEN LET h == Pow(x, k \div 2) IN Mul(h, h)
             ELSE Mul(x, Pow(x, k - 1))
Two == [s |-> 1, m |-> <<2>>]
\* ---- bitwise operations on two's complement of sufficient width ------------------------------------------
Width(a, b) == (IF Len(a.m) > Len(b.m) THEN Len(a.m) ELSE Len(b.m)) + 1
BPow(w) == [i \in 1..w |-> 0] \o <<1>>                      \* B^w as limbs
Pad(m, w) == m \o [i \in 1..(w - Len(m)) |-> 0]
TwosC(x, w) == IF x.s >= 0 THEN Pad(x.m, w) ELSE Pad(MSub(BPow(w), x.m), w)
FromTwosC(v, w) == IF v[w] >= B \div 2 THEN Z(-1, MSub(BPow(w), Norm(v))) ELSE Z(1, Norm(v))
BitOp(op, a, b) ==
  LET w == Width(a, b)  x == TwosC(a, w)  y == TwosC(b, w)
      z == [i \in 1..w |-> CASE op = "logand" -> x[i] & y[i]
                             [] op = "logior" -> x[i] | y[i]
                             [] op = "logxor" -> x[i] ^^ y[i]]
  IN FromTwosC(z, w)
\* ---- a float given exactly as mant * 2^exp against a rational ----------------------------------------------
\* sign of (x - f) for rational x and f = fm * 2^fe
CmpFloat(x, fm, fe) == IF fe >= 0 THEN Cmp(x.n, Mul(Mul(fm, Pow(Two, fe)), x.d))
                       ELSE Cmp(Mul(x.n, Pow(Two, -fe)), Mul(fm, x.d))
=============================================================================
