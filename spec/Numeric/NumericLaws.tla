----------------------------- MODULE NumericLaws -----------------------------
(***************************************************************************)
(* Design check of the Numeric / BigInt operators themselves: on a grid of *)
(* integers that straddles the limb base they must agree with TLC's own    *)
(* (32-bit) integer arithmetic, and the defining relations must be         *)
(* mutually consistent (floor and mod agree, gcd * lcm = |a * b|, ...).    *)
(* One state; everything is in the invariant.                              *)
(***************************************************************************)
EXTENDS Numeric, TLC
VARIABLE x
G == {-70000, -65536, -32769, -32768, -32767, -255, -7, -2, -1, 0, 1, 2, 3, 7, 255, 32767, 32768, 32769, 65535, 65536, 70000}
Small == {g \in G : g > -40000 /\ g < 40000}
FloorDiv(a, b) == IF b > 0 THEN a \div b ELSE (-a) \div (-b)            \* TLC's \div floors for a positive divisor
Init == x = 0
Next == UNCHANGED x
AddOK == \A a, b \in G : Add(FromInt(a), FromInt(b)) = FromInt(a + b) /\ Sub(FromInt(a), FromInt(b)) = FromInt(a - b)
MulOK == \A a, b \in Small : Mul(FromInt(a), FromInt(b)) = FromInt(a * b)
CmpOK == \A a, b \in G : (Cmp(FromInt(a), FromInt(b)) < 0) = (a < b) /\ (Cmp(FromInt(a), FromInt(b)) = 0) = (a = b)
WellOK == \A a \in G : WellFormed(FromInt(a)) /\ IsFix(FromInt(a))
DivLaws == \A a \in G, b \in G \ {0} :
   LET q == FloorDiv(a, b)  r == a - q * b IN
   /\ DivOK(FromInt(a), FromInt(b), FromInt(q), FromInt(r), "floor")
   \* the floor certificate is unique: a neighbouring quotient is rejected
   /\ ~DivOK(FromInt(a), FromInt(b), FromInt(q + 1), FromInt(a - (q + 1) * b), "floor")
   /\ (r = 0 => DivOK(FromInt(a), FromInt(b), FromInt(q), FromInt(0), "ceiling") /\ DivOK(FromInt(a), FromInt(b), FromInt(q), FromInt(0), "round"))
BitLaws == \A a, b \in {g \in G : g >= 0} :
   /\ BitOp("logand", FromInt(a), FromInt(b)) = FromInt(a & b)
   /\ BitOp("logior", FromInt(a), FromInt(b)) = FromInt(a | b)
   /\ BitOp("logxor", FromInt(a), FromInt(b)) = FromInt(a ^^ b)
\* negative operands through the identities lognot x = -x - 1 and De Morgan
NegBitLaws == \A a, b \in G :
   LET A == FromInt(a)  Bb == FromInt(b)  not(z) == Sub(Neg(z), One) IN
   /\ BitOp("logand", A, Bb) = not(BitOp("logior", not(A), not(Bb)))
   /\ BitOp("logxor", A, Bb) = Sub(BitOp("logior", A, Bb), BitOp("logand", A, Bb))
   /\ Add(BitOp("logand", A, Bb), BitOp("logior", A, Bb)) = Add(A, Bb)
   /\ BitOp("logand", A, FromInt(-1)) = A /\ BitOp("logior", A, FromInt(0)) = A
PowLaws == \A k \in 0..20 : Pow(Two, k) = FromInt(IF k = 0 THEN 1 ELSE 2^k) /\ Pow(FromInt(-3), 3) = FromInt(-27)
RatLaws == \A a \in Small, b \in {1, 2, 7, 255}, c \in {-7, -1, 2, 3}, d \in {1, 3, 255} :
   LET xx == R(FromInt(a), FromInt(b))  y == R(FromInt(c), FromInt(d)) IN
   /\ REq(RSub(RAdd(xx, y), y), xx) /\ REq(RDiv(RMul(xx, y), y), xx)
   /\ (RCmp(xx, y) < 0) = (a * d < c * b)
Laws == AddOK /\ MulOK /\ CmpOK /\ WellOK /\ DivLaws /\ BitLaws /\ NegBitLaws /\ PowLaws /\ RatLaws
=============================================================================
