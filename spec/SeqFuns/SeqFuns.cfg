CONSTANTS
 MaxLen = 3
 LongLen = 9
 NLong = 40
INIT Init
NEXT Next
INVARIANT Inv
CHECK_DEADLOCK FALSE
