CONSTANT MaxLen = 3
INIT Init
NEXT Next
CHECK_DEADLOCK FALSE
