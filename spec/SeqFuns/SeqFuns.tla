------------------------------ MODULE SeqFuns ------------------------------
(***************************************************************************)
(* C14 - sequence functions honour their keyword arguments on lists,       *)
(* vectors and strings.                                                    *)
(*                                                                         *)
(* The definitions are transcribed from the language definition onto TLA+  *)
(* sequences.  Elements are small integers (rendered as integers in lists  *)
(* and vectors and as the characters a, b, c ... in strings).  Bounds are  *)
(* 0-based half open [st, en) as in the language; None = keyword absent.   *)
(* `Hits` = positions inside the bounds whose element satisfies the test;  *)
(* `Lim` applies :count from the requested end.  TLC enumerates every      *)
(* parameter combination inside the bounds (plus random longer sequences   *)
(* for the sorting family) and prints one row per call with the result the *)
(* definition gives.                                                       *)
(***************************************************************************)
EXTENDS Integers, Sequences, TLC, FiniteSets, Json, Randomization
CONSTANTS MaxLen,      \* exhaustive up to this length
          LongLen,     \* length of the random longer sequences
          NLong        \* how many of those
Elems == {0, 1, 2, 3}
Seqs(n) == UNION {[1..k -> Elems] : k \in 0..n}
None == -1
\* :key  id | inc (1+)      :test  eql | lt (#'<, called as test(item, key(elt)))      :test-not  neql (#'eql) | nlt (#'<)
K(key, e) == IF key = "inc" THEN e + 1 ELSE e
Sat(item, e, key, test) == CASE test = "lt" -> item < K(key, e)
                             [] test = "nlt" -> ~(item < K(key, e))
                             [] test = "neql" -> item # K(key, e)
                             [] OTHER -> item = K(key, e)
\* predicates for the -if / -if-not variants: odd key
Pred(e, key) == K(key, e) % 2 = 1
Iota(n) == [i \in 1..n |-> i]
InSeq(x, h) == \E j \in 1..Len(h) : h[j] = x
Rev(s) == [i \in 1..Len(s) |-> s[Len(s) + 1 - i]]
En(s, en) == IF en = None THEN Len(s) ELSE en
\* 1-based positions inside [st, en) that satisfy
Hits(s, st, en, P(_)) == SelectSeq(Iota(Len(s)), LAMBDA i : i > st /\ i <= En(s, en) /\ P(s[i]))
Lim(h, cnt, fe) == IF cnt = None \/ cnt >= Len(h) THEN h
                   ELSE IF cnt <= 0 THEN <<>>
                   ELSE IF fe THEN SubSeq(h, Len(h) - cnt + 1, Len(h)) ELSE SubSeq(h, 1, cnt)
FindH(s, h, fe) == IF h = <<>> THEN None ELSE IF fe THEN s[h[Len(h)]] ELSE s[h[1]]
PosH(h, fe) == IF h = <<>> THEN None ELSE IF fe THEN h[Len(h)] - 1 ELSE h[1] - 1
RemoveH(s, h) == LET keep == SelectSeq(Iota(Len(s)), LAMBDA i : ~InSeq(i, h)) IN [j \in 1..Len(keep) |-> s[keep[j]]]
SubstH(new, s, h) == [i \in 1..Len(s) |-> IF InSeq(i, h) THEN new ELSE s[i]]
\* remove-duplicates: an element is dropped when a later (or, with :from-end, an earlier) element inside the bounds matches
Dups(s, st, en, key, fe) ==
  SelectSeq(Iota(Len(s)), LAMBDA i : /\ i > st /\ i <= En(s, en)
                                      /\ \E j \in 1..Len(s) : /\ j > st /\ j <= En(s, en)
                                                              /\ (IF fe THEN j < i ELSE j > i)
                                                              /\ K(key, s[j]) = K(key, s[i]))
\* search: first (last with :from-end) position in b[st2, en2) where a[st1, en1) matches elementwise
Sub(s, st, en) == SubSeq(s, st + 1, En(s, en))
Search(a, b, st1, en1, st2, en2, fe) ==
  LET pat == Sub(a, st1, en1)  n == Len(pat)
      cands == SelectSeq(Iota(Len(b) + 1), LAMBDA p : p - 1 >= st2 /\ p - 1 + n <= En(b, en2) /\ SubSeq(b, p, p - 1 + n) = pat)
  IN IF cands = <<>> THEN None ELSE IF fe THEN cands[Len(cands)] - 1 ELSE cands[1] - 1
\* mismatch: first position (in a) where the two bounded subsequences differ, None if they match
Mismatch(a, b, st1, en1, st2, en2) ==
  LET x == Sub(a, st1, en1)  y == Sub(b, st2, en2)
      n == IF Len(x) < Len(y) THEN Len(x) ELSE Len(y)
      d == SelectSeq(Iota(n), LAMBDA i : x[i] # y[i])
  IN IF d # <<>> THEN st1 + d[1] - 1 ELSE IF Len(x) = Len(y) THEN None ELSE st1 + n
\* mismatch :from-end t: the two subsequences are compared from their right ends; one plus the index (in a) of the rightmost
\* position where they differ; when one is a proper suffix of the other, the index in a where the comparison ran out
MismatchFE(a, b, st1, en1, st2, en2) ==
  LET x == Sub(a, st1, en1)  y == Sub(b, st2, en2)
      n == IF Len(x) < Len(y) THEN Len(x) ELSE Len(y)
      d == SelectSeq(Iota(n), LAMBDA k : x[Len(x) - k + 1] # y[Len(y) - k + 1])
  IN IF d # <<>> THEN st1 + Len(x) - d[1] + 1 ELSE IF Len(x) = Len(y) THEN None ELSE st1 + Len(x) - n
\* named deviation (open finding C14-F5, pinned by the repository's TestMismatchFromEnd): on a difference slip returns the number
\* of elements compared from the right end instead of one plus the index in a
MismatchFEDev(a, b, st1, en1, st2, en2) ==
  LET x == Sub(a, st1, en1)  y == Sub(b, st2, en2)
      n == IF Len(x) < Len(y) THEN Len(x) ELSE Len(y)
      d == SelectSeq(Iota(n), LAMBDA k : x[Len(x) - k + 1] # y[Len(y) - k + 1])
  IN IF d # <<>> THEN st1 + d[1] ELSE MismatchFE(a, b, st1, en1, st2, en2)
\* replace: copies b[st2,en2) into a[st1,en1), as many as fit
Replace(a, b, st1, en1, st2, en2) ==
  LET y == Sub(b, st2, en2)
      room == En(a, en1) - st1
      n == IF Len(y) < room THEN Len(y) ELSE room
  IN [i \in 1..Len(a) |-> IF i > st1 /\ i <= st1 + n THEN y[i - st1] ELSE a[i]]
Fill(a, x, st, en) == [i \in 1..Len(a) |-> IF i > st /\ i <= En(a, en) THEN x ELSE a[i]]
\* sorting: elements are two-digit numbers, the key is the tens digit; stable insertion sort is THE stable result
SortKey(x) == x \div 10
RECURSIVE InsertStable(_, _)
InsertStable(e, s) == IF s = <<>> THEN <<e>> ELSE IF SortKey(e) < SortKey(s[1]) THEN <<e>> \o s ELSE <<s[1]>> \o InsertStable(e, Tail(s))
RECURSIVE StableSort(_)
StableSort(s) == IF s = <<>> THEN <<>> ELSE InsertStable(s[Len(s)], StableSort(SubSeq(s, 1, Len(s) - 1)))
\* merge of two sequences already sorted by the key: stable, elements of the first come first among equals
RECURSIVE Merge(_, _)
Merge(a, b) == IF a = <<>> THEN b ELSE IF b = <<>> THEN a
               ELSE IF SortKey(b[1]) < SortKey(a[1]) THEN <<b[1]>> \o Merge(a, Tail(b)) ELSE <<a[1]>> \o Merge(Tail(a), b)
Rng(s) == {s[i] : i \in 1..Len(s)}
RECURSIVE Reduce(_, _, _)        \* (reduce #'- s :initial-value acc), left fold
Reduce(s, acc, i) == IF i > Len(s) THEN acc ELSE Reduce(s, acc - s[i], i + 1)
RECURSIVE ReduceR(_, _, _)       \* :from-end t, right fold: s[i] - acc
ReduceR(s, acc, i) == IF i < 1 THEN acc ELSE ReduceR(s, s[i] - acc, i - 1)
\* (reduce #'- s :key k :start st :end en :initial-value acc [:from-end t]): the fold over the keys of the bounded part
Keys(s, st, en, key) == LET x == Sub(s, st, en) IN [i \in 1..Len(x) |-> K(key, x[i])]

Row(fn, a, b, item, kw, t, v) == PrintT(ToJson([fn |-> fn, a |-> a, b |-> b, item |-> item, kw |-> kw, t |-> t, v |-> v]))
\* a row that also carries the result under the named deviation of an open finding
RowDev(fn, a, b, item, kw, t, v, dev) == PrintT(ToJson([fn |-> fn, a |-> a, b |-> b, item |-> item, kw |-> kw, t |-> t, v |-> v, dev |-> dev]))
KW(st, en, fe, cnt, key, test) == [st |-> st, en |-> en, fe |-> fe, cnt |-> cnt, key |-> key, test |-> test, st2 |-> None, en2 |-> None]
KW2(st1, en1, st2, en2, fe) == [st |-> st1, en |-> en1, fe |-> fe, cnt |-> None, key |-> "id", test |-> "eql", st2 |-> st2, en2 |-> en2]
NoKW == KW(None, None, FALSE, None, "id", "eql")
Bounds(n) == {<<None, None>>} \cup {<<st, en>> \in (0..n) \X ((0..n) \cup {None}) : en = None \/ st <= en}
St(b) == IF b[1] = None THEN 0 ELSE b[1]
Opt(x) == IF x = None THEN [none |-> TRUE, v |-> 0] ELSE [none |-> FALSE, v |-> x]

VARIABLE done
Init == done = FALSE
\* ---- item / predicate family: find position count remove substitute delete (+ -if, -if-not) ------------
FamItem ==
  \A s \in Seqs(MaxLen) : \A b \in Bounds(Len(s)) : \A fe \in BOOLEAN : \A key \in {"id", "inc"} :
    /\ \A test \in {"eql", "lt", "neql", "nlt"} : \A cnt \in (IF test \in {"eql", "lt"} THEN {None, 0, 1, 2} ELSE {None, 1}) :
         LET h == Hits(s, St(b), b[2], LAMBDA e : Sat(1, e, key, test))
             kw == KW(b[1], b[2], fe, cnt, key, test) IN
         /\ (cnt # None \/ (/\ Row("find", s, <<>>, 1, kw, "elem", Opt(FindH(s, h, fe)))
                            /\ Row("position", s, <<>>, 1, kw, "int", Opt(PosH(h, fe)))
                            /\ Row("count", s, <<>>, 1, kw, "int", Opt(Len(h)))))
         /\ Row("remove", s, <<>>, 1, kw, "seq", RemoveH(s, Lim(h, cnt, fe)))
         /\ Row("delete", s, <<>>, 1, kw, "seq", RemoveH(s, Lim(h, cnt, fe)))
         /\ Row("substitute", s, <<>>, 1, kw, "seq", SubstH(3, s, Lim(h, cnt, fe)))
    /\ \A neg \in BOOLEAN : \A cnt \in {None, 1} :
         LET h == Hits(s, St(b), b[2], LAMBDA e : Pred(e, key) # neg)
             kw == KW(b[1], b[2], fe, cnt, key, "eql")
             sfx == IF neg THEN "-if-not" ELSE "-if" IN
         /\ (cnt # None \/ (/\ Row("find" \o sfx, s, <<>>, 0, kw, "elem", Opt(FindH(s, h, fe)))
                            /\ Row("position" \o sfx, s, <<>>, 0, kw, "int", Opt(PosH(h, fe)))
                            /\ Row("count" \o sfx, s, <<>>, 0, kw, "int", Opt(Len(h)))))
         /\ Row("remove" \o sfx, s, <<>>, 0, kw, "seq", RemoveH(s, Lim(h, cnt, fe)))
         /\ Row("delete" \o sfx, s, <<>>, 0, kw, "seq", RemoveH(s, Lim(h, cnt, fe)))
         /\ Row("substitute" \o sfx, s, <<>>, 0, kw, "seq", SubstH(3, s, Lim(h, cnt, fe)))
FamDup ==
  \A s \in Seqs(MaxLen) : \A b \in Bounds(Len(s)) : \A fe \in BOOLEAN : \A key \in {"id", "inc"} :
     Row("remove-duplicates", s, <<>>, 0, KW(b[1], b[2], fe, None, key, "eql"), "seq", RemoveH(s, Dups(s, St(b), b[2], key, fe)))
\* ---- two-sequence family ---------------------------------------------------------------------------------
Bits(n) == UNION {[1..k -> {0, 1}] : k \in 0..n}          \* a two-letter alphabet keeps this family small
FamTwo ==
  \A a \in Bits(2) : \A b \in Bits(MaxLen + 1) : \A b1 \in Bounds(Len(a)) : \A b2 \in Bounds(Len(b)) :
     /\ \A fe \in BOOLEAN : Row("search", a, b, 0, KW2(b1[1], b1[2], b2[1], b2[2], fe), "int",
                               Opt(Search(a, b, St(b1), b1[2], St(b2), b2[2], fe)))
     /\ Row("mismatch", a, b, 0, KW2(b1[1], b1[2], b2[1], b2[2], FALSE), "int", Opt(Mismatch(a, b, St(b1), b1[2], St(b2), b2[2])))
     /\ RowDev("mismatch", a, b, 0, KW2(b1[1], b1[2], b2[1], b2[2], TRUE), "int", Opt(MismatchFE(a, b, St(b1), b1[2], St(b2), b2[2])),
                Opt(MismatchFEDev(a, b, St(b1), b1[2], St(b2), b2[2])))
     /\ Row("replace", b, a, 0, KW2(b2[1], b2[2], b1[1], b1[2], FALSE), "seq", Replace(b, a, St(b2), b2[2], St(b1), b1[2]))
\* longer patterns in longer texts (patterns that overlap themselves, a match that begins inside a failed partial match), whole
\* sequences and a few :start2 / :end2
FamSearch ==
  \A a \in UNION {[1..k -> {0, 1}] : k \in 3..4} : \A b \in UNION {[1..k -> {0, 1}] : k \in 4..(MaxLen + 4)} : \A fe \in BOOLEAN :
     \A b2 \in {<<None, None>>, <<1, None>>, <<0, Len(b) - 1>>} :
        /\ Row("search", a, b, 0, KW2(None, None, b2[1], b2[2], fe), "int", Opt(Search(a, b, 0, None, St(b2), b2[2], fe)))
        /\ (fe \/ b2[1] # None \/ Row("mismatch", a, b, 0, KW2(None, None, None, None, FALSE), "int", Opt(Mismatch(a, b, 0, None, 0, None))))
        /\ (~fe \/ b2[1] # None \/ RowDev("mismatch", a, b, 0, KW2(None, None, None, None, TRUE), "int", Opt(MismatchFE(a, b, 0, None, 0, None)), Opt(MismatchFEDev(a, b, 0, None, 0, None))))
FamOne ==
  \A s \in Seqs(MaxLen) :
     /\ Row("reverse", s, <<>>, 0, NoKW, "seq", Rev(s))
     /\ Row("nreverse", s, <<>>, 0, NoKW, "seq", Rev(s))
     /\ Row("length", s, <<>>, 0, NoKW, "int", Opt(Len(s)))
     /\ Row("copy-seq", s, <<>>, 0, NoKW, "seq", s)
     /\ \A b \in Bounds(Len(s)) :
          /\ (b[1] = None \/ Row("subseq", s, <<>>, 0, KW(b[1], b[2], FALSE, None, "id", "eql"), "seq", Sub(s, St(b), b[2])))
          /\ Row("fill", s, <<>>, 3, KW(b[1], b[2], FALSE, None, "id", "eql"), "seq", Fill(s, 3, St(b), b[2]))
     /\ Row("every", s, <<>>, 0, NoKW, "bool", \A i \in 1..Len(s) : s[i] % 2 = 1)
     /\ Row("some", s, <<>>, 0, NoKW, "bool", \E i \in 1..Len(s) : s[i] % 2 = 1)
     /\ Row("notany", s, <<>>, 0, NoKW, "bool", ~\E i \in 1..Len(s) : s[i] % 2 = 1)
     /\ Row("notevery", s, <<>>, 0, NoKW, "bool", ~\A i \in 1..Len(s) : s[i] % 2 = 1)
     /\ Row("map1+", s, <<>>, 0, NoKW, "seq", [i \in 1..Len(s) |-> s[i] + 1])
     /\ \A fe \in BOOLEAN : Row("reduce-", s, <<>>, 10, KW(None, None, fe, None, "id", "eql"), "int",
                                 \* always a number (it can be -1, the value Opt takes for "none")
                                 [none |-> FALSE, v |-> IF fe THEN ReduceR(s, 10, Len(s)) ELSE Reduce(s, 10, 1)])
     \* reduce with :key and bounds
     /\ \A b \in Bounds(Len(s)) : \A key \in {"id", "inc"} : \A fe \in BOOLEAN :
          LET ks == Keys(s, St(b), b[2], key) IN
          (b[1] = None /\ key = "id") \/ Row("reduce-", s, <<>>, 10, KW(b[1], b[2], fe, None, key, "eql"), "int",
                                               [none |-> FALSE, v |-> IF fe THEN ReduceR(ks, 10, Len(ks)) ELSE Reduce(ks, 10, 1)])
     /\ \A t \in Seqs(2) :
          \* the set functions with :test #'< (called with an element of the first list, then one of the second) and :key
          /\ \A key \in {"id", "inc"} :
               LET In2(x) == \E j \in 1..Len(t) : K(key, x) < K(key, t[j]) IN
               /\ Row("set-difference", s, t, 0, KW(None, None, FALSE, None, key, "lt"), "set", {s[i] : i \in {i \in 1..Len(s) : ~In2(s[i])}})
               /\ Row("intersection", s, t, 0, KW(None, None, FALSE, None, key, "lt"), "set", {s[i] : i \in {i \in 1..Len(s) : In2(s[i])}})
               /\ Row("subsetp", s, t, 0, KW(None, None, FALSE, None, key, "lt"), "bool", \A i \in 1..Len(s) : In2(s[i]))
          /\ Row("concatenate", s, t, 0, NoKW, "seq", s \o t)
          /\ Row("map+", s, t, 0, NoKW, "seq", [i \in 1..(IF Len(s) < Len(t) THEN Len(s) ELSE Len(t)) |-> s[i] + t[i]])
          /\ Row("append", s, t, 0, NoKW, "seq", s \o t)
          /\ Row("union", s, t, 0, NoKW, "set", Rng(s) \cup Rng(t))
          /\ Row("intersection", s, t, 0, NoKW, "set", Rng(s) \cap Rng(t))
          /\ Row("set-difference", s, t, 0, NoKW, "set", Rng(s) \ Rng(t))
          /\ Row("subsetp", s, t, 0, NoKW, "bool", Rng(s) \subseteq Rng(t))
     /\ \A key \in {"id", "inc"} : \A test \in {"eql", "lt", "neql", "nlt"} :
          LET m == SelectSeq(Iota(Len(s)), LAMBDA i : Sat(2, s[i], key, test)) IN
          /\ Row("member", s, <<>>, 2, KW(None, None, FALSE, None, key, test), "seq", IF m = <<>> THEN <<>> ELSE SubSeq(s, m[1], Len(s)))
          \* assoc / rassoc on the alist ((e . i) ...) / ((i . e) ...): index of the first pair whose car / cdr matches
          /\ Row("assoc", s, <<>>, 2, KW(None, None, FALSE, None, key, test), "int", Opt(IF m = <<>> THEN None ELSE m[1] - 1))
          /\ Row("rassoc", s, <<>>, 2, KW(None, None, FALSE, None, key, test), "int", Opt(IF m = <<>> THEN None ELSE m[1] - 1))
\* ---- sorting family: short sequences exhaustively, longer ones at random ---------------------------------
SortElems == {10, 11, 12, 20, 21, 30}
SortSeqs == UNION {[1..k -> SortElems] : k \in 0..MaxLen} \cup RandomSubset(NLong, [1..LongLen -> SortElems])
             \cup RandomSubset(NLong, [1..(LongLen \div 2 + 1) -> SortElems])
FamSort ==
  \A s \in SortSeqs :
     /\ Row("stable-sort", s, <<>>, 0, NoKW, "seq", StableSort(s))
     /\ Row("sort", s, <<>>, 0, NoKW, "sorted", StableSort(s))
     /\ LET h == Len(s) \div 2  x == StableSort(SubSeq(s, 1, h))  y == StableSort(SubSeq(s, h + 1, Len(s))) IN
        Row("merge", x, y, 0, NoKW, "seq", Merge(x, y))
Next == /\ ~done /\ done' = TRUE
        /\ FamItem /\ FamDup /\ FamTwo /\ FamSearch /\ FamOne /\ FamSort
\* ---- design checks on the transcriptions themselves ------------------------------------------------------
Laws == \A s \in Seqs(2) : \A b \in Bounds(Len(s)) :
          LET h == Hits(s, St(b), b[2], LAMBDA e : e = 1) IN
          /\ Len(RemoveH(s, h)) + Len(h) = Len(s)
          /\ (\A cnt \in {0, 1, 2} : Len(Lim(h, cnt, TRUE)) = (IF cnt < Len(h) THEN cnt ELSE Len(h)))
          /\ Rev(Rev(s)) = s
          /\ (PosH(h, FALSE) = None) = (Len(h) = 0)
          \* mismatch: a sequence never differs from itself, from either end; against its own proper prefix / suffix it runs out
          /\ Mismatch(s, s, 0, None, 0, None) = None /\ MismatchFE(s, s, 0, None, 0, None) = None
          /\ (Len(s) = 0 \/ (Mismatch(s, Tail(s), 1, None, 0, None) = None /\ MismatchFE(s, Tail(s), 0, None, 0, None) = 1))
          \* a test and its :test-not complement partition the positions
          /\ \A e \in Elems : \A key \in {"id", "inc"} : Sat(1, e, key, "eql") # Sat(1, e, key, "neql") /\ Sat(1, e, key, "lt") # Sat(1, e, key, "nlt")
SortLaws == \A s \in UNION {[1..k -> SortElems] : k \in 0..3} :
          LET r == StableSort(s) IN
          /\ Len(r) = Len(s) /\ \A e \in SortElems : Cardinality({i \in 1..Len(s) : s[i] = e}) = Cardinality({i \in 1..Len(r) : r[i] = e})
          /\ \A i \in 1..(Len(r) - 1) : SortKey(r[i]) <= SortKey(r[i + 1])
          \* stability: equal keys keep their original relative order
          /\ \A i, j \in 1..Len(s) : (i < j /\ SortKey(s[i]) = SortKey(s[j]) /\ s[i] # s[j]) =>
                (CHOOSE p \in 1..Len(r) : r[p] = s[i] /\ \A q \in 1..(p - 1) : r[q] # s[i])
                 < (CHOOSE p \in 1..Len(r) : r[p] = s[j] /\ \A q \in 1..(p - 1) : r[q] # s[j])
             \/ Cardinality({k \in 1..Len(s) : s[k] = s[i]}) > 1 \/ Cardinality({k \in 1..Len(s) : s[k] = s[j]}) > 1
Inv == done \/ (Laws /\ SortLaws)
=============================================================================
