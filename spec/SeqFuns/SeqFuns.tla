------------------------------ MODULE SeqFuns ------------------------------
(***************************************************************************)
(* C14 - sequence functions honour their keyword arguments on lists,       *)
(* vectors and strings.  The definitions are transcribed from the language *)
(* definition on TLA+ sequences: `Hits` = positions inside [start, end)    *)
(* whose element satisfies test(item, key(elt)); `Lim` applies :count from *)
(* the requested end.  One TLC action dumps every parameter combination    *)
(* with the expected results of find/position/count/remove/substitute.     *)
(***************************************************************************)
EXTENDS Integers, Sequences, TLC, FiniteSets, Json
Elems == {0, 1, 2}
CONSTANT MaxLen
Seqs == UNION {[1..n -> Elems] : n \in 0..MaxLen}
None == -1
K(key, e) == IF key = "inc" THEN e + 1 ELSE e
Sat(item, e, key, test) == IF test = "lt" THEN item < K(key, e) ELSE item = K(key, e)
\* 0-based bounds [st, en) ; idx(s) = 1-based positions inside the bounds that satisfy
Hits(s, item, st, en, key, test) == SelectSeq([i \in 1..Len(s) |-> i], LAMBDA i : i > st /\ i <= en /\ Sat(item, s[i], key, test))
Lim(h, cnt, fe) == IF cnt = None \/ cnt >= Len(h) THEN h
                   ELSE IF fe THEN SubSeq(h, Len(h) - cnt + 1, Len(h)) ELSE SubSeq(h, 1, cnt)
InSeq(x, h) == \E j \in 1..Len(h) : h[j] = x
Find(s, item, st, en, key, test, fe) == LET h == Hits(s, item, st, en, key, test) IN
     IF h = <<>> THEN None ELSE IF fe THEN s[h[Len(h)]] ELSE s[h[1]]
Position(s, item, st, en, key, test, fe) == LET h == Hits(s, item, st, en, key, test) IN
     IF h = <<>> THEN None ELSE IF fe THEN h[Len(h)] - 1 ELSE h[1] - 1
Count(s, item, st, en, key, test) == Len(Hits(s, item, st, en, key, test))
Remove(s, item, st, en, key, test, fe, cnt) == LET h == Lim(Hits(s, item, st, en, key, test), cnt, fe) IN
     SelectSeq([i \in 1..Len(s) |-> [i |-> i, e |-> s[i]]], LAMBDA p : ~InSeq(p.i, h))
Substitute(new, s, item, st, en, key, test, fe, cnt) == LET h == Lim(Hits(s, item, st, en, key, test), cnt, fe) IN
     [i \in 1..Len(s) |-> IF InSeq(i, h) THEN new ELSE s[i]]
VARIABLE done
Init == done = FALSE
Bounds(n) == {<<st, en>> \in (0..n) \X (0..n) : st <= en}
Next == /\ ~done /\ done' = TRUE
        /\ \A s \in Seqs : \A b \in Bounds(Len(s)) : \A fe \in BOOLEAN : \A cnt \in {None, 0, 1, 2} :
           \A key \in {"id", "inc"} : \A test \in {"eql", "lt"} :
             LET item == 1  st == b[1]  en == b[2]
                 rm == Remove(s, item, st, en, key, test, fe, cnt) IN
             PrintT(ToJson([s |-> s, item |-> item, st |-> st, en |-> en, fe |-> fe, cnt |-> cnt, key |-> key, test |-> test,
                            find |-> Find(s, item, st, en, key, test, fe),
                            position |-> Position(s, item, st, en, key, test, fe),
                            count |-> Count(s, item, st, en, key, test),
                            remove |-> [i \in 1..Len(rm) |-> rm[i].e],
                            substitute |-> Substitute(9, s, item, st, en, key, test, fe, cnt)]))
====
