CONSTANTS
 Cap = 2
 TraceFile = "traces.ndjson"
INIT Init
NEXT Next
INVARIANT Done
CHECK_DEADLOCK FALSE
