------------------------------ MODULE GenCache ------------------------------
(***************************************************************************)
(* C17 / C10 (concurrent clause) - the effective-method cache of a generic *)
(* function under concurrent calls and redefinitions.  A caller looks the  *)
(* method up (cache hit, or compute it from the method table) and stores   *)
(* a computed one in the cache; a definer replaces the method and clears   *)
(* the cache.  In slip both run under the generic function's mutex         *)
(* (Atomic = TRUE: lookup-and-store is one step).  Atomic = FALSE is the   *)
(* control: the store happens in a separate step, after the lock was       *)
(* released - TLC then finds the stale cache entry.                        *)
(***************************************************************************)
EXTENDS Integers, FiniteSets, TLC
CONSTANTS Callers, Atomic
VARIABLES table,     \* version of the method currently defined (0, 1: the definer installs version 1)
          cache,     \* version cached, -1: none
          pc,        \* caller -> "start" | "computed" | "done"
          seen,      \* caller -> version it computed / found
          dpc        \* definer: "start" | "done"
vars == <<table, cache, pc, seen, dpc>>
Init == table = 0 /\ cache = -1 /\ pc = [c \in Callers |-> "start"] /\ seen = [c \in Callers |-> -1] /\ dpc = "start"
Lookup(c) == /\ pc[c] = "start"
             /\ IF cache # -1 THEN /\ seen' = [seen EXCEPT ![c] = cache] /\ pc' = [pc EXCEPT ![c] = "done"] /\ UNCHANGED cache
                ELSE IF Atomic THEN /\ seen' = [seen EXCEPT ![c] = table] /\ cache' = table /\ pc' = [pc EXCEPT ![c] = "done"]
                ELSE /\ seen' = [seen EXCEPT ![c] = table] /\ pc' = [pc EXCEPT ![c] = "computed"] /\ UNCHANGED cache
             /\ UNCHANGED <<table, dpc>>
Store(c) == /\ pc[c] = "computed" /\ cache' = seen[c] /\ pc' = [pc EXCEPT ![c] = "done"] /\ UNCHANGED <<table, seen, dpc>>
Define == /\ dpc = "start" /\ table' = 1 /\ cache' = -1 /\ dpc' = "done" /\ UNCHANGED <<pc, seen>>
Next == (\E c \in Callers : Lookup(c) \/ Store(c)) \/ Define
Spec == Init /\ [][Next]_vars
\* whenever nobody is between computing and storing, a cached method is the one of the current table
CacheCoherent == (\A c \in Callers : pc[c] # "computed") => cache \in {-1, table}
\* a call that starts after the definition completed runs the new method: with a coherent cache that follows
Fresh == (dpc = "done" /\ \A c \in Callers : pc[c] = "done") => cache \in {-1, 1}
=============================================================================
