------------------------------ MODULE ConcTrace ------------------------------
(***************************************************************************)
(* Acceptor for C17: a trace is one schedule replayed against slip,        *)
(*   [id, sched (<<routine, completions expected>> per step), steps (per   *)
(*    step the completions observed: routine, operation, value), final     *)
(*    (counter, mutex free, routines ended)]                               *)
(* Every step is recomputed with Conc's Step: the routines whose           *)
(* operation completes with the step (so also: the operation blocks when   *)
(* the model says so), the item a pop returns, the value a read sees and   *)
(* a write leaves, and at the end the counter, the free mutex and that     *)
(* every routine finished.                                                 *)
(***************************************************************************)
EXTENDS Conc
Trace == ndJsonDeserialize("traces.ndjson")
VARIABLES l, bad
\* what the completions of a step must look like: a set of [p, op, v]
Val(old, new, q) == LET o == Prog(q)[old.pc[q]] IN
                    CASE o.op = "pop" -> IF Sel THEN <<>> ELSE new.got[q][Len(new.got[q])]
                      [] o.op = "use" -> new.got[q][Len(new.got[q])]
                      [] o.op = "read" -> <<new.tmp[q]>>
                      [] o.op = "write" -> <<new.x>>
                      [] OTHER -> <<>>
Expected(old, r) == {[p |-> q, op |-> Prog(q)[old.pc[q]].op, v |-> Val(old, r.st, q)] : q \in r.done}
Observed(step) == {[p |-> step.done[i].p, op |-> step.done[i].op, v |-> step.done[i].v] : i \in 1..Len(step.done)}
\* first step at which the replay leaves the model (0: none), folding Step over the schedule
RECURSIVE Replay(_, _, _)
Replay(t, s, i) ==
  IF i > Len(t.sched) THEN
       IF AllDone(s) /\ t.final.x = s.x /\ t.final.free /\ t.final.ended = NProd + NCons THEN [at |-> 0, why |-> ""]
       ELSE [at |-> i, why |-> "final state"]
  ELSE IF t.stuck \/ i > Len(t.steps) THEN [at |-> i, why |-> "a routine did not come to its gate or to its end"]
  ELSE LET p == t.sched[i][1] IN
       IF ~CanStep(s, p) THEN [at |-> i, why |-> "schedule not possible in the model"]
       ELSE LET r == Step(s, p) IN
            IF Observed(t.steps[i]) # Expected(s, r) \/ Len(t.steps[i].done) # Cardinality(r.done) THEN [at |-> i, why |-> "completions"]
            ELSE Replay(t, r.st, i + 1)
InitT == l = 1 /\ bad = <<>> /\ st = InitSt /\ hist = <<>>
NextT == /\ l <= Len(Trace)
         /\ l' = l + 1 /\ UNCHANGED <<st, hist>>
         /\ LET t == Trace[l]  r == Replay(t, InitSt, 1) IN
            bad' = IF r.at = 0 THEN bad ELSE Append(bad, [id |-> t.id, at |-> r.at, why |-> r.why])
DoneT == (l = Len(Trace) + 1) => PrintT("RESULT" \o ToJson([bad |-> bad, checked |-> Len(Trace)]))
=============================================================================
