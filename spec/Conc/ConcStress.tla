----------------------------- MODULE ConcStress -----------------------------
(***************************************************************************)
(* C17, free running programs: the outcome of a program that shares data   *)
(* only through a channel, a mutex or a synchronized instance is the one   *)
(* of some sequential execution.  For the program shapes the harness runs  *)
(* that means:                                                             *)
(*   chan / select  n producers push (p, 0..m-1), n consumers receive m    *)
(*                  items each: every item exactly once, the items of one  *)
(*                  producer in the order pushed at every consumer         *)
(*   selectfn       one function receiving with select from the channel it *)
(*                  is given, used for two channels in turn: what it       *)
(*                  returns was pushed on that channel                     *)
(*   mutex          n routines x m increments inside with-mutex-lock left  *)
(*                  normally, by an error and by return-from: the counter  *)
(*                  is n*m and the mutex is free                           *)
(*   mutexnest      the main routine holds the mutex while it starts n     *)
(*                  routines and makes a closure, all of which take the    *)
(*                  same mutex around a read - wait - write of the counter:*)
(*                  no update is lost (the counter is 1 + 2 n m)           *)
(*   syncinst       n routines x m increments of their own slot of one     *)
(*                  synchronized instance: every slot is m                 *)
(*   syncmethod     n routines x m calls of a method of one synchronized   *)
(*                  flavor instance that updates a variable through        *)
(*                  with-slots: all calls return, the variable is n*m      *)
(*   rangehandoff   m items in a closed buffered channel taken with range by  *)
(*                  n consumers in turn, all but the last giving up part   *)
(*                  way: the lists received, one after the other, are the  *)
(*                  items pushed, each once, in order                      *)
(*   withslots      n routines, each inside one with-slots body for all its *)
(*                  turns, increment the slot in the order a token goes    *)
(*                  round a ring of channels: the slot is n*m              *)
(*   gencache       a call held at the yield point of the generic function   *)
(*                  while the method is redefined (GenCache.tla)           *)
(*   gencache2      the same with the call held by its own argument, an    *)
(*                  object whose class hierarchy waits at a gate           *)
(*   tables         concurrent defvar / defmethod / calls / printing /     *)
(*                  intern / printing of fresh symbols: every routine saw   *)
(*                  the values it must see                                 *)
(***************************************************************************)
EXTENDS Integers, Sequences, FiniteSets, TLC, Json
Trace == ndJsonDeserialize("traces.ndjson")
VARIABLES l, bad
All(e) == UNION {{<<c, i>> : i \in 1..Len(e.got[c])} : c \in 1..Len(e.got)}
ChanOK(e) == /\ Len(e.got) = e.n
             /\ \A c \in 1..e.n : Len(e.got[c]) = e.m
             /\ {e.got[x[1]][x[2]] : x \in All(e)} = {<<p, i>> : p \in 1..e.n, i \in 0..(e.m - 1)}      \* with the counts: exactly once
             /\ \A c \in 1..e.n : \A i, j \in 1..Len(e.got[c]) : (i < j /\ e.got[c][i][1] = e.got[c][j][1]) => e.got[c][i][2] < e.got[c][j][2]
\* selectfn: what the function received from the first channel is what the producers 1..n pushed on it, in their order; the
\* second channel likewise with the producers n+1..2n
SelectFnOK(e) == /\ Len(e.got) = 2
                 /\ \A c \in 1..2 :
                      /\ Len(e.got[c]) = e.n * e.m
                      /\ {e.got[c][i] : i \in 1..Len(e.got[c])} = {<<p, i>> : p \in ((c - 1) * e.n + 1)..(c * e.n), i \in 0..(e.m - 1)}
                      /\ \A i, j \in 1..Len(e.got[c]) : (i < j /\ e.got[c][i][1] = e.got[c][j][1]) => e.got[c][i][2] < e.got[c][j][2]
RECURSIVE Cat(_)
Cat(ss) == IF ss = <<>> THEN <<>> ELSE ss[1] \o Cat(Tail(ss))
Judge(e) == IF e.st # "ok" THEN "status"
            ELSE CASE e.kind \in {"chan", "select"} -> IF ChanOK(e) THEN "" ELSE "items"
                   [] e.kind = "selectfn" -> IF SelectFnOK(e) THEN "" ELSE "items"
                   [] e.kind = "mutex" -> IF e.x = e.n * e.m THEN "" ELSE "counter"
                   [] e.kind = "syncmethod" -> IF e.x = e.n * e.m THEN "" ELSE "counter"
                   [] e.kind = "rangehandoff" -> IF Cat(e.got) = [i \in 1..e.m |-> <<1, i - 1>>] THEN "" ELSE "items"
                   [] e.kind = "withslots" -> IF e.x = e.n * e.m THEN "" ELSE "counter"
                   [] e.kind = "mutexnest" -> IF e.x = 1 + 2 * e.n * e.m THEN "" ELSE "counter"
                   [] e.kind = "syncinst" -> IF Len(e.slots) = e.n /\ \A k \in 1..e.n : e.slots[k] = e.m THEN "" ELSE "slots"
                   \* GenCache.tla: the held call runs the old or the new method, and once both have returned the new method is the
                   \* one called (whether the definition has to wait for the call is the implementation's choice: not judged)
                   [] e.kind \in {"gencache", "gencache2"} -> IF e.gen.aok /\ e.gen.bok /\ e.gen.a \in {"old", "new"} /\ e.gen.final = "new" THEN "" ELSE "generic cache"
                   [] e.kind = "tables" -> IF e.bad = <<>> THEN "" ELSE "tables"
                   [] OTHER -> "unknown kind"
Init == l = 1 /\ bad = <<>>
Next == /\ l <= Len(Trace) /\ l' = l + 1
        /\ LET e == Trace[l]  j == Judge(e) IN bad' = IF j = "" THEN bad ELSE Append(bad, [id |-> e.id, law |-> j])
Done == (l = Len(Trace) + 1) => PrintT("RESULT" \o ToJson([bad |-> bad, checked |-> Len(Trace)]))
=============================================================================
