--------------------------------- MODULE Lin ---------------------------------
(***************************************************************************)
(* C17 - channels hold up under concurrency.  Linearisability acceptor for *)
(* histories of push/pop invocations and responses on one bounded FIFO     *)
(* channel: `configs` is the set of [queue, operations linearised but not  *)
(* yet answered] consistent with the history so far; a response keeps the  *)
(* configurations in which that operation took effect with that result.    *)
(* An unbuffered channel is checked with capacity 1 (more permissive).     *)
(***************************************************************************)
EXTENDS Integers, Sequences, TLC, FiniteSets, Json
CONSTANT Cap
CONSTANT TraceFile
H == ndJsonDeserialize(TraceFile)
VARIABLES l, configs, pending, bad, maxc
\* config: [q |-> Seq(item), lin |-> set of [id, res]]  (linearised, response not yet seen)
\* pending: set of [id, op, v] invoked and not yet responded
Apply(c, o) == IF o.op = "push"
               THEN IF Len(c.q) < Cap THEN {[q |-> Append(c.q, o.v), lin |-> c.lin \cup {[id |-> o.id, res |-> <<>>]}]} ELSE {}
               ELSE IF c.q # <<>> THEN {[q |-> Tail(c.q), lin |-> c.lin \cup {[id |-> o.id, res |-> Head(c.q)]}]} ELSE {}
LinIds(c) == {x.id : x \in c.lin}
StepC(C, P) == C \cup UNION {UNION {Apply(c, o) : o \in {p \in P : p.id \notin LinIds(c)}} : c \in C}
RECURSIVE Close(_, _)
Close(C, P) == LET C2 == StepC(C, P) IN IF C2 = C THEN C ELSE Close(C2, P)
Init == l = 1 /\ configs = {[q |-> <<>>, lin |-> {}]} /\ pending = {} /\ bad = <<>> /\ maxc = 1
Next == /\ l <= Len(H) /\ l' = l + 1
        /\ LET e == H[l] IN
           IF e.ph = "inv"
           THEN /\ pending' = pending \cup {[id |-> e.id, op |-> e.op, v |-> e.v]}
                /\ UNCHANGED <<configs, bad, maxc>>
           ELSE LET C == Close(configs, pending)
                    want == [id |-> e.id, res |-> e.v]
                    C2 == {[q |-> c.q, lin |-> c.lin \ {want}] : c \in {c \in C : want \in c.lin}}
                IN /\ pending' = {p \in pending : p.id # e.id}
                   /\ maxc' = IF Cardinality(C) > maxc THEN Cardinality(C) ELSE maxc
                   /\ IF C2 = {} THEN bad' = Append(bad, l) /\ configs' = C   \* not linearisable here
                      ELSE bad' = bad /\ configs' = C2
Done == (l = Len(H) + 1) => PrintT("RESULT" \o ToJson([bad |-> [i \in 1..Len(bad) |-> [l |-> bad[i], t |-> 1]], checked |-> Len(H), maxconfigs |-> maxc,
                                   drained |-> (\A c \in configs : c.q = <<>> /\ c.lin = {})]))
====
