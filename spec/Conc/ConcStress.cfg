INIT Init
NEXT Next
INVARIANT Done
CHECK_DEADLOCK FALSE
