-------------------------------- MODULE Conc --------------------------------
(***************************************************************************)
(* C17 - routines that share data through a channel, a mutex and a         *)
(* counter guarded by the mutex, as slip implements them: a channel is a   *)
(* Go channel (bounded buffer, FIFO queues of blocked senders and          *)
(* receivers, direct hand-off to a waiting receiver), with-mutex-lock is   *)
(* Lock with a deferred Unlock (run on a normal exit, an error and a       *)
(* return-from alike), the counter is read and written in two steps.       *)
(*                                                                         *)
(* NProd producers push Items items each and then increment the counter    *)
(* Incs times; NCons consumers pop their share and increment likewise.     *)
(* One step of the model is one operation of one routine: it completes,    *)
(* possibly completing a blocked operation of another routine with it, or  *)
(* blocks (the routine then waits in the queue of the resource).           *)
(*                                                                         *)
(* TLC checks the design (exactly once, per-producer order, mutual         *)
(* exclusion, no lost update, the mutex free at the end, termination) and  *)
(* emits schedules; the harness replays each schedule against slip with    *)
(* one gate per operation and ConcTrace compares every step.               *)
(***************************************************************************)
EXTENDS Integers, Sequences, FiniteSets, TLC, Json
CONSTANTS NProd, NCons, Items, Incs, Cap,
          Sel,         \* TRUE: the consumers receive with (select (ch v ...)) and use v one step later (the value received
                       \* is the consumer's own, whatever other consumers received in between)
          Guarded,     \* FALSE: the increments are done without the mutex (the model then loses updates: a control of the model)
          EmitFrom     \* schedules are printed from this length on (simulation mode)
Procs == 1..(NProd + NCons)
IsProd(p) == p <= NProd
Share == (NProd * Items) \div NCons       \* NProd * Items is a multiple of NCons in every configuration used
Hows == <<"normal", "error", "return">>
IncOps(p) == LET one(i) == IF Guarded THEN <<[op |-> "lock"], [op |-> "read"], [op |-> "write"], [op |-> "unlock", how |-> Hows[((p + i) % 3) + 1]]>>
                           ELSE <<[op |-> "read"], [op |-> "write"]>>
                 RECURSIVE all(_)
                 all(i) == IF i > Incs THEN <<>> ELSE one(i) \o all(i + 1)
             IN all(1)
Pops(n) == IF Sel THEN [i \in 1..(2 * n) |-> IF i % 2 = 1 THEN [op |-> "pop"] ELSE [op |-> "use"]] ELSE [i \in 1..n |-> [op |-> "pop"]]
Prog(p) == (IF IsProd(p) THEN [i \in 1..Items |-> [op |-> "push", v |-> <<p, i>>]] ELSE Pops(Share)) \o IncOps(p)

\* st: the state of the program
\*   pc[p] next operation   wait[p] blocked inside that operation   buf, recvq, sendq: the channel
\*   owner, lockq: the mutex   x: the counter   tmp[p]: the value read   got[p]: the items popped in order
InitSt == [pc |-> [p \in Procs |-> 1], wait |-> [p \in Procs |-> FALSE], buf |-> <<>>, recvq |-> <<>>, sendq |-> <<>>,
           owner |-> 0, lockq |-> <<>>, x |-> 0, tmp |-> [p \in Procs |-> 0], got |-> [p \in Procs |-> <<>>]]
Finished(st, p) == st.pc[p] > Len(Prog(p))
Op(st, p) == Prog(p)[st.pc[p]]
\* a routine can take a step when it is neither finished nor blocked.  Test policy for the mutex (sync.Mutex does not
\* queue fairly): while a routine waits for the mutex no other routine is let through its gate to ask for it.
CanStep(st, p) == /\ ~Finished(st, p) /\ ~st.wait[p]
                  /\ (Op(st, p).op = "lock" => st.lockq = <<>>)
                  /\ (Op(st, p).op = "unlock" => st.owner = p)
Adv(st, ps) == [st EXCEPT !.pc = [q \in Procs |-> IF q \in ps THEN @[q] + 1 ELSE @[q]], !.wait = [q \in Procs |-> IF q \in ps THEN FALSE ELSE @[q]]]
\* the step of p: [st |-> next state, done |-> routines whose operation completes with this step]
Step(st, p) ==
  LET o == Op(st, p) IN
  CASE o.op = "push" ->
         IF st.recvq # <<>> THEN LET r == Head(st.recvq) IN
              [st |-> Adv([st EXCEPT !.recvq = Tail(@), !.got[r] = Append(@, o.v)], {p, r}), done |-> {p, r}]
         ELSE IF Len(st.buf) < Cap THEN [st |-> Adv([st EXCEPT !.buf = Append(@, o.v)], {p}), done |-> {p}]
         ELSE [st |-> [st EXCEPT !.sendq = Append(@, [p |-> p, v |-> o.v]), !.wait[p] = TRUE], done |-> {}]
    [] o.op = "pop" ->
         IF st.buf # <<>> THEN
              LET v == Head(st.buf)  s1 == [st EXCEPT !.buf = Tail(@), !.got[p] = Append(@, v)] IN
              IF st.sendq # <<>> THEN LET s == Head(st.sendq) IN
                   [st |-> Adv([s1 EXCEPT !.sendq = Tail(@), !.buf = Append(@, s.v)], {p, s.p}), done |-> {p, s.p}]
              ELSE [st |-> Adv(s1, {p}), done |-> {p}]
         ELSE IF st.sendq # <<>> THEN LET s == Head(st.sendq) IN      \* unbuffered: rendezvous with a waiting sender
              [st |-> Adv([st EXCEPT !.sendq = Tail(@), !.got[p] = Append(@, s.v)], {p, s.p}), done |-> {p, s.p}]
         ELSE [st |-> [st EXCEPT !.recvq = Append(@, p), !.wait[p] = TRUE], done |-> {}]
    [] o.op = "lock" ->
         IF st.owner = 0 THEN [st |-> Adv([st EXCEPT !.owner = p], {p}), done |-> {p}]
         ELSE [st |-> [st EXCEPT !.lockq = Append(@, p), !.wait[p] = TRUE], done |-> {}]
    [] o.op = "unlock" ->
         IF st.lockq # <<>> THEN LET w == Head(st.lockq) IN
              [st |-> Adv([st EXCEPT !.lockq = Tail(@), !.owner = w], {p, w}), done |-> {p, w}]
         ELSE [st |-> Adv([st EXCEPT !.owner = 0], {p}), done |-> {p}]
    [] o.op = "use" -> [st |-> Adv(st, {p}), done |-> {p}]
    [] o.op = "read" -> [st |-> Adv([st EXCEPT !.tmp[p] = st.x], {p}), done |-> {p}]
    [] o.op = "write" -> [st |-> Adv([st EXCEPT !.x = st.tmp[p] + 1], {p}), done |-> {p}]

VARIABLES st, hist
vars == <<st, hist>>
Init == st = InitSt /\ hist = <<>>
Next == \E p \in Procs : /\ CanStep(st, p)
                         /\ LET r == Step(st, p) IN st' = r.st /\ hist' = Append(hist, <<p, Cardinality(r.done)>>)
Spec == Init /\ [][Next]_vars /\ WF_vars(Next)
AllDone(s) == \A p \in Procs : Finished(s, p)

(***************************************************************************)
(* Properties of the design                                                *)
(***************************************************************************)
Pushed == {<<p, i>> : p \in 1..NProd, i \in 1..Items}
Received(s) == UNION {{s.got[c][i] : i \in 1..Len(s.got[c])} : c \in Procs}
\* every item at most once, and only items that were pushed
AtMostOnce == /\ Received(st) \subseteq Pushed
              /\ \A c, d \in Procs : \A i \in 1..Len(st.got[c]), j \in 1..Len(st.got[d]) : (c # d \/ i # j) => st.got[c][i] # st.got[d][j]
\* the items of one producer arrive in the order pushed
ProducerOrder == \A c \in Procs : \A i, j \in 1..Len(st.got[c]) : (i < j /\ st.got[c][i][1] = st.got[c][j][1]) => st.got[c][i][2] < st.got[c][j][2]
\* inside the critical section: after a completed lock and before the matching unlock
RECURSIVE Holds(_, _, _)
Holds(ops, n, h) == IF n = 0 THEN h ELSE Holds(Tail(ops), n - 1, IF Head(ops).op = "lock" THEN TRUE ELSE IF Head(ops).op = "unlock" THEN FALSE ELSE h)
InCS(s, p) == Holds(Prog(p), s.pc[p] - 1, FALSE)
MutualExclusion == Cardinality({p \in Procs : InCS(st, p)}) <= 1 /\ \A p \in Procs : InCS(st, p) => st.owner = p
\* at the end nothing is lost: every item received, every increment counted, the mutex free
RECURSIVE Writes(_)
Writes(ops) == IF ops = <<>> THEN 0 ELSE (IF Head(ops).op = "write" THEN 1 ELSE 0) + Writes(Tail(ops))
EndState == AllDone(st) => /\ Received(st) = Pushed
                           /\ st.x = Incs * (NProd + NCons)
                           /\ st.owner = 0 /\ st.buf = <<>> /\ st.lockq = <<>> /\ st.recvq = <<>> /\ st.sendq = <<>>
\* nobody waits for ever: the program always finishes (checked with fairness, no deadlock)
Termination == <>AllDone(st)
NoDeadlock == AllDone(st) \/ \E p \in Procs : CanStep(st, p)

\* ---- schedules for the harness ----------------------------------------------------------------------------------
Case(h) == [nprod |-> NProd, ncons |-> NCons, items |-> Items, incs |-> Incs, cap |-> Cap, sched |-> h]
EmitDone == ~AllDone(st) \/ Len(hist) < EmitFrom \/ PrintT(ToJson(Case(hist)))
View == st
=============================================================================
