CONSTANTS
 NProd = 2
 NCons = 2
 Items = 2
 Incs = 1
 Cap = 1
 Sel = FALSE
 Guarded = TRUE
 EmitFrom = 1000
SPECIFICATION Spec
VIEW View
INVARIANTS AtMostOnce ProducerOrder MutualExclusion EndState NoDeadlock
PROPERTY Termination
CHECK_DEADLOCK FALSE
