CONSTANTS
 Callers = {1, 2}
 Atomic = TRUE
SPECIFICATION Spec
INVARIANTS CacheCoherent Fresh
CHECK_DEADLOCK FALSE
