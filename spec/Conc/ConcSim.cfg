CONSTANTS
 NProd = 1
 NCons = 1
 Items = 2
 Incs = 1
 Cap = 1
 Sel = FALSE
 Guarded = TRUE
 EmitFrom = 0
INIT Init
NEXT Next
INVARIANT EmitDone
CHECK_DEADLOCK FALSE
