CONSTANTS
 NC = 5
 MaxOps = 10
 MaxSupers = 2
 Thin = 8
 WithMeth = TRUE
 EmitFrom = 10
INIT Init
NEXT Next
INVARIANT EmitState
CHECK_DEADLOCK FALSE
