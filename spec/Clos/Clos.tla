-------------------------------- MODULE Clos --------------------------------
(***************************************************************************)
(* C12 - CLOS classes: precedence, slots and initialisation are order-     *)
(* independent.                                                            *)
(*                                                                         *)
(* Reference, from the statement: the precedence list of a class is the    *)
(* class, its direct superclasses in the order written, followed by theirs *)
(* (a class already present is skipped).  make-instance fills a slot from  *)
(* the matching initarg if supplied, otherwise from the most specific      *)
(* initform, otherwise leaves it unbound; readers act on that slot; typep  *)
(* uses the same precedence list.  Everything is recomputed from the       *)
(* current definitions: DefClass may come in any order (forward            *)
(* references), may redefine, and instances may have been made in between  *)
(* (ghost variable made: part of the VIEW because an implementation may    *)
(* cache per-class data at first instantiation).                           *)
(***************************************************************************)
EXTENDS Integers, Sequences, FiniteSets, TLC, Json
CONSTANTS NC, MaxOps, MaxSupers, EmitFrom, WithMeth,
          Thin        \* random walks print one state in Thin of the deep end (all enabled successors are evaluated)
AllC == <<"ca", "cb", "cc", "cd", "ce", "cf">>
C == {AllC[i] : i \in 1..NC}
Idx(c) == CHOOSE i \in 1..Len(AllC) : AllC[i] = c
\* slot configurations of a class: slot s (initarg :s, reader), slot u (initarg :u, or sharing :s)
Cfgs == {"none", "s", "sf", "u", "us", "sfuf"}
SlotS(cfg) == IF cfg = "s" THEN 1 ELSE IF cfg \in {"sf", "sfuf"} THEN 2 ELSE 0       \* 0 none, 1 no initform, 2 initform
SlotU(cfg) == IF cfg = "u" THEN 1 ELSE IF cfg = "sfuf" THEN 2 ELSE IF cfg = "us" THEN 3 ELSE 0   \* 3: initarg :s shared
VARIABLES cls,     \* cls[c] = [def, supers : Seq(C), cfg]
          made,    \* ghost: classes of which an instance has been made so far
          hist, feat,
          meth,    \* classes for which a method of the message :who (and of the generic function whog) has been defined
          lost     \* ghost for the named deviation of open finding C12-F3: classes redefined since their :who method was defined
                   \* (the implementation builds a new class object and the methods defined with (defmethod (class :message)) are gone)
Undef == [def |-> FALSE, supers |-> <<>>, cfg |-> "none"]
Rng(s) == {s[i] : i \in 1..Len(s)}
NoDup(s) == \A i, j \in 1..Len(s) : i # j => s[i] # s[j]
SeqsUpTo(S, n) == UNION {[1..k -> S] : k \in 0..n}

RECURSIVE Reach(_, _, _)
Reach(t, from, seen) == IF from \in seen THEN seen
                        ELSE LET s2 == seen \cup {from} IN
                             IF Len(t[from].supers) = 0 THEN s2
                             ELSE UNION {Reach(t, t[from].supers[i], s2) : i \in 1..Len(t[from].supers)}
Acyclic(t) == \A c \in C : \A i \in 1..Len(t[c].supers) : c \notin Reach(t, t[c].supers[i], {})
Ready(t, c) == \A d \in Reach(t, c, {}) : t[d].def

\* first occurrences of a sequence, in order
Dedup(s) == LET keep == {i \in 1..Len(s) : \A j \in 1..(i - 1) : s[j] # s[i]}
                nth(k) == CHOOSE i \in keep : Cardinality({j \in keep : j <= i}) = k
            IN [k \in 1..Cardinality(keep) |-> s[nth(k)]]
RECURSIVE Flat(_)
Flat(ss) == IF ss = <<>> THEN <<>> ELSE ss[1] \o Flat(Tail(ss))
\* "direct superclasses in the order written followed by theirs"
RECURSIVE Inherit(_, _)
Inherit(t, c) == Dedup(t[c].supers \o Flat([i \in 1..Len(t[c].supers) |-> Inherit(t, t[c].supers[i])]))
Prec(t, c) == <<c>> \o Inherit(t, c)

DefinesS(t, d) == SlotS(t[d].cfg) > 0
DefinesU(t, d) == SlotU(t[d].cfg) > 0
HasS(t, c) == \E d \in Rng(Prec(t, c)) : DefinesS(t, d)
HasU(t, c) == \E d \in Rng(Prec(t, c)) : DefinesU(t, d)
\* value of a slot of a fresh instance: 0 no such slot, -1 unbound, else the value
FormS(t, c) == LET w == SelectSeq(Prec(t, c), LAMBDA d : SlotS(t[d].cfg) = 2) IN IF w = <<>> THEN -1 ELSE Idx(w[1])
FormU(t, c) == LET w == SelectSeq(Prec(t, c), LAMBDA d : SlotU(t[d].cfg) = 2) IN IF w = <<>> THEN -1 ELSE 10 + Idx(w[1])
USharesS(t, c) == \E d \in Rng(Prec(t, c)) : SlotU(t[d].cfg) = 3
S0(t, c) == IF ~HasS(t, c) THEN 0 ELSE FormS(t, c)
U0(t, c) == IF ~HasU(t, c) THEN 0 ELSE FormU(t, c)
\* with initargs (:s 77): every slot that accepts :s gets 77
S1(t, c) == IF ~HasS(t, c) THEN 0 ELSE 77
U1(t, c) == IF ~HasU(t, c) THEN 0 ELSE IF USharesS(t, c) THEN 77 ELSE FormU(t, c)
\* :s is a legal initarg iff some slot accepts it
AcceptsS(t, c) == HasS(t, c) \/ USharesS(t, c)

Subclasses(t, c) == {d \in C : d # c /\ t[d].def /\ c \in Reach(t, d, {})}
\* feature tags: constructs for which the implementation has a recorded finding
ClassFeatures(t, c) == IF HasS(t, c) /\ USharesS(t, c) THEN {"initarg-shared-by-two-slots"} ELSE {}

Init == cls = [c \in C |-> Undef] /\ made = {} /\ hist = <<>> /\ feat = {} /\ meth = {} /\ lost = {}
\* class names are arbitrary: the first mention (definition or forward reference) of the names follows ca, cb, ...
Mentioned(t) == {c \in C : t[c].def} \cup UNION {Rng(t[c].supers) : c \in C}
NameOrderOK(t) == \A c \in Mentioned(t) : \A i \in 1..(Idx(c) - 1) : AllC[i] \in Mentioned(t)
DefClass(c, sups, cfg) ==
  LET t2 == [cls EXCEPT ![c] = [def |-> TRUE, supers |-> sups, cfg |-> cfg]] IN
  /\ c \notin Rng(sups) /\ NoDup(sups) /\ Acyclic(t2) /\ t2 # cls /\ NameOrderOK(t2)
  \* a redefinition that makes the class (and its subclasses) wait for a not-yet-defined class is outside the statement
  /\ cls[c].def => \A i \in 1..Len(sups) : cls[sups[i]].def /\ Ready(cls, sups[i])
  /\ cls' = t2 /\ made' = made /\ meth' = meth /\ lost' = (IF cls[c].def /\ c \in meth THEN lost \cup {c} ELSE lost)
  /\ hist' = Append(hist, [op |-> "defclass", c |-> c, supers |-> sups, cfg |-> cfg])
  /\ feat' = feat \cup UNION {ClassFeatures(t2, d) : d \in {e \in C : t2[e].def /\ Ready(t2, e)}}
Make(c) == /\ cls[c].def /\ Ready(cls, c) /\ c \notin made
           /\ made' = made \cup {c} /\ cls' = cls /\ feat' = feat /\ meth' = meth /\ lost' = lost
           /\ hist' = Append(hist, [op |-> "make", c |-> c, supers |-> <<>>, cfg |-> ""])
\* a method specialised on the class: of the message :who (defmethod (c :who) ...) and of the generic function whog
\* (defmethod whog ((x c)) ...); what answers for an instance of a class is the method of the first class of its precedence
\* list that has one - whether the method was defined before or after the classes that inherit it, also after a redefinition
DefMeth(c) == /\ cls[c].def /\ Ready(cls, c) /\ (c \notin meth \/ c \in lost)       \* defined, or defined again after a redefinition of the class
              /\ meth' = meth \cup {c} /\ lost' = lost \ {c} /\ cls' = cls /\ made' = made /\ feat' = feat
              /\ hist' = Append(hist, [op |-> "defmeth", c |-> c, supers |-> <<>>, cfg |-> ""])
Who(t, me, c) == LET w == SelectSeq(Prec(t, c), LAMBDA d : d \in me) IN IF w = <<>> THEN "none" ELSE w[1]
Next == /\ Len(hist) < MaxOps
        /\ \/ \E c \in C, sups \in SeqsUpTo(C, MaxSupers), cfg \in Cfgs : DefClass(c, sups, cfg)
           \/ \E c \in C : Make(c)
           \/ WithMeth /\ \E c \in C : DefMeth(c)
\* order independence on a fixed shape: the chain ca <- cb <- cc (and the diamond cd over cb and cc when NC = 4), classes and
\* methods defined in every order the names allow; the same states are reached, the observations must be the same
ChainSup(c) == IF Idx(c) = 1 THEN <<>> ELSE IF Idx(c) = 4 THEN <<AllC[2], AllC[3]>> ELSE <<AllC[Idx(c) - 1]>>
ChainNext == /\ Len(hist) < MaxOps
             /\ \E c \in C : DefClass(c, ChainSup(c), "s") \/ DefMeth(c)
ExpectOf(t, me, lo) == [c \in {d \in C : t[d].def} |->
             IF Ready(t, c)
             THEN [ready |-> TRUE, prec |-> Prec(t, c), s0 |-> S0(t, c), u0 |-> U0(t, c), s1 |-> S1(t, c), u1 |-> U1(t, c),
                   acc |-> AcceptsS(t, c), shared |-> (HasS(t, c) /\ USharesS(t, c)),
                   isa |-> {d \in C : t[d].def /\ Ready(t, d) /\ d \in Rng(Prec(t, c))}, who |-> Who(t, me, c), whodev |-> Who(t, me \ lo, c)]
             ELSE [ready |-> FALSE, prec |-> <<>>, s0 |-> 0, u0 |-> 0, s1 |-> 0, u1 |-> 0, acc |-> FALSE, shared |-> FALSE, isa |-> {}, who |-> "none", whodev |-> "none"]]
Emit == Len(hist') < EmitFrom \/ PrintT(ToJson([hist |-> hist', expect |-> ExpectOf(cls', meth', lost'), feat |-> feat']))
EmitState == Len(hist) < EmitFrom \/ RandomElement(1..Thin) # 1 \/ PrintT(ToJson([hist |-> hist, expect |-> ExpectOf(cls, meth, lost), feat |-> feat]))
View == <<cls, made, meth, lost>>
\* ---- design checks on the reference ------------------------------------------------------------------------
PrecOK == \A c \in C : (cls[c].def /\ Ready(cls, c)) =>
            LET p == Prec(cls, c) IN
            /\ p[1] = c /\ NoDup(p) /\ Rng(p) = Reach(cls, c, {})
            \* direct superclasses come first, in the order written
            /\ \A i \in 1..Len(Dedup(cls[c].supers)) : p[i + 1] = Dedup(cls[c].supers)[i]
\* typep is monotone along the precedence list: an instance of c is an instance of everything its supers are
IsaOK == \A c \in C : (cls[c].def /\ Ready(cls, c)) =>
            \A d \in Rng(Prec(cls, c)) : Rng(Prec(cls, d)) \subseteq Rng(Prec(cls, c))
=============================================================================
