-------------------------------- MODULE Clos --------------------------------
(***************************************************************************)
(* C12 - CLOS classes: precedence, slots and initialisation are order-     *)
(* independent.                                                            *)
(*                                                                         *)
(* Reference, from the statement: the precedence list of a class is the    *)
(* class, its direct superclasses in the order written, followed by theirs *)
(* (a class already present is skipped).  make-instance fills a slot from  *)
(* the matching initarg if supplied, otherwise from the most specific      *)
(* initform, otherwise leaves it unbound.  Everything is recomputed from   *)
(* the current definitions; DefClass may come in any order (forward        *)
(* references) and may redefine.                                           *)
(***************************************************************************)
EXTENDS Integers, Sequences, FiniteSets, TLC, Json
CONSTANTS C, MaxOps
\* cls[c] = [def, supers : Seq(C), slot : 0 no slot s | 1 slot s without initform | 2 slot s with initform]
VARIABLES cls, hist, feat
Undef == [def |-> FALSE, supers |-> <<>>, slot |-> 0]
Rng(s) == {s[i] : i \in 1..Len(s)}
NoDup(s) == \A i, j \in 1..Len(s) : i # j => s[i] # s[j]
SeqsUpTo(S, n) == UNION {[1..k -> S] : k \in 0..n}

RECURSIVE Reach(_, _, _)
Reach(t, from, seen) == IF from \in seen THEN seen
                        ELSE LET s2 == seen \cup {from} IN
                             IF Len(t[from].supers) = 0 THEN s2
                             ELSE UNION {Reach(t, t[from].supers[i], s2) : i \in 1..Len(t[from].supers)}
Acyclic(t) == \A c \in C : \A i \in 1..Len(t[c].supers) : c \notin Reach(t, t[c].supers[i], {})
Ready(t, c) == \A d \in Reach(t, c, {}) : t[d].def

RECURSIVE Inherit(_, _)
RECURSIVE AppendNew(_, _)
RECURSIVE Expand(_, _, _)
AppendNew(acc, xs) == IF xs = <<>> THEN acc
                      ELSE AppendNew(IF xs[1] \in Rng(acc) THEN acc ELSE Append(acc, xs[1]), Tail(xs))
Expand(t, ds, acc) == IF ds = <<>> THEN acc ELSE Expand(t, Tail(ds), AppendNew(acc, Inherit(t, ds[1])))
Inherit(t, c) == LET directs == AppendNew(<<>>, t[c].supers) IN Expand(t, directs, directs)
Prec(t, c) == <<c>> \o Inherit(t, c)

\* slot s of a fresh instance made without initargs: "noslot", "unbound", or the class whose initform applies
SlotOf(t, c) == LET p == Prec(t, c)
                    withSlot == SelectSeq(p, LAMBDA d : t[d].slot > 0)
                    withForm == SelectSeq(p, LAMBDA d : t[d].slot = 2)
                IN IF withSlot = <<>> THEN "noslot" ELSE IF withForm = <<>> THEN "unbound" ELSE withForm[1]
HasSlot(t, c) == SelectSeq(Prec(t, c), LAMBDA d : t[d].slot > 0) # <<>>

Subclasses(t, c) == {d \in C : d # c /\ t[d].def /\ c \in Reach(t, d, {})}
Features(c, sups, slot) ==
  (IF cls[c].def THEN {"redefinition"} ELSE {})
  \cup (IF cls[c].def /\ Subclasses(cls, c) # {} THEN {"redefinition-with-subclasses"} ELSE {})

Init == cls = [c \in C |-> Undef] /\ hist = <<>> /\ feat = {}
DefClass(c, sups, slot) ==
  LET t2 == [cls EXCEPT ![c] = [def |-> TRUE, supers |-> sups, slot |-> slot]] IN
  /\ c \notin Rng(sups) /\ NoDup(sups) /\ Acyclic(t2) /\ t2 # cls
  \* a redefinition that introduces a not-yet-defined superclass is outside the statement
  /\ cls[c].def => \A i \in 1..Len(sups) : cls[sups[i]].def
  /\ cls' = t2
  /\ hist' = Append(hist, [c |-> c, supers |-> sups, slot |-> slot])
  /\ feat' = feat \cup Features(c, sups, slot)
Next == /\ Len(hist) < MaxOps
        /\ \E c \in C, sups \in SeqsUpTo(C, 2), slot \in 0..2 : DefClass(c, sups, slot)
Expect == [c \in {d \in C : cls[d].def} |->
             IF Ready(cls, c)
             THEN [ready |-> TRUE, prec |-> Prec(cls, c), slot |-> SlotOf(cls, c), hasslot |-> HasSlot(cls, c)]
             ELSE [ready |-> FALSE, prec |-> <<>>, slot |-> "notready", hasslot |-> FALSE]]
Emit == PrintT(ToJson([hist |-> hist', expect |-> Expect', feat |-> feat']))
View == cls
PrecOK == \A c \in C : (cls[c].def /\ Ready(cls, c)) => /\ Prec(cls, c)[1] = c /\ NoDup(Prec(cls, c))
                                                        /\ Rng(cls[c].supers) \subseteq Rng(Prec(cls, c))
=============================================================================
