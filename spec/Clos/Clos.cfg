CONSTANTS
 NC = 3
 MaxOps = 4
 MaxSupers = 2
 Thin = 1
 WithMeth = TRUE
 EmitFrom = 0
INIT Init
NEXT Next
VIEW View
INVARIANT PrecOK
INVARIANT IsaOK
ACTION_CONSTRAINT Emit
CHECK_DEADLOCK FALSE
