CONSTANTS
 C = {"ca", "cb", "cc"}
 MaxOps = 4
INIT Init
NEXT Next
VIEW View
INVARIANT PrecOK
ACTION_CONSTRAINT Emit
CHECK_DEADLOCK FALSE
