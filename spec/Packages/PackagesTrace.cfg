CONSTANTS
 P = {"pa", "pb", "pc"}
 N = {"n1", "n2"}
 P0 = "pa"
 TraceFile = "traces.ndjson"
INIT TInit
NEXT TNext
INVARIANT Done
CHECK_DEADLOCK FALSE
