CONSTANTS
 P = {"pa", "pb", "pc"}
 N = {"n1", "n2"}
 P0 = "pa"
 MaxDepth = 5
INIT IInit
NEXT INext
VIEW View
ACTION_CONSTRAINT Emit
CHECK_DEADLOCK FALSE
