CONSTANTS
 P = {"pa", "pb", "pc"}
 N = {"n1", "n2"}
 P0 = "pa"
 AllowAmb = FALSE
 MaxDepth = 5
INIT GInit
NEXT RNext
VIEW RView
INVARIANT Inv
ACTION_CONSTRAINT EmitR
CHECK_DEADLOCK FALSE
