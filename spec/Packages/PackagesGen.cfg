CONSTANTS
 P = {"pa", "pb", "pc"}
 N = {"n1", "n2"}
 P0 = "pa"
 MaxDepth = 4
INIT GInit
NEXT GNext
VIEW View
INVARIANT Inv
ACTION_CONSTRAINT Emit
CHECK_DEADLOCK FALSE
