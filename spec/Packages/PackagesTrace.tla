---------------------------- MODULE PackagesTrace ----------------------------
(* Acceptor: replays recorded histories through Packages!Step keeping the set *)
(* of candidate reference states, and checks every logged observation against *)
(* ObsOK / QObsOK.  Total and deterministic: a rejection is recorded in `bad`  *)
(* (first one per trace) and the acceptor moves on.                            *)
EXTENDS Packages, Json
CONSTANT TraceFile
Trace == ndJsonDeserialize(TraceFile)
VARIABLES l, cands, failed, bad, seen, feat
TInit == l = 1 /\ cands = {Start} /\ failed = FALSE /\ bad = <<>> /\ seen = 0 /\ feat = {}
TNext ==
  /\ l <= Len(Trace) /\ l' = l + 1
  /\ LET e  == Trace[l]
         c0 == IF e.i = 0 THEN {Start} ELSE cands
         f0 == IF e.i = 0 THEN FALSE ELSE failed
         o  == [op |-> e.op, a |-> e.a, b |-> e.b, c |-> e.c]
         c1 == UNION {Step(s, o) : s \in c0}
         ft == (IF e.i = 0 THEN {} ELSE feat) \cup UNION {Features(s, o) : s \in c0} \cup UNION {StateFeatures(s) : s \in c1}
         c2 == IF "obs" \in DOMAIN e THEN {s \in c1 : ObsOK(s, e.obs) /\ QObsOK(s, e.qobs)} ELSE c1
     IN /\ feat' = ft
        /\ IF f0 THEN /\ UNCHANGED <<cands, bad, seen>> /\ failed' = TRUE
           ELSE IF c2 = {} THEN /\ failed' = TRUE /\ cands' = c0 /\ seen' = seen
                                /\ bad' = Append(bad, [l |-> l, t |-> e.t, i |-> e.i, feat |-> ft])
           ELSE /\ failed' = FALSE /\ cands' = c2 /\ bad' = bad
                /\ seen' = seen + (IF "obs" \in DOMAIN e THEN 1 ELSE 0)
Done == (l = Len(Trace) + 1) => PrintT("RESULT" \o ToJson([bad |-> bad, checked |-> seen]))
=============================================================================
