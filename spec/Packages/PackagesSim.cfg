CONSTANTS
 P = {"pa", "pb", "pc"}
 N = {"n1", "n2"}
 P0 = "pa"
 AllowAmb = TRUE
 MaxDepth = 10
INIT GInit
NEXT GNext
INVARIANT EmitState
CHECK_DEADLOCK FALSE
