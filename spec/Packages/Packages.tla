------------------------------ MODULE Packages ------------------------------
(***************************************************************************)
(* C13 - package visibility is coherent with the use/export graph.        *)
(*                                                                         *)
(* Reference semantics, written from the statement of the property: in    *)
(* package p a name resolves to p's own definition if it has one,         *)
(* otherwise to the exported definition of a package p uses directly,     *)
(* otherwise it is unbound/undefined.  q:n reaches exported, q::n any     *)
(* definition of q.  The state is the use/export graph and the own        *)
(* definitions; resolution is *recomputed* from it, so no history can     *)
(* leave a stale entry in the reference.                                   *)
(*                                                                         *)
(* The operations are those performed in the current package.  States are *)
(* plain records so that the generator (PackagesGen) and the trace        *)
(* acceptor (PackagesTrace) share one definition, Step(s, op).            *)
(***************************************************************************)
EXTENDS Integers, Sequences, FiniteSets, TLC

CONSTANTS P,      \* package names (strings)
          N,      \* symbol names (strings)
          P0      \* the package every history starts in

Kinds  == {"var", "fn"}
Vals   == {1, 2}
Absent == 0

Start == [uses     |-> [p \in P |-> <<>>],
          own      |-> [p \in P |-> [k \in Kinds |-> [n \in N |-> Absent]]],
          exported |-> [p \in P |-> {}],
          cur      |-> P0]

InSeq(x, s) == \E i \in 1..Len(s) : s[i] = x

\* used packages that own n (kind k) and export it, in use order
Providers(s, p, k, n) == SelectSeq(s.uses[p], LAMBDA q : s.own[q][k][n] # Absent /\ n \in s.exported[q])
\* used packages that export n without owning a definition of kind k (a bare exported symbol)
BareExporters(s, p, k, n) == {q \in P : InSeq(q, s.uses[p]) /\ n \in s.exported[q] /\ s.own[q][k][n] = Absent}

Resolve(s, p, k, n) ==
  IF s.own[p][k][n] # Absent THEN s.own[p][k][n]
  ELSE LET pr == Providers(s, p, k, n) IN IF pr = <<>> THEN Absent ELSE s.own[pr[1]][k][n]

Ambiguous(s) == \E p \in P, k \in Kinds, n \in N : s.own[p][k][n] = Absent /\ Len(Providers(s, p, k, n)) > 1

\* Where a definition made in the current package through name n lands: the package's own
\* definition, else the provider's (same symbol), else - when a used package exports the bare
\* name - either that package or the current one (the statement does not say), else the
\* current package.
Landing(s, k, n) ==
  LET c == s.cur IN
  IF s.own[c][k][n] # Absent THEN {c}
  ELSE IF Providers(s, c, k, n) # <<>> THEN {Providers(s, c, k, n)[i] : i \in 1..Len(Providers(s, c, k, n))}   \* any of them when several used packages provide the name
  ELSE {c} \cup BareExporters(s, c, k, n)

\* op: [op, a, b, c]
Enabled(s, o) ==
  LET c == s.cur IN
  CASE o.op = "use"      -> o.a # c /\ ~InSeq(o.a, s.uses[c])
    [] o.op = "unuse"    -> InSeq(o.a, s.uses[c])
    [] o.op = "inpkg"    -> o.a # c
    [] o.op = "export"   -> o.a \notin s.exported[c]
    [] o.op = "unexport" -> o.a \in s.exported[c]
    [] o.op = "def"      -> Resolve(s, c, o.a, o.b) # o.c
    \* (makunbound / fmakunbound of a name that a used package exports without defining it is left out: which
    \*  package an earlier definition through that name landed in is open, see Landing)
    [] o.op = "undef"    -> s.own[c][o.a][o.b] # Absent /\ BareExporters(s, c, o.a, o.b) = {}
    [] OTHER             -> FALSE

\* An operation that asks for what already holds (use-package of a package already used, export of a name already
\* exported, a definition with the value the name already has, unuse-package / unexport of what is not used / exported,
\* in-package of the current package) is allowed and changes nothing: Step maps the state to itself.  The bounded
\* exploration leaves these out by Enabled and takes them in by Redundant (PackagesGen!RNext) so that they can be
\* counted; an implementation that keeps more than the graph (user lists, copied tables) can get them wrong.
Redundant(s, o) ==
  LET c == s.cur IN
  CASE o.op = "use"      -> o.a # c /\ InSeq(o.a, s.uses[c])
    [] o.op = "unuse"    -> o.a # c /\ ~InSeq(o.a, s.uses[c])
    [] o.op = "inpkg"    -> o.a = c
    [] o.op = "export"   -> o.a \in s.exported[c]
    [] o.op = "unexport" -> o.a \notin s.exported[c]
    [] o.op = "def"      -> s.own[c][o.a][o.b] = o.c
    [] OTHER             -> FALSE

\* the set of successor states (more than one only for the bare-exporter case of "def")
Step(s, o) ==
  LET c == s.cur IN
  CASE o.op = "use"      -> {[s EXCEPT !.uses[c] = IF InSeq(o.a, @) THEN @ ELSE Append(@, o.a)]}
    [] o.op = "unuse"    -> {[s EXCEPT !.uses[c] = SelectSeq(@, LAMBDA x : x # o.a)]}
    [] o.op = "inpkg"    -> {[s EXCEPT !.cur = o.a]}
    [] o.op = "export"   -> {[s EXCEPT !.exported[c] = @ \cup {o.a}]}
    [] o.op = "unexport" -> {[s EXCEPT !.exported[c] = @ \ {o.a}]}
    [] o.op = "def"      -> {[s EXCEPT !.own[q][o.a][o.b] = o.c] : q \in Landing(s, o.a, o.b)}
    [] o.op = "undef"    -> {[s EXCEPT !.own[c][o.a][o.b] = Absent]}

(***************************************************************************)
(* What an observer must see.  A cell is *constrained* only where the      *)
(* statement determines it.                                                *)
(***************************************************************************)
\* something reaches p through a used package's own inheritance (slip copies at use time;
\* Common Lisp does not inherit transitively): left open
Transitive(s, p, k, n) == /\ Resolve(s, p, k, n) = Absent
                          /\ \E q \in P : /\ InSeq(q, s.uses[p]) /\ s.own[q][k][n] = Absent
                                           /\ Resolve(s, q, k, n) # Absent
\* (when several used packages export a definition of the name - a name conflict in Common Lisp - the statement does not
\*  say which one is seen: any of them is accepted; as soon as one provider is left it is that one)
ObsOK(s, obs) ==      \* obs[p][k][n] : value seen from inside p (0 = unbound/undefined)
  \A p \in P, k \in Kinds, n \in N :
     \/ Transitive(s, p, k, n) \/ obs[p][k][n] = Resolve(s, p, k, n)
     \/ /\ s.own[p][k][n] = Absent /\ Len(Providers(s, p, k, n)) > 1
        /\ \E i \in 1..Len(Providers(s, p, k, n)) : obs[p][k][n] = s.own[Providers(s, p, k, n)[i]][k][n]
QObsOK(s, q) ==       \* q[p][k][n] = [ext |-> p:n, int |-> p::n] seen from a neutral package
  \A p \in P, k \in Kinds, n \in N :
     IF s.own[p][k][n] # Absent
     THEN /\ q[p][k][n].int = s.own[p][k][n]
          /\ q[p][k][n].ext = (IF n \in s.exported[p] THEN s.own[p][k][n] ELSE Absent)
     ELSE \/ Resolve(s, p, k, n) # Absent \/ Transitive(s, p, k, n)       \* inherited: open
          \/ (q[p][k][n].int = Absent /\ q[p][k][n].ext = Absent)


(***************************************************************************)
(* Feature tags.  A tag is raised by the step at which a construct with a  *)
(* known defect of the implementation is exercised; the tags of a history  *)
(* are the union over its steps.  They are evaluated on the reference      *)
(* state, here and nowhere else, for generated and for recorded histories. *)
(***************************************************************************)
Users(s, q) == {u \in P : InSeq(q, s.uses[u])}
Features(s, o) ==
  LET c == s.cur IN
  (IF o.op = "unuse" /\ \E k \in Kinds, n \in N : s.own[c][k][n] # Absent
   THEN {"unuse-after-own-def"} ELSE {})
  \cup
  (IF o.op = "use" /\ \E k \in Kinds, n \in N : s.own[c][k][n] # Absent /\ n \in s.exported[o.a]
   THEN {"use-over-own-def"} ELSE {})
  \cup
  (IF o.op = "def" /\ o.b \in s.exported[c]
      /\ \E k2 \in Kinds : k2 # o.a /\ s.own[c][k2][o.b] # Absent
   THEN {"export-covers-one-kind"} ELSE {})
  \cup
  (IF o.op = "def" /\ o.a = "fn" /\ s.own[c]["fn"][o.b] = Absent
      /\ o.b \in s.exported[c] /\ Users(s, c) # {}
   THEN {"defun-after-export-with-user"} ELSE {})
  \cup
  (IF o.op = "def" /\ o.a = "var" /\ s.own[c]["var"][o.b] # Absent
      /\ o.b \notin s.exported[c] /\ Users(s, c) # {}
   THEN {"reset-unexported-with-user"} ELSE {})
  \cup
  (IF o.op = "def" /\ o.a = "fn" /\ s.own[c]["fn"][o.b] = Absent /\ s.own[c]["var"][o.b] = Absent
      /\ \E q \in P : InSeq(q, s.uses[c]) /\ o.b \in s.exported[q] /\ s.own[q]["var"][o.b] = Absent
   THEN {"defun-over-inherited-bare-export"} ELSE {})
  \cup
  \* setq of a name the package does not own while a used package exports that name without a value: slip sets the
  \* exporter's variable (as Common Lisp would: it is the exporter's symbol), the statement's reading makes it the
  \* setting package's own (finding C13-F9)
  (IF o.op = "def" /\ o.a = "var" /\ s.own[c]["var"][o.b] = Absent
      /\ \E q \in P : InSeq(q, s.uses[c]) /\ o.b \in s.exported[q] /\ s.own[q]["var"][o.b] = Absent
   THEN {"setq-over-inherited-bare-export"} ELSE {})

\* tags raised by a state (evaluated on the successor states of a step)
\* "use-chain": a package uses a package that itself uses a third one.  slip hands the user, at the time of the
\* use-package, also what the used package had inherited by then (finding C13-F8); the reference resolves through the
\* packages used directly only.
StateFeatures(s) ==
  (IF \E p \in P, k \in Kinds, n \in N : n \in s.exported[p] /\ s.own[p][k][n] = Absent /\ Providers(s, p, k, n) # <<>>
   THEN {"bare-export-shadows-inherited"} ELSE {})
  \cup (IF \E p \in P : \E i \in 1..Len(s.uses[p]) : s.uses[s.uses[p][i]] # <<>> THEN {"use-chain"} ELSE {})
  \* a package uses one package that exports the bare name and another one that exports a definition of it: the placeholder the
  \* first hands to its users keeps the definition of the second out (finding C13-F10, the root of C13-F7 seen from a user)
  \cup (IF \E p \in P, k \in Kinds, n \in N : s.own[p][k][n] = Absent /\ Providers(s, p, k, n) # <<>> /\ BareExporters(s, p, k, n) # {}
        THEN {"bare-export-of-used-package-shadows-provider"} ELSE {})

(***************************************************************************)
(* Properties of the reference itself, checked by TLC in PackagesGen.      *)
(***************************************************************************)
TypeOK(s) == /\ s.cur \in P
             /\ \A p \in P : \A i \in 1..Len(s.uses[p]) : s.uses[p][i] \in P \ {p}
OwnWins(s) == \A p \in P, k \in Kinds, n \in N : s.own[p][k][n] # Absent => Resolve(s, p, k, n) = s.own[p][k][n]
NothingFromNowhere(s) ==
  \A p \in P, k \in Kinds, n \in N :
     Resolve(s, p, k, n) # Absent =>
        \/ s.own[p][k][n] # Absent
        \/ \E q \in P : InSeq(q, s.uses[p]) /\ n \in s.exported[q] /\ s.own[q][k][n] = Resolve(s, p, k, n)
=============================================================================
