---------------------------- MODULE PackagesImpl ----------------------------
(***************************************************************************)
(* Implementation-shaped twin of Packages, as package.go keeps it: every   *)
(* package has denormalised tables holding its own *and* inherited entries *)
(* (shared records with an owner and an export flag); Use copies, Unuse    *)
(* rebuilds, Export/Unexport/Set/DefLambda/Remove push or retract copies.  *)
(* It runs in lockstep with the reference (same enabledness, same ops), so *)
(* a VIEW on <<reference state, tables>> tells apart histories that reach  *)
(* the same reference state with different residue in the tables - which   *)
(* is where the defects of this design live.  The twin never judges.       *)
(***************************************************************************)
EXTENDS Packages, Json
CONSTANT MaxDepth
VARIABLES st, hist, feat,
          ent,     \* sequence of entries [owner, kind, name, val, exp]; val 0 = the unbound marker
          tabs     \* set of <<p, k, n, e>>: slot (p,k,n) of the tables holds entry e (index into ent)
None == 0
Slot(tb, p, k, n) == IF \E t \in tb : t[1] = p /\ t[2] = k /\ t[3] = n
                    THEN (CHOOSE t \in tb : t[1] = p /\ t[2] = k /\ t[3] = n)[4] ELSE None
ToSet(f) == {<<p, k, n, f[p][k][n]>> : p \in P, k \in Kinds, n \in N} \ {<<p, k, n, None>> : p \in P, k \in Kinds, n \in N}
tab == [p \in P |-> [k \in Kinds |-> [n \in N |-> Slot(tabs, p, k, n)]]]
Op(name, a, b, c) == [op |-> name, a |-> a, b |-> b, c |-> c]
Ops == {Op("use", q, "", 0) : q \in P} \cup {Op("unuse", q, "", 0) : q \in P} \cup {Op("inpkg", q, "", 0) : q \in P}
       \cup {Op("export", n, "", 0) : n \in N} \cup {Op("unexport", n, "", 0) : n \in N}
       \cup {Op("def", k, n, v) : k \in Kinds, n \in N, v \in Vals}
       \cup {Op("undef", k, n, 0) : k \in Kinds, n \in N}
EmptyTab == [p \in P |-> [k \in Kinds |-> [n \in N |-> None]]]
UsersOf(s, q) == {u \in P : InSeq(q, s.uses[u])}

\* ---- table updates, each returning <<ent', tab'>> -----------------------------------------
IUse(s, q) ==
  LET c == s.cur IN
  <<ent, [tab EXCEPT ![c] = [k \in Kinds |-> [n \in N |->
            LET e == tab[q][k][n] IN IF e # None /\ ent[e].exp THEN e ELSE tab[c][k][n]]]]>>
RECURSIVE Rebuild(_, _)
Rebuild(ps, acc) == IF ps = <<>> THEN acc
                    ELSE Rebuild(Tail(ps), [k \in Kinds |-> [n \in N |->
                           IF tab[ps[1]][k][n] # None THEN tab[ps[1]][k][n] ELSE acc[k][n]]])
IUnuse(s, q) ==
  LET c == s.cur
      rest == SelectSeq(s.uses[c], LAMBDA x : x # q)
      empty == [k \in Kinds |-> [n \in N |-> None]]
      t2 == [tab EXCEPT ![c] = Rebuild(rest, empty)]
  IN <<ent, t2>>
IExport(s, n) ==
  LET c == s.cur
      ef == tab[c]["fn"][n]
      ev == tab[c]["var"][n]
      newIdx == Len(ent) + 1
      ent1 == [i \in 1..Len(ent) |-> IF i = ef \/ i = ev THEN [ent[i] EXCEPT !.exp = TRUE] ELSE ent[i]]
      ent2 == IF ev = None THEN Append(ent1, [owner |-> "", kind |-> "var", name |-> n, val |-> 0, exp |-> TRUE]) ELSE ent1
      push(t, k, e) == [p \in P |-> IF p \in UsersOf(s, c) /\ t[p][k][n] = None /\ e # None
                                   THEN [t[p] EXCEPT ![k][n] = e] ELSE t[p]]
      t1 == push(tab, "fn", ef)
      t2 == push(t1, "var", ev)
      t3 == IF ev = None THEN [t2 EXCEPT ![c]["var"][n] = newIdx] ELSE t2
  IN <<ent2, t3>>
IUnexport(s, n) ==
  LET c == s.cur
      ef == tab[c]["fn"][n]
      ev == tab[c]["var"][n]
      ent1 == [i \in 1..Len(ent) |-> IF i = ef \/ i = ev THEN [ent[i] EXCEPT !.exp = FALSE] ELSE ent[i]]
      retract(t, k, present) == [p \in P |-> IF present /\ p \in UsersOf(s, c) /\ t[p][k][n] # None /\ ent[t[p][k][n]].owner = c
                                          THEN [t[p] EXCEPT ![k][n] = None] ELSE t[p]]
  IN <<ent1, retract(retract(tab, "fn", ef # None), "var", ev # None)>>
IDefVar(s, n, v) ==
  LET c == s.cur  e == tab[c]["var"][n] IN
  IF e # None
  THEN <<[ent EXCEPT ![e].val = v],
         [p \in P |-> IF p \in UsersOf(s, c) /\ tab[p]["var"][n] = None THEN [tab[p] EXCEPT !["var"][n] = e] ELSE tab[p]]>>
  ELSE <<Append(ent, [owner |-> c, kind |-> "var", name |-> n, val |-> v, exp |-> FALSE]),
         [tab EXCEPT ![c]["var"][n] = Len(ent) + 1]>>
IDefFn(s, n, v) ==
  LET c == s.cur  e == tab[c]["fn"][n]  ve == tab[c]["var"][n] IN
  IF e # None
  THEN <<[ent EXCEPT ![e].val = v, ![e].owner = c], tab>>
  ELSE LET handshake == ve # None /\ ent[ve].val = 0 /\ ent[ve].exp IN
       <<Append(ent, [owner |-> c, kind |-> "fn", name |-> n, val |-> v, exp |-> handshake]),
         [tab EXCEPT ![c]["fn"][n] = Len(ent) + 1, ![c]["var"][n] = IF handshake THEN None ELSE ve]>>
IMakunbound(s, n) ==
  LET c == s.cur  e == tab[c]["var"][n] IN
  IF e = None THEN <<ent, tab>>
  ELSE <<ent, [p \in P |-> IF p = c THEN [tab[p] EXCEPT !["var"][n] = None]
                           ELSE IF p \in UsersOf(s, c) /\ tab[p]["var"][n] # None /\ ent[tab[p]["var"][n]].owner = c
                                THEN [tab[p] EXCEPT !["var"][n] = None] ELSE tab[p]]>>
IFmakunbound(s, n) == <<ent, [tab EXCEPT ![s.cur]["fn"][n] = None]>>

IStep(s, o) ==
  CASE o.op = "use"      -> IUse(s, o.a)
    [] o.op = "unuse"    -> IUnuse(s, o.a)
    [] o.op = "export"   -> IExport(s, o.a)
    [] o.op = "unexport" -> IUnexport(s, o.a)
    [] o.op = "def"      -> IF o.a = "var" THEN IDefVar(s, o.b, o.c) ELSE IDefFn(s, o.b, o.c)
    [] o.op = "undef"    -> IF o.a = "var" THEN IMakunbound(s, o.b) ELSE IFmakunbound(s, o.b)
    [] OTHER             -> <<ent, tab>>

\* what the implementation shows from inside p
ILookup(p, k, n) == LET e == tab[p][k][n] IN
  IF e = None THEN Absent
  ELSE IF k = "var" THEN ent[e].val
  ELSE IF ent[e].exp \/ ent[e].owner = p THEN ent[e].val ELSE Absent

IInit == st = Start /\ hist = <<>> /\ feat = {} /\ ent = <<>> /\ tabs = {}
INext == /\ Len(hist) < MaxDepth
         /\ \E o \in Ops : /\ Enabled(st, o)
                           /\ st' \in Step(st, o)
                           /\ ~Ambiguous(st')
                           /\ LET r == IStep(st, o) IN ent' = SubSeq(r[1], 1, Len(r[1])) /\ tabs' = ToSet(r[2])
                           /\ hist' = Append(hist, o)
                           /\ feat' = feat \cup Features(st, o) \cup StateFeatures(st')
Emit == PrintT(ToJson([ops |-> hist', feat |-> feat']))
\* the residue that matters: which entry each table slot shares, its owner and flag (not its index)
Shape == [p \in P |-> [k \in Kinds |-> [n \in N |->
           LET e == tab[p][k][n] IN IF e = None THEN <<>> ELSE <<ent[e].owner, ent[e].exp, ent[e].val,
                {q \in P : tab[q][k][n] = e}>>]]]
View == <<st, Shape>>
\* the design check (expected to fail on this design): the tables show what the graph says
Refines == \A p \in P, k \in Kinds, n \in N : Transitive(st, p, k, n) \/ ILookup(p, k, n) = Resolve(st, p, k, n)
=============================================================================
