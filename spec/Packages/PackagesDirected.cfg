CONSTANTS
 P = {"pa", "pb", "pc"}
 N = {"n1", "n2"}
 P0 = "pa"
 AllowAmb = TRUE
 MaxDepth = 12
INIT DInit
NEXT DNext
INVARIANT EmitDirected
CHECK_DEADLOCK FALSE
