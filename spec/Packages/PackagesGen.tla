----------------------------- MODULE PackagesGen -----------------------------
(* Bounded-exhaustive exploration of Packages: design invariants, and one    *)
(* stimulus (history) per transition of the state graph.                     *)
EXTENDS Packages, Json
CONSTANT MaxDepth
VARIABLES st, hist, feat
Op(name, a, b, c) == [op |-> name, a |-> a, b |-> b, c |-> c]
Ops == {Op("use", q, "", 0) : q \in P} \cup {Op("unuse", q, "", 0) : q \in P} \cup {Op("inpkg", q, "", 0) : q \in P}
       \cup {Op("export", n, "", 0) : n \in N} \cup {Op("unexport", n, "", 0) : n \in N}
       \cup {Op("def", k, n, v) : k \in Kinds, n \in N, v \in Vals}
       \cup {Op("undef", k, n, 0) : k \in Kinds, n \in N}
GInit == st = Start /\ hist = <<>> /\ feat = {}
GNext == /\ Len(hist) < MaxDepth
         /\ \E o \in Ops : /\ Enabled(st, o)
                           /\ st' \in Step(st, o)
                           /\ ~Ambiguous(st')
                           /\ hist' = Append(hist, o)
                           /\ feat' = feat \cup Features(st, o) \cup StateFeatures(st')
Emit == PrintT(ToJson([ops |-> hist', feat |-> feat']))
View == st
Inv == TypeOK(st) /\ OwnWins(st) /\ NothingFromNowhere(st)
=============================================================================
