----------------------------- MODULE PackagesGen -----------------------------
(* Bounded-exhaustive exploration of Packages: design invariants, and one    *)
(* stimulus (history) per transition of the state graph.                     *)
EXTENDS Packages, Json
CONSTANTS MaxDepth,
          AllowAmb      \* TRUE: histories may pass through states in which two used packages provide the same name
VARIABLES st, hist, feat,
          rep           \* the redundant operations (Packages!Redundant) in hist, as a set
Op(name, a, b, c) == [op |-> name, a |-> a, b |-> b, c |-> c]
Ops == {Op("use", q, "", 0) : q \in P} \cup {Op("unuse", q, "", 0) : q \in P} \cup {Op("inpkg", q, "", 0) : q \in P}
       \cup {Op("export", n, "", 0) : n \in N} \cup {Op("unexport", n, "", 0) : n \in N}
       \cup {Op("def", k, n, v) : k \in Kinds, n \in N, v \in Vals}
       \cup {Op("undef", k, n, 0) : k \in Kinds, n \in N}
GInit == st = Start /\ hist = <<>> /\ feat = {} /\ rep = {}
GNext == /\ Len(hist) < MaxDepth
         /\ \E o \in Ops : /\ Enabled(st, o)
                           /\ st' \in Step(st, o)
                           /\ (AllowAmb \/ ~Ambiguous(st'))
                           /\ hist' = Append(hist, o)
                           /\ feat' = feat \cup Features(st, o) \cup StateFeatures(st')
         /\ UNCHANGED rep
\* the same exploration with at most MaxRep operations that ask for what already holds; the ghost (which operations they
\* were) is part of the view so that the histories continue after such an operation, although the reference state is the
\* one before it, and so that every such operation is followed by every continuation
MaxRep == 1
RNext == \/ GNext
         \/ /\ Len(hist) < MaxDepth /\ Cardinality(rep) < MaxRep
            /\ \E o \in Ops : /\ Redundant(st, o) /\ st' \in Step(st, o)
                              /\ hist' = Append(hist, o) /\ rep' = rep \cup {o}
                              /\ feat' = feat \cup Features(st, o) \cup StateFeatures(st')
\* only histories that contain such an operation are emitted by this exploration (the others are PackagesGen.cfg's)
EmitR == rep' = {} \/ PrintT(ToJson([ops |-> hist', feat |-> feat']))
RView == <<st, rep>>
Emit == PrintT(ToJson([ops |-> hist', feat |-> feat']))
\* directed histories: two used packages provide the same name, then one of them stops providing it (unuse, unexport,
\* undefine) or changes it - the name must fall back to / stay with the other provider
Setup(q, k, n, v) == <<Op("inpkg", q, "", 0), Op("def", k, n, v), Op("export", n, "", 0)>>
In(q, ops) == <<Op("inpkg", q, "", 0)>> \o ops \o <<Op("inpkg", P0, "", 0)>>
Changes(q1, q2, k, n) ==
  {<<Op("unuse", q1, "", 0)>>, <<Op("unuse", q2, "", 0)>>, <<Op("unuse", q1, "", 0), Op("use", q1, "", 0)>>,
   In(q1, <<Op("unexport", n, "", 0)>>), In(q2, <<Op("unexport", n, "", 0)>>),
   In(q1, <<Op("undef", k, n, 0)>>), In(q2, <<Op("def", k, n, 1)>>),
   <<Op("unuse", q1, "", 0), Op("unuse", q2, "", 0)>>}
ConflictHistories ==
  LET Q == P \ {P0} IN
  UNION {IF q1 # q2 /\ x # y /\ {x, y} = {q1, q2}
         THEN {Setup(q1, k, n, 1) \o Setup(q2, k, n, 2) \o <<Op("inpkg", P0, "", 0), Op("use", x, "", 0), Op("use", y, "", 0)>> \o ch :
                 ch \in Changes(q1, q2, k, n)}
         ELSE {} : q1 \in Q, q2 \in Q, k \in Kinds, n \in N, x \in Q, y \in Q}
DInit == st = Start /\ feat = {} /\ rep = {} /\ hist \in ConflictHistories
DNext == UNCHANGED <<st, hist, feat, rep>>
EmitDirected == PrintT(ToJson([ops |-> hist, feat |-> feat]))
\* simulation mode (long random histories through the same GNext): the state at the end of a walk is printed
EmitState == Len(hist) < MaxDepth \/ PrintT(ToJson([ops |-> hist, feat |-> feat]))
View == st
Inv == TypeOK(st) /\ OwnWins(st) /\ NothingFromNowhere(st)
=============================================================================
