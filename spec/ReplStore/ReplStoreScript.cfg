CONSTANTS
 Limit = 20
 Limits = {10}
 MaxOps = 60
 TornRemoved = TRUE
 EmitFrom = 0
INIT Init
NEXT NextScript
INVARIANT EmitScript
INVARIANT IdleFileIsRef
CHECK_DEADLOCK FALSE
