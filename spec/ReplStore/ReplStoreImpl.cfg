CONSTANTS
 Limit = 2
 MaxOps = 5
INIT Init
NEXT Next
INVARIANTS IdleFileIsRef CrashConsistent NoDuplicates
CHECK_DEADLOCK FALSE
