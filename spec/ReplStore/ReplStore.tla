------------------------------ MODULE ReplStore ------------------------------
(***************************************************************************)
(* C20 - REPL history persists intact across restarts and crashes.         *)
(*                                                                         *)
(* Two layers in one module.                                               *)
(* Reference (variables ref, refPrev): the history an uninterrupted        *)
(* session holds - the forms entered, cut back to Limit whenever it        *)
(* reaches Limit + 10 %, minus what was cleared.                           *)
(* Implementation-shaped (variables mem, file, torn, tmp, pc): what        *)
(* pkg/repl keeps - forms in memory, a history file of one line per form,  *)
(* a temporary file written and renamed over it on compaction - with every *)
(* file-system step of Add and Clear a separate action, so that the        *)
(* process can die (Crash) between any two of them, or in the middle of a  *)
(* write (a torn, unterminated last line).  After a crash the next session *)
(* loads what the files hold.                                              *)
(* TLC checks on this model: a restart without a crash loads exactly the   *)
(* reference; a crash at any point loads a prefix or suffix of the         *)
(* reference before or after the interrupted operation, never a duplicate  *)
(* or a line that was not entered.  The same behaviours, printed through   *)
(* `hist`, are the stimuli replayed into the real History object with the  *)
(* crash hooks of the verif build.                                         *)
(***************************************************************************)
EXTENDS Integers, Sequences, TLC, FiniteSets, Json
CONSTANTS Limit,        \* the limit the first session starts with
          Limits,       \* the values the user may set the limit to later ((setq *repl-history-limit* n): History.SetLimit)
          MaxOps, EmitFrom,
          TornRemoved   \* Load removes an unterminated fragment from the end of the file
None == <<-1>>
VARIABLES mem,      \* in-memory forms of the running process
          file,     \* complete lines of the history file
          torn,     \* TRUE when the file ends in an unterminated fragment (a write that was cut short)
          tmp,      \* lines of history.tmp, or None
          ref,      \* reference: what an uninterrupted session would hold
          refPrev,  \* reference before the operation in progress
          pc,       \* [op |-> "idle"] or [op, step, todo]
          limit,    \* the configured limit (a saved setting: it survives restarts and crashes)
          nextForm, crashed, hist
vars == <<mem, file, torn, tmp, ref, refPrev, pc, limit, nextForm, crashed, hist>>
Max == limit + (limit \div 10)

Init == /\ mem = <<>> /\ file = <<>> /\ torn = FALSE /\ tmp = None /\ ref = <<>> /\ refPrev = <<>>
        /\ pc = [op |-> "idle"] /\ limit = Limit /\ nextForm = 1 /\ crashed = FALSE /\ hist = <<>>

LastN(s, n) == IF Len(s) <= n THEN s ELSE SubSeq(s, Len(s) - n + 1, Len(s))
RefAdd(r, f) == LET r2 == Append(r, f) IN IF Max <= Len(r2) THEN LastN(r2, limit) ELSE r2
H(rec) == Append(hist, rec)
Idle == pc.op = "idle" /\ Len(hist) < MaxOps

\* the user enters a fresh form (distinct forms make duplicates and resurrection visible)
StartAdd == /\ Idle
            /\ LET f == nextForm  m2 == Append(mem, f) IN
               /\ nextForm' = nextForm + 1
               /\ refPrev' = ref /\ ref' = RefAdd(ref, f)
               /\ hist' = H([op |-> "add", f |-> f, a |-> 0, b |-> 0])
               /\ IF Max <= Len(m2)
                  THEN /\ mem' = LastN(m2, limit)
                       /\ pc' = [op |-> "compact", step |-> "open", todo |-> LastN(m2, limit), k |-> 0]
                  ELSE /\ mem' = m2
                       /\ pc' = [op |-> "append", step |-> "open", todo |-> <<f>>, k |-> 0]
               /\ UNCHANGED <<file, torn, tmp, crashed, limit>>
\* the limit is changed: nothing else happens now (History.SetLimit); what is kept is cut back to the new limit by the next
\* form that is entered once the size has reached the new limit + 10 %, in memory and in the file alike
SetLimit(n) == /\ Idle /\ n # limit /\ limit' = n
               /\ hist' = H([op |-> "limit", f |-> n, a |-> 0, b |-> 0])
               /\ UNCHANGED <<mem, file, torn, tmp, ref, refPrev, pc, nextForm, crashed>>
\* the same form again is not entered a second time
AddSame == /\ Idle /\ mem # <<>>
           /\ hist' = H([op |-> "add", f |-> mem[Len(mem)], a |-> 0, b |-> 0])
           /\ UNCHANGED <<mem, file, torn, tmp, ref, refPrev, pc, nextForm, crashed, limit>>
StepAppend == /\ pc.op = "append"
              /\ \/ /\ pc.step = "open" /\ pc' = [pc EXCEPT !.step = "write"] /\ UNCHANGED <<file, torn>>
                 \/ /\ pc.step = "write"
                    \* O_APPEND: the line lands after whatever the file ends with, also after a torn fragment
                    /\ file' = IF torn THEN Append(file, -pc.todo[1]) ELSE file \o pc.todo
                    /\ torn' = FALSE
                    /\ pc' = [op |-> "idle"]
              /\ UNCHANGED <<mem, tmp, ref, refPrev, nextForm, crashed, hist, limit>>
StepCompact == /\ pc.op = "compact"
               /\ \/ /\ pc.step = "open"         \* O_TRUNC|O_CREATE: a leftover tmp is emptied
                     /\ tmp' = <<>>
                     /\ pc' = [pc EXCEPT !.step = "write"] /\ UNCHANGED <<file, torn>>
                  \/ /\ pc.step = "write" /\ pc.todo # <<>>
                     /\ tmp' = Append(tmp, Head(pc.todo))
                     /\ pc' = [pc EXCEPT !.todo = Tail(pc.todo), !.k = pc.k + 1] /\ UNCHANGED <<file, torn>>
                  \/ /\ pc.step = "write" /\ pc.todo = <<>>
                     /\ pc' = [pc EXCEPT !.step = "rename"] /\ UNCHANGED <<file, torn, tmp>>
                  \/ /\ pc.step = "rename"
                     /\ file' = tmp /\ torn' = FALSE /\ tmp' = None /\ pc' = [op |-> "idle"]
               /\ UNCHANGED <<mem, ref, refPrev, nextForm, crashed, hist, limit>>
\* (clear-history a b): the entries a..b, counted from the most recent one (0 = the newest, as Nth does), are
\* dropped, the file is truncated and rewritten
Without(s, a, b) == LET n == Len(s)  lo == n - b  hi == n - a IN     \* 1-based positions lo..hi are removed
                    SubSeq(s, 1, lo - 1) \o SubSeq(s, hi + 1, n)
Clear(a, b) == /\ Idle /\ a <= b /\ b < Len(mem)
               /\ LET keep == Without(mem, a, b) IN
                  /\ mem' = keep /\ refPrev' = ref /\ ref' = Without(ref, a, b)
                  /\ pc' = [op |-> "clear", step |-> "open", todo |-> keep, k |-> 0]
               /\ hist' = H([op |-> "clear", f |-> 0, a |-> a, b |-> b])
               /\ UNCHANGED <<file, torn, tmp, nextForm, crashed, limit>>
StepClear == /\ pc.op = "clear"
             /\ \/ /\ pc.step = "open" /\ file' = <<>> /\ torn' = FALSE /\ pc' = [pc EXCEPT !.step = "write"]   \* O_TRUNC
                \/ /\ pc.step = "write" /\ pc.todo # <<>>
                   /\ file' = Append(file, Head(pc.todo)) /\ pc' = [pc EXCEPT !.todo = Tail(pc.todo), !.k = pc.k + 1] /\ UNCHANGED torn
                \/ /\ pc.step = "write" /\ pc.todo = <<>> /\ pc' = [op |-> "idle"] /\ UNCHANGED <<file, torn>>
             /\ UNCHANGED <<mem, tmp, ref, refPrev, nextForm, crashed, hist, limit>>
\* what the next session loads: the complete lines (an unterminated fragment is not a line)
Loaded == file
\* the process dies before the pending file-system step; with tornWrite in the middle of a pending write
Crash(tornWrite) ==
    /\ pc.op # "idle"
    /\ pc.step = "write" => pc.todo # <<>>      \* "write" with nothing left to write is not a file-system step (the next one is)
    /\ tornWrite => pc.step = "write"
    \* a fragment in the tmp file is harmless (the next compaction truncates it); a fragment at the end of the
    \* history file is removed by the next session's Load (TornRemoved; with it FALSE the fragment stays and the
    \* next appended line is glued to it - the defect the model first exposed)
    /\ IF tornWrite /\ pc.op # "compact" THEN torn' = ~TornRemoved ELSE UNCHANGED torn
    /\ UNCHANGED <<file, tmp>>
    /\ mem' = Loaded /\ pc' = [op |-> "idle"] /\ crashed' = TRUE
    /\ ref' = Loaded          \* the reference continues from what was loaded
    /\ hist' = H([op |-> "crash", f |-> IF tornWrite THEN 1 ELSE 0, a |-> 0, b |-> 0] @@ [point |-> pc.op \o "." \o pc.step, nth |-> IF pc.step = "write" THEN pc.k + 1 ELSE 1])      \* which occurrence of that step in the operation
    /\ UNCHANGED <<refPrev, nextForm, limit>>
Restart == /\ Idle /\ mem' = Loaded /\ hist' = H([op |-> "restart", f |-> 0, a |-> 0, b |-> 0])
           /\ UNCHANGED <<file, torn, tmp, ref, refPrev, pc, nextForm, crashed, limit>>
Next == \/ StartAdd \/ AddSame \/ StepAppend \/ StepCompact \/ StepClear \/ Restart
        \/ \E a \in 0..2, b \in 0..2 : Clear(a, b)
        \/ \E t \in BOOLEAN : Crash(t)
        \/ \E n \in Limits : SetLimit(n)
\* ---- directed histories: the limit is lowered below the number of forms held, a few forms are entered, restart --------------
\* (with the 10 % slack of a limit of 10 or more the forms entered next are appended to the file before a compaction is due)
OpsOf(sc) == sc
Scripts == {[i \in 1..k |-> "add"] \o <<"limit">> \o [i \in 1..j |-> "add"] \o <<"restart">> \o [i \in 1..e |-> "add"] \o <<"restart">> :
              k \in (Limit \div 2)..(Limit + 1), j \in 0..3, e \in 0..2}
NextScript == \/ pc.op # "idle" /\ (StepAppend \/ StepCompact \/ StepClear)
              \/ /\ pc.op = "idle"
                 /\ \E sc \in Scripts :
                      /\ Len(hist) < Len(sc) /\ \A i \in 1..Len(hist) : hist[i].op = sc[i]
                      /\ LET o == sc[Len(hist) + 1] IN
                         IF o = "add" THEN StartAdd ELSE IF o = "restart" THEN Restart ELSE \E n \in Limits : SetLimit(n)
EmitScript == pc.op # "idle" \/ hist = <<>> \/ hist[Len(hist)].op # "restart" \/ PrintT(ToJson([hist |-> hist]))
Emit == pc'.op # "idle" \/ Len(hist') < EmitFrom \/ PrintT(ToJson([hist |-> hist']))
EmitState == pc.op # "idle" \/ Len(hist) < EmitFrom \/ PrintT(ToJson([hist |-> hist]))
View == <<mem, file, torn, tmp, pc, crashed, limit>>

IsPrefix(a, b) == Len(a) <= Len(b) /\ SubSeq(b, 1, Len(a)) = a
IsSuffix(a, b) == Len(a) <= Len(b) /\ SubSeq(b, Len(b) - Len(a) + 1, Len(b)) = a
Consistent(x, r) == IsPrefix(x, r) \/ IsSuffix(x, r)
NoDup(s) == \A i, j \in 1..Len(s) : i # j => s[i] # s[j]
\* ---- the property on the model -----------------------------------------------------------------------------
IdleFileIsRef == pc.op = "idle" => Loaded = ref            \* a restart without a crash loads exactly the reference
CrashConsistent == pc.op # "idle" => (Consistent(Loaded, refPrev) \/ Consistent(Loaded, ref))  \* what a crash here loads
NoDuplicates == NoDup(Loaded)
OnlyEntered == \A i \in 1..Len(Loaded) : Loaded[i] > 0    \* a negative line is a fragment glued to the next entry
=============================================================================
