CONSTANTS
 Limit = 10
 Limits = {10, 12, 20}
 MaxOps = 40
 TornRemoved = TRUE
 EmitFrom = 40
INIT Init
NEXT Next
INVARIANT EmitState
CHECK_DEADLOCK FALSE
