---- MODULE ReplStoreImpl ----
EXTENDS Integers, Sequences, TLC, FiniteSets
CONSTANTS Limit, MaxOps
Max == Limit + (Limit \div 10)
None == <<-1>>
VARIABLES mem,      \* in-memory forms of the running process
          file,     \* history file lines
          tmp,      \* history.tmp lines or None
          ref,      \* reference: what an uninterrupted implementation would hold
          refPrev,  \* reference before the operation in progress
          pc,       \* "idle" or [op, step, todo]
          nextForm, nops, crashed
vars == <<mem, file, tmp, ref, refPrev, pc, nextForm, nops, crashed>>

Init == /\ mem = <<>> /\ file = <<>> /\ tmp = None /\ ref = <<>> /\ refPrev = <<>>
        /\ pc = [op |-> "idle"] /\ nextForm = 1 /\ nops = 0 /\ crashed = FALSE

LastN(s, n) == IF Len(s) <= n THEN s ELSE SubSeq(s, Len(s) - n + 1, Len(s))
RefAdd(r, f) == LET r2 == Append(r, f) IN IF Max <= Len(r2) THEN LastN(r2, Limit) ELSE r2

\* user enters a fresh form (distinct forms make duplicates/resurrection visible)
StartAdd == /\ pc.op = "idle" /\ nops < MaxOps
            /\ LET f == nextForm  m2 == Append(mem, f) IN
               /\ nextForm' = nextForm + 1 /\ nops' = nops + 1
               /\ refPrev' = ref /\ ref' = RefAdd(ref, f)
               /\ IF Max <= Len(m2)
                  THEN /\ mem' = LastN(m2, Limit)
                       /\ pc' = [op |-> "compact", step |-> "open", todo |-> LastN(m2, Limit)]
                  ELSE /\ mem' = m2
                       /\ pc' = [op |-> "append", step |-> "open", todo |-> <<f>>]
               /\ UNCHANGED <<file, tmp, crashed>>
StepAppend == /\ pc.op = "append"
              /\ \/ pc.step = "open" /\ pc' = [pc EXCEPT !.step = "write"] /\ UNCHANGED <<file, tmp>>
                 \/ pc.step = "write" /\ file' = file \o pc.todo /\ pc' = [pc EXCEPT !.step = "close"] /\ UNCHANGED tmp
                 \/ pc.step = "close" /\ pc' = [op |-> "idle"] /\ UNCHANGED <<file, tmp>>
              /\ UNCHANGED <<mem, ref, refPrev, nextForm, nops, crashed>>
StepCompact == /\ pc.op = "compact"
               /\ \/ /\ pc.step = "open"         \* O_APPEND|O_CREATE, no truncate: keeps a leftover tmp
                     /\ tmp' = IF tmp = None THEN <<>> ELSE tmp
                     /\ pc' = [pc EXCEPT !.step = "write"] /\ UNCHANGED file
                  \/ /\ pc.step = "write" /\ pc.todo # <<>>
                     /\ tmp' = Append(tmp, Head(pc.todo))
                     /\ pc' = [pc EXCEPT !.todo = Tail(pc.todo)] /\ UNCHANGED file
                  \/ /\ pc.step = "write" /\ pc.todo = <<>>
                     /\ pc' = [pc EXCEPT !.step = "rename"] /\ UNCHANGED <<file, tmp>>
                  \/ /\ pc.step = "rename"
                     /\ file' = tmp /\ tmp' = None /\ pc' = [op |-> "idle"]
               /\ UNCHANGED <<mem, ref, refPrev, nextForm, nops, crashed>>
StartClear == /\ pc.op = "idle" /\ nops < MaxOps /\ mem # <<>>
              /\ nops' = nops + 1 /\ refPrev' = ref /\ ref' = <<>> /\ mem' = <<>>
              /\ pc' = [op |-> "clear", step |-> "trunc"]
              /\ UNCHANGED <<file, tmp, nextForm, crashed>>
StepClear == /\ pc.op = "clear" /\ file' = <<>> /\ pc' = [op |-> "idle"]
             /\ UNCHANGED <<mem, tmp, ref, refPrev, nextForm, nops, crashed>>
\* the process dies between two file-system steps; the next start loads the file
CrashRestart == /\ pc.op # "idle"
                /\ mem' = file /\ pc' = [op |-> "idle"] /\ crashed' = TRUE
                /\ ref' = file     \* from here on the reference continues from what was loaded
                /\ UNCHANGED <<file, tmp, refPrev, nextForm, nops>>
Restart == /\ pc.op = "idle" /\ mem' = file /\ UNCHANGED <<file, tmp, ref, refPrev, pc, nextForm, nops, crashed>>
Next == StartAdd \/ StepAppend \/ StepCompact \/ StartClear \/ StepClear \/ CrashRestart \/ Restart

IsPrefix(a, b) == Len(a) <= Len(b) /\ SubSeq(b, 1, Len(a)) = a
IsSuffix(a, b) == Len(a) <= Len(b) /\ SubSeq(b, Len(b) - Len(a) + 1, Len(b)) = a
Consistent(x, r) == IsPrefix(x, r) \/ IsSuffix(x, r)
NoDup(s) == \A i, j \in 1..Len(s) : i # j => s[i] # s[j]
\* properties
IdleFileIsRef == pc.op = "idle" => file = ref                       \* restart without crash loads exactly the reference
CrashConsistent == pc.op # "idle" => (Consistent(file, refPrev) \/ Consistent(file, ref))  \* what a crash here would load
NoDuplicates == NoDup(file)
====
