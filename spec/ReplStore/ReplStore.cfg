CONSTANTS
 Limit = 2
 Limits = {2, 3}
 MaxOps = 6
 TornRemoved = TRUE
 EmitFrom = 0
INIT Init
NEXT Next
VIEW View
INVARIANT IdleFileIsRef
INVARIANT CrashConsistent
INVARIANT NoDuplicates
INVARIANT OnlyEntered
ACTION_CONSTRAINT Emit
CHECK_DEADLOCK FALSE
