---------------------------- MODULE ReplSettings ----------------------------
(***************************************************************************)
(* C20, settings part - what the REPL remembers between sessions is what   *)
(* the user did: a setting changed in any earlier session is loaded by     *)
(* every later session until it is changed again.                          *)
(* Reference: `saved` maps each tracked variable to the value last set in  *)
(* any session (Default when never set).  A session starts by loading the  *)
(* saved settings; Set(v, x) changes one variable; Restart ends the        *)
(* session and starts a new process.  The observation after every restart *)
(* is the value of every tracked variable.                                 *)
(***************************************************************************)
EXTENDS Integers, Sequences, TLC, FiniteSets, Json
CONSTANTS MaxOps, EmitFrom
Vars == {"margin", "length", "level"}
Vals == {7, 9}
Default == 0
VARIABLES saved, hist
Init == saved = [v \in Vars |-> Default] /\ hist = <<>>
Set(v, x) == /\ saved[v] # x /\ saved' = [saved EXCEPT ![v] = x]
             /\ hist' = Append(hist, [op |-> "set", v |-> v, x |-> x, exp |-> saved'])
Restart == /\ hist # <<>> /\ hist[Len(hist)].op # "restart"
           /\ saved' = saved /\ hist' = Append(hist, [op |-> "restart", v |-> "", x |-> 0, exp |-> saved])
Next == Len(hist) < MaxOps /\ (Restart \/ \E v \in Vars, x \in Vals : Set(v, x))
Emit == Len(hist') < EmitFrom \/ hist'[Len(hist')].op # "restart" \/ PrintT(ToJson([hist |-> hist']))
\* the number of sessions a history spans is part of the state: a setting must survive any number of restarts
Sessions == Cardinality({i \in 1..Len(hist) : hist[i].op = "restart"})
View == <<saved, Sessions, IF hist = <<>> THEN "" ELSE hist[Len(hist)].op>>
\* design check: nothing but Set changes what is saved
Frame == [][\A v \in Vars : saved'[v] # saved[v] => hist'[Len(hist')].op = "set" /\ hist'[Len(hist')].v = v]_<<saved, hist>>
=============================================================================
