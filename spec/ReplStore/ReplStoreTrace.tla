--------------------------- MODULE ReplStoreTrace ---------------------------
(***************************************************************************)
(* C20 - REPL history persists intact across restarts and crashes.         *)
(*                                                                         *)
(* Reference: `ref` is the history an uninterrupted session would hold -   *)
(* the entered forms (empty forms and immediate repetitions are not        *)
(* entered), cut back to `limit` whenever it reaches limit + 10 %.  A form *)
(* is a sequence of lines, a line a sequence of code points.               *)
(*  - after a restart without a crash the loaded history equals `ref`;     *)
(*  - after a crash during an operation the loaded history is a prefix or  *)
(*    a suffix of `ref` before or after that operation (never a torn,      *)
(*    duplicated or resurrected entry); the reference then continues from  *)
(*    what was loaded.                                                     *)
(* Events: add(form), clear(start, end), setlimit(n), crash(during),       *)
(* restart(loaded).                                                        *)
(***************************************************************************)
EXTENDS Integers, Sequences, TLC, Json, FiniteSets
CONSTANT TraceFile
E == ndJsonDeserialize(TraceFile)
VARIABLES l, ref, prev, limit, crashed, bad, failed, seen
Max(lim) == lim + (lim \div 10)
LastN(s, n) == IF Len(s) <= n THEN s ELSE SubSeq(s, Len(s) - n + 1, Len(s))
Blank(form) == \A i \in 1..Len(form) : \A j \in 1..Len(form[i]) : form[i][j] = 32
RefAdd(r, f, lim) == IF lim <= 0 \/ Blank(f) \/ (Len(r) > 0 /\ r[Len(r)] = f) THEN r
                     ELSE LET r2 == Append(r, f) IN IF Max(lim) <= Len(r2) THEN LastN(r2, lim) ELSE r2
RefClear(r, st, en) == LET e2 == IF en < 0 \/ en >= Len(r) THEN Len(r) - 1 ELSE en
                           s2 == IF st < 0 THEN 0 ELSE st
                       IN IF s2 > e2 THEN r ELSE SubSeq(r, 1, s2) \o SubSeq(r, e2 + 2, Len(r))
IsPrefix(a, b) == Len(a) <= Len(b) /\ SubSeq(b, 1, Len(a)) = a
IsSuffix(a, b) == Len(a) <= Len(b) /\ SubSeq(b, Len(b) - Len(a) + 1, Len(b)) = a
Consistent(x, r) == IsPrefix(x, r) \/ IsSuffix(x, r)
Init == /\ l = 1 /\ ref = <<>> /\ prev = <<>> /\ limit = 1000 /\ crashed = FALSE
        /\ bad = <<>> /\ failed = FALSE /\ seen = 0
Next ==
  /\ l <= Len(E) /\ l' = l + 1
  /\ LET e == E[l]
         fresh == e.i = 0
         r0 == IF fresh THEN <<>> ELSE ref
         p0 == IF fresh THEN <<>> ELSE prev
         lim0 == IF fresh THEN 1000 ELSE limit
         c0 == IF fresh THEN FALSE ELSE crashed
         f0 == IF fresh THEN FALSE ELSE failed
     IN IF f0 THEN UNCHANGED <<ref, prev, limit, crashed, bad, seen>> /\ failed' = TRUE
        ELSE CASE e.op = "add"      -> /\ prev' = r0 /\ ref' = RefAdd(r0, e.form, lim0) /\ limit' = lim0
                                       /\ crashed' = e.crashed /\ UNCHANGED <<bad, seen>> /\ failed' = FALSE
               [] e.op = "clear"    -> /\ prev' = r0 /\ ref' = RefClear(r0, e.start, e.end) /\ limit' = lim0
                                       /\ crashed' = e.crashed /\ UNCHANGED <<bad, seen>> /\ failed' = FALSE
               [] e.op = "setlimit" -> /\ limit' = e.n /\ prev' = p0 /\ ref' = r0 /\ crashed' = c0
                                       /\ UNCHANGED <<bad, seen>> /\ failed' = FALSE
               [] e.op = "restart"  ->
                    LET ok == IF c0 THEN Consistent(e.loaded, p0) \/ Consistent(e.loaded, r0) ELSE e.loaded = r0 IN
                    /\ seen' = seen + 1 /\ failed' = ~ok
                    /\ bad' = IF ok THEN bad ELSE Append(bad, [l |-> l, t |-> e.t, i |-> e.i, crashed |-> c0,
                                                               want |-> Len(r0), got |-> Len(e.loaded)])
                    /\ ref' = e.loaded /\ prev' = e.loaded /\ limit' = lim0 /\ crashed' = FALSE
               [] OTHER -> UNCHANGED <<ref, prev, limit, crashed, bad, seen, failed>>
Done == (l = Len(E) + 1) => PrintT("RESULT" \o ToJson([bad |-> bad, checked |-> seen]))
=============================================================================
