--------------------------- MODULE ReplStoreTrace ---------------------------
(***************************************************************************)
(* C20 acceptor: replays the events recorded from the real History object  *)
(* against the reference of the property.                                  *)
(*                                                                         *)
(* Reference: `ref` is the history an uninterrupted session would hold -   *)
(* the entered forms (empty forms and immediate repetitions are not        *)
(* entered), cut back to `limit` whenever it reaches limit + 10 %, minus   *)
(* the cleared ranges.  A form is a sequence of lines, a line a sequence   *)
(* of code points.                                                         *)
(*  - after a restart without a crash the loaded history equals `ref`      *)
(*    exactly, every form intact;                                          *)
(*  - after a crash during an operation the loaded history is a prefix or  *)
(*    a suffix of `ref` before or after that operation (so never a torn,   *)
(*    duplicated or resurrected entry); the reference then continues from  *)
(*    what was loaded.                                                     *)
(* Events: add(form, crashed), clear(a, b, crashed), crash(loaded),        *)
(* restart(loaded).  Only the first rejection of a trace is reported.      *)
(***************************************************************************)
EXTENDS Integers, Sequences, TLC, Json, FiniteSets
CONSTANT TraceFile
E == ndJsonDeserialize(TraceFile)
VARIABLES l, ref, prev, bad, failed, seen
MaxOf(lim) == lim + (lim \div 10)
LastN(s, n) == IF Len(s) <= n THEN s ELSE SubSeq(s, Len(s) - n + 1, Len(s))
Blank(form) == \A i \in 1..Len(form) : \A j \in 1..Len(form[i]) : form[i][j] = 32
RefAdd(r, f, lim) == IF lim <= 0 \/ Blank(f) \/ (Len(r) > 0 /\ r[Len(r)] = f) THEN r
                     ELSE LET r2 == Append(r, f) IN IF MaxOf(lim) <= Len(r2) THEN LastN(r2, lim) ELSE r2
\* the entries a..b counted from the most recent one (0 = newest) are dropped
RefClear(r, a, b) == LET n == Len(r)
                         b2 == IF b < 0 \/ b >= n THEN n - 1 ELSE b
                         a2 == IF a < 0 THEN 0 ELSE a
                     IN IF a2 > b2 THEN r ELSE SubSeq(r, 1, n - b2 - 1) \o SubSeq(r, n - a2 + 1, n)
IsPrefix(a, b) == Len(a) <= Len(b) /\ SubSeq(b, 1, Len(a)) = a
IsSuffix(a, b) == Len(a) <= Len(b) /\ SubSeq(b, Len(b) - Len(a) + 1, Len(b)) = a
Consistent(x, r) == IsPrefix(x, r) \/ IsSuffix(x, r)
Init == l = 1 /\ ref = <<>> /\ prev = <<>> /\ bad = <<>> /\ failed = FALSE /\ seen = 0
Next ==
  /\ l <= Len(E) /\ l' = l + 1
  /\ LET e == E[l]
         fresh == e.i = 0
         r0 == IF fresh THEN <<>> ELSE ref
         p0 == IF fresh THEN <<>> ELSE prev
         f0 == IF fresh THEN FALSE ELSE failed
     IN IF f0 THEN UNCHANGED <<ref, prev, bad, seen>> /\ failed' = TRUE
        ELSE CASE e.op = "add"   -> /\ prev' = r0 /\ ref' = RefAdd(r0, e.form, e.limit)
                                    /\ UNCHANGED <<bad, seen>> /\ failed' = FALSE
               [] e.op = "clear" -> /\ prev' = r0 /\ ref' = RefClear(r0, e.a, e.b)
                                    /\ UNCHANGED <<bad, seen>> /\ failed' = FALSE
               [] e.op \in {"crash", "restart"} ->
                    LET ok == IF e.op = "crash" THEN Consistent(e.loaded, p0) \/ Consistent(e.loaded, r0) ELSE e.loaded = r0 IN
                    /\ seen' = seen + 1 /\ failed' = ~ok
                    /\ bad' = IF ok THEN bad ELSE Append(bad, [l |-> l, t |-> e.t, i |-> e.i, op |-> e.op,
                                                               want |-> Len(r0), got |-> Len(e.loaded)])
                    /\ ref' = e.loaded /\ prev' = e.loaded
               \* "limit" (the new limit is in the events that follow): nothing is loaded or entered; the first event of a trace starts afresh
               [] OTHER -> ref' = r0 /\ prev' = p0 /\ failed' = f0 /\ UNCHANGED <<bad, seen>>
Done == (l = Len(E) + 1) => PrintT("RESULT" \o ToJson([bad |-> bad, checked |-> seen]))
=============================================================================
