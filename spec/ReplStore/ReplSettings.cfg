CONSTANTS
 MaxOps = 7
 EmitFrom = 0
INIT Init
NEXT Next
VIEW View
PROPERTY Frame
ACTION_CONSTRAINT Emit
CHECK_DEADLOCK FALSE
