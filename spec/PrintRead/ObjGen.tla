------------------------------- MODULE ObjGen -------------------------------
(***************************************************************************)
(* Objects built from readable data for C03, as a state graph: a state is  *)
(* one object; the initial states are the leaves, a transition wraps the   *)
(* object of the state into a larger one (list, dotted list, vector,       *)
(* array, quote form) next to other leaves, up to MaxDepth.  TLC emits     *)
(* every distinct object with the part of the printer-variable grid that   *)
(* can influence its text (Grid), the harness prints it under every        *)
(* setting of that grid, reads the text back and the acceptor PrintRead    *)
(* judges the recorded events.                                             *)
(***************************************************************************)
EXTENDS Digits, Json
CONSTANTS Level,      \* 1 quick, 2 thorough
          MaxDepth,   \* nesting depth of the wraps
          Family      \* "leaf" (Init only), "struct" (wraps)

IntO(s, neg) == [k |-> "int", neg |-> neg, ds |-> [i \in 1..Len(s) |-> DigitVal(SubSeq(s, i, i))]]
Ratio(n, d, neg) == [k |-> "ratio", neg |-> neg, n |-> [i \in 1..Len(n) |-> DigitVal(SubSeq(n, i, i))], d |-> [i \in 1..Len(d) |-> DigitVal(SubSeq(d, i, i))]]
Float(fmt, txt) == [k |-> "float", fmt |-> fmt, txt |-> txt]
Str(cps) == [k |-> "str", v |-> cps]
Chr(cp) == [k |-> "chr", v |-> cp]
Sym(name) == [k |-> "sym", v |-> name, kw |-> FALSE]
Kw(name) == [k |-> "sym", v |-> name, kw |-> TRUE]
Nil == [k |-> "nil"]
T == [k |-> "t"]
List(vs) == [k |-> "list", v |-> vs]
Dotted(vs, tail) == [k |-> "dotted", v |-> vs, tail |-> tail]
Vec(vs) == [k |-> "vec", v |-> vs]
Arr(dims, vs) == [k |-> "array", dims |-> dims, v |-> vs]
Hash(kvs) == [k |-> "hash", v |-> kvs]      \* hash tables (C19 load forms; they have no read syntax)

\* code points of a text given as a TLA+ string of plain ASCII
Ascii == " !\"#$%&'()*+,-./0123456789:;<=>?@ABCDEFGHIJKLMNOPQRSTUVWXYZ[\\]^_`abcdefghijklmnopqrstuvwxyz{|}~"
Cp(c) == CHOOSE i \in 1..Len(Ascii) : SubSeq(Ascii, i, i) = c
Cps(s) == [i \in 1..Len(s) |-> Cp(SubSeq(s, i, i)) + 31]

Ints == {IntO("0", FALSE), IntO("7", FALSE), IntO("255", TRUE), IntO("4611686018427387904", FALSE), IntO("9223372036854775807", FALSE),
         IntO("9223372036854775808", FALSE), IntO("9223372036854775808", TRUE), IntO("9223372036854775809", TRUE),
         IntO("1000000000000000000000000000000", FALSE)}
        \cup (IF Level = 1 THEN {} ELSE {IntO("1", TRUE), IntO("35", FALSE), IntO("36", FALSE), IntO("1295", FALSE), IntO("18446744073709551616", FALSE),
                                         IntO("340282366920938463463374607431768211455", TRUE)})
Ratios == {Ratio("1", "3", FALSE), Ratio("22", "7", TRUE), Ratio("18446744073709551617", "36", FALSE)}
          \cup (IF Level = 1 THEN {} ELSE {Ratio("255", "256", FALSE), Ratio("1", "1000000000000000000000", TRUE)})
Floats == {Float("single", "1.5"), Float("single", "0.1"), Float("single", "-3.4028235e+38"), Float("single", "4"),
           Float("double", "1.5"), Float("double", "0.1"), Float("double", "-1e+20"), Float("double", "123456789.123"), Float("double", "4"),
           Float("double", "5e-324"), Float("double", "1.7976931348623157e+308"), Float("double", "0"), Float("long", "1.5"), Float("long", "0.1")}
          \cup (IF Level = 1 THEN {} ELSE {Float("single", "1e-10"), Float("single", "16777216"), Float("double", "-0"), Float("double", "1e+21"),
                                           Float("double", "1e-07"), Float("double", "9007199254740993"), Float("long", "1e+40"), Float("long", "-2.5e-30")})
Strings == {Str(<<>>), Str(Cps("ab")), Str(Cps("a\"b\\c")), Str(<<97, 10, 98>>), Str(<<9, 32, 955, 128512>>), Str(Cps("(x) ;y |z| #\\a")),
            Str(<<133, 173, 8203, 8232, 65279, 69821, 917505, 1114111>>)}
           \cup (IF Level = 1 THEN {} ELSE {Str(<<0>>), Str(<<13, 12, 8, 27, 127>>), Str(<<233, 8232, 65279, 55295, 57344, 1114111>>), Str(Cps("~a \\n ' ` ,"))})
\* characters: every kind of code point that has a name, needs one, or could be confused with syntax
CharCps == {97, 65, 48, 32, 10, 955, 40, 41, 34, 59, 124, 92, 35, 39}
           \* not printable: controls, format characters, line separators, tags, private use, unassigned, the last scalar
           \cup {0, 1, 31, 127, 133, 160, 173, 8203, 8232, 65279, 65534, 69821, 113824, 119155, 262141, 917505, 917631, 983040, 1048576, 1114109, 1114111, 128512, 233}
           \cup (IF Level = 1 THEN {} ELSE (0..300) \cup {k * 257 : k \in 2..250} \cup {65536 + k * 4099 : k \in 0..255} \cup {8233, 65533, 55295, 57344, 65535, 65536})
CharObjs == {Chr(c) : c \in CharCps \ (55296..57343)}      \* Unicode scalars: no surrogates
SymNames == {"abc", "a-b", "a b", "A", "aB", "1", "1.5", "-", "+", "1+", "a(b", ";x", "a'b", "a|b", "a\\b", ".", "..", "#a", "a#", "a:b", "&rest", "nil-p", "t1", "a,b", "`", "*x*", "1e5", "1/2", "a\nb", "two\n  lines",
             \* names that are number tokens in some spelling: upper-case exponent markers of every float format, signs, a leading or trailing point
             "1E5", "2.5S3", "+7L10", "-1D-2", "1F0", ".5", "1.", "+.5e1", "-7/8", "1E", "e5"}
Syms == {Sym(n) : n \in SymNames} \cup {Kw("kw"), Kw("a b"), Kw("K")} \cup (IF Level = 1 THEN {} ELSE {Kw(n) : n \in {"1", "a(b", "a|b", "x-y"}})
Leaves == Ints \cup Ratios \cup Floats \cup Strings \cup CharObjs \cup Syms \cup {Nil, T}

\* the leaves that stand next to the wrapped object
Mates == {IntO("12", TRUE), Float("double", "2.5"), Str(Cps("s t")), Chr(120), Sym("sym"), Kw("k"), Nil, Ratio("1", "2", FALSE), Sym("a b")}
VARIABLES obj, depth
Wraps(o) ==
  {List(<<o>>), Vec(<<o>>), Dotted(<<o>>, IntO("3", FALSE)), List(<<Sym("quote"), o>>), List(<<Sym("function"), o>>)}
  \cup {List(<<m, o>>) : m \in Mates} \cup {List(<<o, m, o>>) : m \in Mates}
  \cup (IF o.k \in {"nil", "list", "dotted"} THEN {} ELSE {Dotted(<<m>>, o) : m \in {Sym("a"), IntO("1", FALSE)}})      \* (a . (b)) is the list (a b)
  \cup {Dotted(<<m, o>>, Sym("z")) : m \in {Str(Cps("q"))}} \cup {Dotted(<<Nil, o, Nil, Sym("y")>>, IntO("3", FALSE))}
  \cup {Vec(<<m, o>>) : m \in Mates} \cup {Arr(<<2, 2>>, <<o, m, m, o>>) : m \in {IntO("0", FALSE), Str(Cps("e"))}}
  \cup {Arr(<<1, 2, 1>>, <<o, m>>) : m \in {Sym("x")}} \cup {Arr(<<2, 0>>, <<>>), Arr(<<>>, <<o>>)}
  \* arrays whose elements are lists (of one element, of two, dotted) and nil: the nesting of the text is deeper than the rank
  \cup {Arr(<<2, 2>>, <<List(<<o>>), m, Nil, List(<<m, o>>)>>) : m \in {Sym("x")}} \cup {Arr(<<2, 1>>, <<Dotted(<<o>>, IntO("3", FALSE)), List(<<o>>)>>)}
  \cup (IF Level = 1 THEN {} ELSE {List(<<o, o, o, o, o, o, o, o>>), List(<<List(<<o>>), Vec(<<o>>), Nil>>), Vec(<<>>)})
  \cup (IF Family = "hash" THEN {Hash(<<<<Sym("k"), o>>>>), Hash(<<<<Str(Cps("s t")), o>>, <<IntO("7", FALSE), Sym("v")>>, <<Kw("kw"), List(<<o, o>>)>>>>), Hash(<<>>)} ELSE {})
StructSeeds == {IntO("7", FALSE), IntO("9223372036854775808", FALSE), Ratio("1", "3", FALSE), Float("double", "0.1"), Float("single", "4"), Str(Cps("a\"b\\c")),
                Str(<<97, 10, 98>>), Chr(32), Chr(97), Sym("abc"), Sym("a b"), Sym("1"), Kw("kw"), Nil, T, Float("long", "1.5"),
                Sym("a\nb"), Vec(<<Str(<<97, 10, 98>>), Sym("x")>>)}      \* leaves whose text has more than one line, directly and inside a vector
Init == /\ depth = 0
        /\ obj \in (IF Family = "leaf" THEN Leaves ELSE StructSeeds)
Next == /\ Family \in {"struct", "hash"} /\ depth < MaxDepth
        /\ depth' = depth + 1
        /\ obj' \in Wraps(obj)

\* the printer variables that can influence the text of an object, as ranges the harness multiplies out:
\*   numbers: every base with radix on (and base 10 without), readably on and off
\*   symbols: every case;   structures: pretty on and off and every right margin, arrays printed
AllBases == [i \in 1..35 |-> i + 1]
Grid(o) ==
  [bases    |-> IF o.k \in {"int", "ratio"} THEN AllBases ELSE IF o.k \in {"list", "dotted", "vec", "array"} THEN <<10, 2, 16, 36>> ELSE <<10>>,
   cases    |-> IF o.k = "sym" \/ o.k \in {"list", "dotted", "vec", "array"} THEN <<"downcase", "upcase", "capitalize">> ELSE <<"downcase">>,
   pretty   |-> IF o.k \in {"list", "dotted", "vec", "array"} THEN <<FALSE, TRUE>> ELSE <<FALSE>>,
   margins  |-> IF o.k \in {"list", "dotted", "vec", "array"} THEN [i \in 1..200 |-> i] ELSE <<80, 1>>,
   readably |-> <<TRUE, FALSE>>]
Emit == PrintT(ToJson([obj |-> obj, grid |-> Grid(obj), depth |-> depth]))
=============================================================================
