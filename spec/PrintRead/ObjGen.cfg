CONSTANTS
 Level = 1
 MaxDepth = 1
 Family = "leaf"
INIT Init
NEXT Next
INVARIANT Emit
CHECK_DEADLOCK FALSE
