------------------------------ MODULE LoadForm ------------------------------
(***************************************************************************)
(* C19, values: an event is one distinct pretty-printed text of the load   *)
(* form of an object under the right margins 20..120:                      *)
(*   [id, obj, orig, margin, count, st, text, back]                        *)
(* Evaluating the text gives an object equal to the original and of the    *)
(* same type (Same of PrintRead.tla).                                      *)
(***************************************************************************)
EXTENDS PrintRead
JudgeL(e) == IF e.st = "no load form" THEN {} ELSE IF e.st # "ok" THEN {"load form"} ELSE IF ~Same(e.orig, e.back) THEN {"equal"} ELSE {}
NextL == /\ l <= Len(Trace)
         /\ l' = l + 1
         /\ LET e == Trace[l]  j == JudgeL(e) IN bad' = IF j = {} THEN bad ELSE Append(bad, [l |-> l, id |-> e.id, laws |-> j, want |-> ""])
=============================================================================
