INIT Init
NEXT NextL
INVARIANT Done
CHECK_DEADLOCK FALSE
