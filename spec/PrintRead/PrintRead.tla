----------------------------- MODULE PrintRead -----------------------------
(***************************************************************************)
(* Acceptor for C03: printing then reading gives back an equal object of   *)
(* the same type.  An event is one distinct text an object was printed as  *)
(* under the settings of its grid:                                         *)
(*   [id, obj (what ObjGen generated), orig (projection of the object the  *)
(*    harness built), cfg (first setting that gave this text), count,      *)
(*    st, text, flat (the text with print-pretty nil and otherwise the   *)
(*    same settings), nread (objects read from text), back (projection of  *)
(*    the first one)]                                                      *)
(* Laws:                                                                   *)
(*   printed     the object can be printed at all under the setting        *)
(*   one-form    reading the text gives exactly one object                 *)
(*   equal       back is equal to orig and of the same type (Same)         *)
(*   whitespace  pretty and flat text have the same tokens                 *)
(*   integer / ratio / symbol text: the text is the one the printer        *)
(*     variables define (digits in print-base, the radix notation        *)
(*     #b #o #x #NNr or the trailing dot, the case of print-case)        *)
(* Total: every event is judged, the violated laws are recorded.           *)
(***************************************************************************)
EXTENDS Digits, Json
Trace == ndJsonDeserialize("traces.ndjson")
VARIABLES l, bad
RECURSIVE Join(_)
Join(cs) == IF cs = <<>> THEN "" ELSE Head(cs) \o Join(Tail(cs))

(***************************************************************************)
(* Equality of projected objects: same kind, same type tag, same content.  *)
(* Floats are compared by their shortest decimal rendering in their own    *)
(* format (exact); characters and strings by code points.                  *)
(***************************************************************************)
RECURSIVE Same(_, _)
SameAll(as, bs) == Len(as) = Len(bs) /\ \A i \in 1..Len(as) : Same(as[i], bs[i])
Same(a, b) ==
  /\ a.k = b.k
  /\ CASE a.k = "int" -> a.neg = b.neg /\ a.ds = b.ds /\ a.ty = b.ty
       [] a.k = "ratio" -> a.neg = b.neg /\ a.n = b.n /\ a.d = b.d
       [] a.k = "float" -> a.fmt = b.fmt /\ a.txt = b.txt
       [] a.k \in {"str", "chr"} -> a.v = b.v
       [] a.k = "sym" -> a.v = b.v /\ a.kw = b.kw
       [] a.k \in {"nil", "t"} -> TRUE
       [] a.k \in {"list", "vec"} -> SameAll(a.v, b.v)
       [] a.k = "dotted" -> SameAll(a.v, b.v) /\ Same(a.tail, b.tail)
       [] a.k = "array" -> a.dims = b.dims /\ SameAll(a.v, b.v)
       [] a.k = "hash" -> Len(a.v) = Len(b.v) /\ \A i \in 1..Len(a.v) : \E j \in 1..Len(b.v) : Same(a.v[i][1], b.v[j][1]) /\ Same(a.v[i][2], b.v[j][2])
       [] OTHER -> FALSE

(***************************************************************************)
(* Tokens of a text: what is left when white space between tokens is       *)
(* dropped.  White space inside "strings", |symbols| and after #\ belongs  *)
(* to the token.  Parentheses and quote marks are tokens of their own.     *)
(***************************************************************************)
White == {" ", "\n", "\t", "\r", "\f"}
Single == {"(", ")", "'", "`", ","}
\* mode: "out" between tokens, "tok" in a plain token, "str" in a string, "bar" in |..| inside a token
RECURSIVE Tok(_, _, _, _, _)
Tok(cs, i, mode, cur, acc) ==
  LET flush == IF cur = <<>> THEN acc ELSE Append(acc, cur) IN
  IF i > Len(cs) THEN flush
  ELSE LET c == cs[i] IN
    CASE mode = "str" -> IF c = "\\" /\ i < Len(cs) THEN Tok(cs, i + 2, "str", cur \o <<c, cs[i + 1]>>, acc)
                         ELSE IF c = "\"" THEN Tok(cs, i + 1, "out", <<>>, Append(acc, Append(cur, c)))
                         ELSE Tok(cs, i + 1, "str", Append(cur, c), acc)
      [] mode = "bar" -> IF c = "|" THEN Tok(cs, i + 1, "tok", Append(cur, c), acc) ELSE Tok(cs, i + 1, "bar", Append(cur, c), acc)
      [] OTHER ->
           IF c \in White THEN Tok(cs, i + 1, "out", <<>>, flush)
           ELSE IF c = "\"" THEN Tok(cs, i + 1, "str", <<c>>, flush)
           ELSE IF c = "|" THEN Tok(cs, i + 1, "bar", Append(cur, c), acc)
           ELSE IF c = "#" /\ i + 1 < Len(cs) /\ cs[i + 1] = "\\" /\ cur = <<>> THEN Tok(cs, i + 3, "tok", <<c, cs[i + 1], cs[i + 2]>>, acc)   \* #\x : x may be anything
           ELSE IF c \in Single THEN Tok(cs, i + 1, "out", <<>>, Append(flush, <<c>>))
           ELSE Tok(cs, i + 1, "tok", Append(cur, c), acc)
Tokens(text) == Tok(Chars(text), 1, "out", <<>>, <<>>)

(***************************************************************************)
(* The text of numbers and plain symbols under the printer variables       *)
(***************************************************************************)
RadixPrefix(base) == CASE base = 2 -> <<"#", "b">> [] base = 8 -> <<"#", "o">> [] base = 16 -> <<"#", "x">>
                       [] OTHER -> <<"#">> \o [i \in DOMAIN NatDigits(base) |-> DigitCs[NatDigits(base)[i] + 1]] \o <<"r">>
Digs(ds, base) == LET t == ToBase(ds, base, <<>>) IN [i \in DOMAIN t |-> DigitCs[t[i] + 1]]
IntText(o, cfg) == LET body == (IF o.neg THEN <<"-">> ELSE <<>>) \o Digs(o.ds, cfg.base) IN
                   IF ~cfg.radix THEN body ELSE IF cfg.base = 10 THEN Append(body, ".") ELSE RadixPrefix(cfg.base) \o body
RatioText(o, cfg) == LET body == (IF o.neg THEN <<"-">> ELSE <<>>) \o Digs(o.n, cfg.base) \o <<"/">> \o Digs(o.d, cfg.base) IN
                     IF ~cfg.radix THEN body ELSE IF cfg.base = 10 THEN <<"#", "1", "0", "r">> \o body ELSE RadixPrefix(cfg.base) \o body
\* symbols made of lower-case letters, digits after the first letter and hyphens need no quoting: the text is the name in print-case
PlainName(cs) == cs # <<>> /\ IsLetter(cs[1]) /\ \A i \in 1..Len(cs) : cs[i] = Down(cs[i]) /\ (IsAlnum(cs[i]) \/ cs[i] = "-")
\* slip documents print-case :capitalize as "capitalized": the first character in upper case, the rest in lower case
Cap(cs) == [i \in DOMAIN cs |-> IF i = 1 THEN Up(cs[i]) ELSE Down(cs[i])]
SymText(o, cfg) == LET cs == Chars(o.v)
                       body == CASE cfg.case = "upcase" -> [i \in DOMAIN cs |-> Up(cs[i])] [] cfg.case = "capitalize" -> Cap(cs) [] OTHER -> cs
                   IN (IF o.kw THEN <<":">> ELSE <<>>) \o body
HasRefText(o) == o.k \in {"int", "ratio"} \/ (o.k = "sym" /\ PlainName(Chars(o.v)))
RefText(o, cfg) == CASE o.k = "int" -> IntText(o, cfg) [] o.k = "ratio" -> RatioText(o, cfg) [] OTHER -> SymText(o, cfg)

\* The round trip is required of the settings documented to keep the output readable: print-readably true (with it
\* every base with radix, every case, pretty or not, every margin, arrays printed).  With print-readably false slip
\* documents only "an attempt" (print-escape); the text and white space laws are still judged there.
Judge(e) ==
  (IF e.st # "ok" THEN {"printed"} ELSE {})
  \cup (IF e.st = "ok" /\ e.cfg.readably /\ e.nread # 1 THEN {"one-form"} ELSE {})
  \cup (IF e.st = "ok" /\ e.cfg.readably /\ e.nread >= 1 /\ ~Same(e.orig, e.back) THEN {"equal"} ELSE {})
  \cup (IF e.st = "ok" /\ e.cfg.pretty /\ Tokens(e.text) # Tokens(e.flat) THEN {"whitespace"} ELSE {})
  \cup (IF e.st = "ok" /\ HasRefText(e.obj) /\ Chars(e.text) # RefText(e.obj, e.cfg) THEN {"text"} ELSE {})
Init == l = 1 /\ bad = <<>>
Next == /\ l <= Len(Trace)
        /\ l' = l + 1
        /\ LET e == Trace[l]  j == Judge(e) IN
           bad' = IF j = {} THEN bad
                  ELSE Append(bad, [l |-> l, id |-> e.id, laws |-> j, want |-> IF HasRefText(e.obj) THEN Join(RefText(e.obj, e.cfg)) ELSE ""])
Done == (l = Len(Trace) + 1) => PrintT("RESULT" \o ToJson([bad |-> bad, checked |-> Len(Trace)]))
=============================================================================
