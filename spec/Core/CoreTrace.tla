------------------------------ MODULE CoreTrace ------------------------------
(* Acceptor for C01/C07: one trace per program: start(defs, ast), mark(id, value)*, *)
(* end(value | error class).  Deterministic; first rejection of a trace only.      *)
EXTENDS Core, Json
CONSTANT TraceFile
Trace == ndJsonDeserialize(TraceFile)
VARIABLES l, m, bad, failed, seen
\* the values (all of them) or the condition class an evaluation ended with
Outcome(mm) == mm.val
Init == l = 1 /\ m = Load(<<>>, [k |-> "lit", v |-> Nil]) /\ bad = <<>> /\ failed = FALSE /\ seen = 0
Next == /\ l <= Len(Trace) /\ l' = l + 1
        /\ LET e == Trace[l] IN
           CASE e.ev = "start" -> m' = LoadD(e.defs, e.ast, IF "dev" \in DOMAIN e THEN {e.dev[j] : j \in 1..Len(e.dev)} ELSE {}) /\ bad' = bad /\ failed' = FALSE /\ seen' = seen
             [] e.ev = "mark" -> IF failed THEN UNCHANGED <<m, bad, failed, seen>> ELSE
                                 LET m2 == RunToMark(m, Len(m.out))
                                     ok == ~m2.halted /\ m2.out[Len(m2.out)] = [id |-> e.id, v |-> e.v] IN
                                 /\ m' = m2 /\ failed' = ~ok /\ seen' = seen + 1
                                 /\ bad' = IF ok THEN bad ELSE Append(bad, [l |-> l, t |-> e.t, i |-> e.id, why |-> "mark",
                                                                           exp |-> IF m2.halted THEN [halted |-> m2.val] ELSE [mark |-> m2.out[Len(m2.out)]]])
             [] e.ev = "end" -> IF failed THEN UNCHANGED <<m, bad, failed, seen>> ELSE
                                 LET m2 == RunToMark(m, Len(m.out))
                                     ok == m2.halted /\ Outcome(m2) = e.v IN
                                 /\ m' = m2 /\ failed' = ~ok /\ seen' = seen + 1
                                 /\ bad' = IF ok THEN bad ELSE Append(bad, [l |-> l, t |-> e.t, i |-> 0, why |-> "end",
                                                                           exp |-> IF m2.halted THEN [halted |-> m2.val] ELSE [mark |-> m2.out[Len(m2.out)]]])
Done == (l = Len(Trace) + 1) => PrintT("RESULT" \o ToJson([bad |-> bad, checked |-> seen]))
=============================================================================
