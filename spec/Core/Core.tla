-------------------------------- MODULE Core --------------------------------
(***************************************************************************)
(* C01 / C07 - reference semantics of the core language as a small-step     *)
(* abstract machine.  A machine state is a record                          *)
(*   [mode, node, val, env, kont, heap, defs, out, halted, nid, target]    *)
(* mode "eval": `node` is evaluated in environment frame `env`;            *)
(* mode "ret" : `val` is returned to the top frame of `kont`;              *)
(* mode "exit": a non-local exit with value `val` unwinds `kont` one frame *)
(*              per step towards the block frame with id `target`,         *)
(*              diverting into the cleanup forms of every protect frame.   *)
(* `heap` is a sequence of environment frames [parent, vars] so that       *)
(* closures share bindings; `out` is the sequence of (mark id, value)      *)
(* events, the observable trace.  Step(m) is a pure function; RunToMark    *)
(* iterates it to the next observable event.                               *)
(***************************************************************************)
EXTENDS Integers, Sequences, TLC, FiniteSets
Nil == [k |-> "nil"]
T == [k |-> "t"]
IsTrue(v) == v.k # "nil"
Bool(b) == IF b THEN T ELSE Nil

RECURSIVE LookupF(_,_,_)
LookupF(vars, n, i) == IF i > Len(vars) THEN 0 ELSE IF vars[i].n = n THEN i ELSE LookupF(vars, n, i+1)
RECURSIVE FindFrame(_,_,_)
FindFrame(heap, fid, n) == IF fid = 0 THEN 0
                           ELSE IF LookupF(heap[fid].vars, n, 1) > 0 THEN fid
                           ELSE FindFrame(heap, heap[fid].parent, n)
Get(heap, fid, n) == LET f == FindFrame(heap, fid, n) IN
                     IF f = 0 THEN [k |-> "unbound"] ELSE heap[f].vars[LookupF(heap[f].vars, n, 1)].v
Set(heap, fid, n, v) == LET f == FindFrame(heap, fid, n) IN
                     IF f = 0 THEN heap
                     ELSE [heap EXCEPT ![f].vars[LookupF(heap[f].vars, n, 1)].v = v]
RECURSIVE FindDef(_,_,_)
FindDef(defs, name, i) == IF i > Len(defs) THEN 0 ELSE IF defs[i].name = name THEN i ELSE FindDef(defs, name, i+1)

RECURSIVE TargetIdFrom(_, _, _)
TargetIdFrom(kont, name, i) == IF i > Len(kont) THEN 0
                               ELSE IF kont[i].k = "block" /\ kont[i].name = name THEN kont[i].id
                               ELSE TargetIdFrom(kont, name, i + 1)
TargetId(kont, name) == TargetIdFrom(kont, name, 1)
Ret(m, v) == [m EXCEPT !.mode = "ret", !.val = v]
Ev(m, node, env) == [m EXCEPT !.mode = "eval", !.node = node, !.env = env]
Push(m, fr) == [m EXCEPT !.kont = <<fr>> \o m.kont]
Pop(m) == [m EXCEPT !.kont = Tail(m.kont)]
Body(m, forms, env) == Ev(m, [k |-> "progn", es |-> forms], env)
NewFrame(m, parent, vs) == LET h2 == Append(m.heap, [parent |-> parent, vars |-> vs]) IN [m EXCEPT !.heap = h2]
Bindings(ps, vals) == [j \in 1..Len(ps) |-> [n |-> ps[j], v |-> vals[j]]]

StepEval(m) ==
  LET n == m.node IN
  CASE n.k = "lit" -> Ret(m, n.v)
    [] n.k = "var" -> Ret(m, Get(m.heap, m.env, n.n))
    [] n.k = "setq" -> Ev(Push(m, [k |-> "setq", n |-> n.n, env |-> m.env]), n.e, m.env)
    [] n.k = "progn" -> IF Len(n.es) = 0 THEN Ret(m, Nil)
                        ELSE Ev(Push(m, [k |-> "progn", rest |-> Tail(n.es), env |-> m.env]), n.es[1], m.env)
    [] n.k = "and" -> IF Len(n.es) = 0 THEN Ret(m, T)
                      ELSE Ev(Push(m, [k |-> "and", rest |-> Tail(n.es), env |-> m.env]), n.es[1], m.env)
    [] n.k = "or" -> IF Len(n.es) = 0 THEN Ret(m, Nil)
                     ELSE Ev(Push(m, [k |-> "or", rest |-> Tail(n.es), env |-> m.env]), n.es[1], m.env)
    [] n.k = "if" -> Ev(Push(m, [k |-> "if", a |-> n.a, b |-> n.b, env |-> m.env]), n.c, m.env)
    [] n.k = "mark" -> Ev(Push(m, [k |-> "mark", id |-> n.id]), n.e, m.env)
    [] n.k \in {"add", "lt"} -> Ev(Push(m, [k |-> "bin1", op |-> n.k, b |-> n.b, env |-> m.env]), n.a, m.env)
    [] n.k \in {"let", "letx"} ->
         IF Len(n.bs) = 0 THEN Body(NewFrame(m, m.env, <<>>), n.body, Len(m.heap) + 1)
         ELSE IF n.k = "let"
              THEN Ev(Push(m, [k |-> "let", bs |-> n.bs, i |-> 1, acc |-> <<>>, body |-> n.body, env |-> m.env]), n.bs[1].e, m.env)
              ELSE LET m2 == NewFrame(m, m.env, <<>>)  e2 == Len(m.heap) + 1 IN
                   Ev(Push(m2, [k |-> "letx", bs |-> n.bs, i |-> 1, body |-> n.body, env |-> e2]), n.bs[1].e, e2)
    [] n.k = "lam" -> Ret(m, [k |-> "clo", ps |-> n.ps, body |-> n.body, env |-> m.env])
    [] n.k = "block" -> Body(Push([m EXCEPT !.nid = m.nid + 1], [k |-> "block", name |-> n.name, id |-> m.nid]), n.body, m.env)
    [] n.k = "retfrom" -> Ev(Push(m, [k |-> "retfrom", name |-> n.name]), n.e, m.env)
    [] n.k = "protect" -> Ev(Push(m, [k |-> "protect", cleanup |-> n.cleanup, env |-> m.env]), n.e, m.env)
    [] n.k = "fcall" -> Ev(Push(m, [k |-> "fc", args |-> n.args, i |-> 0, f |-> Nil, acc |-> <<>>, env |-> m.env]), n.f, m.env)
    [] n.k = "call" -> IF Len(n.args) = 0 THEN
                         LET d == m.defs[FindDef(m.defs, n.f, 1)] IN Body(NewFrame(m, 1, <<>>), d.body, Len(m.heap) + 1)
                       ELSE Ev(Push(m, [k |-> "call", f |-> n.f, args |-> n.args, i |-> 1, acc |-> <<>>, env |-> m.env]), n.args[1], m.env)

StepRet(m) ==
  IF Len(m.kont) = 0 THEN [m EXCEPT !.halted = TRUE]
  ELSE LET fr == m.kont[1]  m1 == Pop(m)  v == m.val IN
  CASE fr.k = "setq" -> Ret([m1 EXCEPT !.heap = Set(m.heap, fr.env, fr.n, v)], v)
    [] fr.k = "progn" -> IF Len(fr.rest) = 0 THEN Ret(m1, v)
                         ELSE Ev(Push(m1, [fr EXCEPT !.rest = Tail(fr.rest)]), fr.rest[1], fr.env)
    [] fr.k = "and" -> IF ~IsTrue(v) \/ Len(fr.rest) = 0 THEN Ret(m1, v)
                       ELSE Ev(Push(m1, [fr EXCEPT !.rest = Tail(fr.rest)]), fr.rest[1], fr.env)
    [] fr.k = "or" -> IF IsTrue(v) \/ Len(fr.rest) = 0 THEN Ret(m1, v)
                      ELSE Ev(Push(m1, [fr EXCEPT !.rest = Tail(fr.rest)]), fr.rest[1], fr.env)
    [] fr.k = "if" -> Ev(m1, IF IsTrue(v) THEN fr.a ELSE fr.b, fr.env)
    [] fr.k = "mark" -> Ret([m1 EXCEPT !.out = Append(m.out, [id |-> fr.id, v |-> v])], v)
    [] fr.k = "block" -> Ret(m1, v)
    [] fr.k = "retfrom" -> LET tgt == TargetId(m1.kont, fr.name) IN
                           IF tgt = 0 THEN [m1 EXCEPT !.mode = "ret", !.val = [k |-> "err", c |-> "control-error"], !.kont = <<>>]
                           ELSE [m1 EXCEPT !.mode = "exit", !.val = v, !.target = tgt]
    [] fr.k = "protect" -> Body(Push(m1, [k |-> "after-cleanup", exit |-> FALSE, val |-> v, target |-> 0]), fr.cleanup, fr.env)
    [] fr.k = "after-cleanup" -> IF fr.exit THEN [m1 EXCEPT !.mode = "exit", !.val = fr.val, !.target = fr.target]
                                 ELSE Ret(m1, fr.val)
    [] fr.k = "bin1" -> Ev(Push(m1, [k |-> "bin2", op |-> fr.op, a |-> v]), fr.b, fr.env)
    [] fr.k = "bin2" -> Ret(m1, IF fr.op = "add" THEN [k |-> "int", v |-> fr.a.v + v.v] ELSE Bool(fr.a.v < v.v))
    [] fr.k = "let" -> LET acc == Append(fr.acc, [n |-> fr.bs[fr.i].n, v |-> v]) IN
                       IF fr.i = Len(fr.bs)
                       THEN Body(NewFrame(m1, fr.env, acc), fr.body, Len(m.heap) + 1)
                       ELSE Ev(Push(m1, [fr EXCEPT !.i = fr.i + 1, !.acc = acc]), fr.bs[fr.i+1].e, fr.env)
    [] fr.k = "letx" -> LET h2 == [m.heap EXCEPT ![fr.env].vars = Append(@, [n |-> fr.bs[fr.i].n, v |-> v])]
                            m2 == [m1 EXCEPT !.heap = h2] IN
                        IF fr.i = Len(fr.bs) THEN Body(m2, fr.body, fr.env)
                        ELSE Ev(Push(m2, [fr EXCEPT !.i = fr.i + 1]), fr.bs[fr.i+1].e, fr.env)
    [] fr.k = "fc" -> LET f == IF fr.i = 0 THEN v ELSE fr.f
                          acc == IF fr.i = 0 THEN <<>> ELSE Append(fr.acc, v) IN
                      IF fr.i = Len(fr.args)
                      THEN Body(NewFrame(m1, f.env, Bindings(f.ps, acc)), f.body, Len(m.heap) + 1)
                      ELSE Ev(Push(m1, [fr EXCEPT !.i = fr.i + 1, !.f = f, !.acc = acc]), fr.args[fr.i+1], fr.env)
    [] fr.k = "call" -> LET acc == Append(fr.acc, v) IN
                        IF fr.i = Len(fr.args)
                        THEN LET d == m.defs[FindDef(m.defs, fr.f, 1)] IN
                             Body(NewFrame(m1, 1, Bindings(d.ps, acc)), d.body, Len(m.heap) + 1)
                        ELSE Ev(Push(m1, [fr EXCEPT !.i = fr.i + 1, !.acc = acc]), fr.args[fr.i+1], fr.env)

StepExit(m) ==
  LET fr == m.kont[1]  m1 == Pop(m) IN
  IF fr.k = "block" /\ fr.id = m.target THEN Ret(m1, m.val)
  ELSE IF fr.k = "protect"
       THEN Body(Push([m1 EXCEPT !.mode = "eval"], [k |-> "after-cleanup", exit |-> TRUE, val |-> m.val, target |-> m.target]), fr.cleanup, fr.env)
       ELSE m1
Step(m) == IF m.mode = "eval" THEN StepEval(m) ELSE IF m.mode = "exit" THEN StepExit(m) ELSE StepRet(m)
RECURSIVE RunToMark(_,_)
RunToMark(m, n) == IF m.halted \/ Len(m.out) > n THEN m ELSE RunToMark(Step(m), n)
Load(defs, ast) == [mode |-> "eval", node |-> ast, val |-> Nil, env |-> 1, kont |-> <<>>, defs |-> defs,
                    heap |-> << [parent |-> 0, vars |-> <<>>] >>, out |-> <<>>, halted |-> FALSE, nid |-> 1, target |-> 0]
=============================================================================
