-------------------------------- MODULE Core --------------------------------
(***************************************************************************)
(* C01 / C07 - reference semantics of the core language as a small-step     *)
(* abstract machine (control, environment heap, continuation, output).     *)
(* A machine state is a record                                             *)
(*   [mode, node, val, env, kont, heap, defs, out, halted, nid, ex, res]   *)
(* mode "eval": `node` is evaluated in environment frame `env`;            *)
(* mode "ret" : `val` (a sequence of values, multiple values) is returned  *)
(*              to the top frame of `kont`;                                *)
(* mode "exit": the non-local exit `ex` = [kind, target, tag, val] unwinds *)
(*              `kont` one frame per step towards its target frame,        *)
(*              diverting into the cleanup forms of every protect frame.   *)
(* `heap` is a sequence of environment frames [parent, vars] so that       *)
(* closures share bindings; `out` is the sequence of (mark id, value)      *)
(* events, the observable trace.  Step(m) is a pure function; RunToMark    *)
(* iterates it to the next observable event.  Targets of return-from and   *)
(* go are identified lexically: block and tagbody frames carry unique ids, *)
(* the ids visible at a point are looked up in the continuation of the     *)
(* same function activation (function bodies start a new lexical extent). *)
(* `res` is the table of resources (mutexes, file streams): res[r] is TRUE *)
(* while the mutex is held / the stream is open; a `res` frame on `kont`   *)
(* releases its resource whichever way control leaves it.                 *)
(***************************************************************************)
EXTENDS Integers, Sequences, TLC, FiniteSets
Nil == [k |-> "nil"]
T == [k |-> "t"]
IntV(n) == [k |-> "int", v |-> n]
IsTrue(v) == v.k # "nil"
Bool(b) == IF b THEN T ELSE Nil
\* a proper list value; the empty list is Nil
ListV(s) == IF s = <<>> THEN Nil ELSE [k |-> "list", v |-> s]
Elts(v) == IF v.k = "list" THEN v.v ELSE <<>>
One(v) == <<v>>                                  \* a single value
Prim(vs) == IF vs = <<>> THEN Nil ELSE vs[1]      \* primary value

RECURSIVE LookupF(_,_,_)
LookupF(vars, n, i) == IF i > Len(vars) THEN 0 ELSE IF vars[i].n = n THEN i ELSE LookupF(vars, n, i+1)
\* The frame that holds variable n, seen from frame fid.  Lexical scoping: the frame itself, then its parent (the frame the
\* binding form or the closure was made in).  A frame made for a function call also records the frame of the call (dyn); it is
\* 0 unless the machine runs with the named deviation "dynscope" (m.dev is the set of named deviations of open findings the
\* machine runs with, empty for the language definition; open finding C01-F4: slip looks a free variable of a function
\* body up in the bindings of the CALLER first and only then in the bindings the closure captured).
RECURSIVE FindFrame(_,_,_)
FindFrame(heap, fid, n) == IF fid = 0 THEN 0
                           ELSE IF LookupF(heap[fid].vars, n, 1) > 0 THEN fid
                           ELSE LET d == FindFrame(heap, heap[fid].dyn, n) IN
                                IF d > 0 THEN d ELSE FindFrame(heap, heap[fid].parent, n)
Get(heap, fid, n) == LET f == FindFrame(heap, fid, n) IN
                     IF f = 0 THEN [k |-> "unbound"] ELSE heap[f].vars[LookupF(heap[f].vars, n, 1)].v
Set(heap, fid, n, v) == LET f == FindFrame(heap, fid, n) IN
                     IF f = 0 THEN heap
                     ELSE [heap EXCEPT ![f].vars[LookupF(heap[f].vars, n, 1)].v = v]
\* 'x written inside quoted data (value kind qobj in the program) is the list (quote x).  Named deviation "quote-object"
\* (open finding C01-F7): the implementation keeps what its reader makes of 'x, an object that is not a list.
RECURSIVE NormQ(_, _)
NormQ(v, dev) == IF v.k = "qobj" THEN (IF "quote-object" \in dev THEN [k |-> "qobj", v |-> NormQ(v.v, dev)]
                                       ELSE [k |-> "list", v |-> <<[k |-> "sym", v |-> "quote"], NormQ(v.v, dev)>>])
                 ELSE IF v.k = "list" THEN [k |-> "list", v |-> [i \in 1..Len(v.v) |-> NormQ(v.v[i], dev)]]
                 ELSE v
\* a function defined while the program runs, (defun name ...) evaluated as a form: the global frame binds the pseudo-variable
\* "#f:<name>" to a closure over the environment the defun form is evaluated in; a later defun of the name replaces it
DefGlobal(heap, n, v) == LET i == LookupF(heap[1].vars, n, 1) IN
                         IF i > 0 THEN [heap EXCEPT ![1].vars[i].v = v] ELSE [heap EXCEPT ![1].vars = Append(@, [n |-> n, v |-> v])]
RECURSIVE FindDef(_,_,_)
FindDef(defs, name, i) == IF i > Len(defs) THEN 0 ELSE IF defs[i].name = name THEN i ELSE FindDef(defs, name, i+1)

\* Blocks and tags are lexical: a block / tagbody makes an environment frame that binds the pseudo-variable "#b:<name>" /
\* "#t:<tag>" to the unique id of its continuation frame; return-from / go look the name up like a variable (so a lambda sees
\* the blocks and tags of the place it was written in, a named function none of its caller's) and unwind to the frame with
\* that id.  (With the deviation "dynscope" the lookup goes through the caller's frames first, like every other lookup.)
HasTag(stmts, tag) == \E j \in 1..Len(stmts) : stmts[j].tag = tag
Ret(m, v) == [m EXCEPT !.mode = "ret", !.val = One(v)]
RetVs(m, vs) == [m EXCEPT !.mode = "ret", !.val = vs]
Ev(m, node, env) == [m EXCEPT !.mode = "eval", !.node = node, !.env = env]
Push(m, fr) == [m EXCEPT !.kont = <<fr>> \o m.kont]
Pop(m) == [m EXCEPT !.kont = Tail(m.kont)]
Body(m, forms, env) == Ev(m, [k |-> "progn", es |-> forms], env)
NewFrame(m, parent, vs) == LET h2 == Append(m.heap, [parent |-> parent, vars |-> vs, dyn |-> 0]) IN [m EXCEPT !.heap = h2]
\* the frame of a function call made from frame `caller`
CallFrame(m, parent, vs, caller) == LET h2 == Append(m.heap, [parent |-> parent, vars |-> vs, dyn |-> IF "dynscope" \in m.dev THEN caller ELSE 0]) IN [m EXCEPT !.heap = h2]
Top(m) == Len(m.heap)                             \* id of the frame NewFrame just made
Bindings(ps, vals) == [j \in 1..Len(ps) |-> [n |-> ps[j], v |-> IF j <= Len(vals) THEN vals[j] ELSE Nil]]
\* enter a block: [machine, environment of the body]
BlockEnter(m, name, env) ==
  LET m2 == NewFrame([m EXCEPT !.nid = m.nid + 1], env, <<[n |-> "#b:" \o name, v |-> IntV(m.nid)]>>) IN
  Push(m2, [k |-> "block", name |-> name, id |-> m.nid])
LexId(m, env, key) == LET b == Get(m.heap, env, key) IN IF b.k = "int" THEN b.v ELSE 0
Exit(m, kind, target, tag, v) == [m EXCEPT !.mode = "exit", !.ex = [kind |-> kind, target |-> target, tag |-> tag, val |-> v]]
Err(m, class) == Exit(m, "error", 0, class, <<>>)
\* typecase / etypecase: the type names the generator uses, on the values of the machine
TypeMatch(ty, v) == CASE ty = "t" -> TRUE
                      [] ty \in {"fixnum", "integer", "number"} -> v.k = "int"
                      [] ty = "string" -> v.k = "str"
                      [] ty = "null" -> v.k = "nil"
                      [] ty = "symbol" -> v.k \in {"sym", "nil"}
                      [] ty = "list" -> v.k \in {"nil", "list"}
                      [] OTHER -> FALSE
IsInt(v) == v.k = "int"
Abs(i) == IF i < 0 THEN -i ELSE i
Sgn(i) == IF i < 0 THEN -1 ELSE 1
TruncQ(a, b) == (Abs(a) \div Abs(b)) * Sgn(a) * Sgn(b)
\* The bodies of tagbody, dolist, dotimes, do and do* are tag bodies: a symbol or an integer at statement level is a
\* tag, it is not evaluated (a variable that happens to have no value is not an error there).
IsTag(e) == \/ e.k = "var"
            \/ e.k = "lit" /\ e.v.k \in {"int", "nil", "t"} /\ (("q" \in DOMAIN e) => e.q = 0)
Stmts(body) == SelectSeq(body, LAMBDA e : ~IsTag(e))
TagStmt(e) == IF IsTag(e) THEN [k |-> "lit", v |-> Nil] ELSE e          \* a statement of a tagbody that is itself a tag does nothing
\* the body of a loop as the statements of a tagbody: a tag labels the statement after it (or nothing, at the end)
RECURSIVE AsStmts(_)
AsStmts(body) ==
  IF body = <<>> THEN <<>>
  ELSE IF IsTag(body[1]) /\ body[1].k = "var"
       THEN (IF Len(body) >= 2 /\ ~IsTag(body[2]) THEN <<[tag |-> body[1].n, e |-> body[2]]>> \o AsStmts(SubSeq(body, 3, Len(body)))
             ELSE <<[tag |-> body[1].n, e |-> [k |-> "lit", v |-> Nil]]>> \o AsStmts(Tail(body)))
  ELSE <<[tag |-> "", e |-> body[1]]>> \o AsStmts(Tail(body))
HasTags(body) == \E i \in 1..Len(body) : IsTag(body[i]) /\ body[i].k = "var"
Idx(j) == SubSeq("0123456789", j + 1, j + 1)      \* name of element j of a vector (vectors of the generator have at most 10 elements)
RECURSIVE Tails(_)
Tails(es) == IF es = <<>> THEN <<>> ELSE <<ListV(es)>> \o Tails(Tail(es))
RECURSIVE Flat(_)
Flat(ls) == IF ls = <<>> THEN <<>> ELSE Elts(ls[1]) \o Flat(Tail(ls))
RECURSIVE SumOf(_)
SumOf(args) == IF args = <<>> THEN 0 ELSE args[1].v + SumOf(Tail(args))
\* applying a function value to argument values: a closure or a named function
Apply(m, f, args, caller) ==
  IF f.k = "clo" THEN Body(Push(CallFrame(m, f.env, Bindings(f.ps, args), caller), [k |-> "fnbody"]), f.body, Len(m.heap) + 1)
  ELSE IF f.k = "fn" /\ Get(m.heap, 1, "#f:" \o f.name).k = "clo"
       THEN LET c == Get(m.heap, 1, "#f:" \o f.name) IN
            Body(Push(CallFrame(m, c.env, Bindings(c.ps, args), caller), [k |-> "fnbody"]), c.body, Len(m.heap) + 1)
  ELSE IF f.k = "fn" /\ FindDef(m.defs, f.name, 1) > 0
       THEN LET d == m.defs[FindDef(m.defs, f.name, 1)] IN
            Body(Push(CallFrame(m, 1, Bindings(d.ps, args), caller), [k |-> "fnbody"]), d.body, Len(m.heap) + 1)
  ELSE IF f.k = "fn" /\ f.name = "+" THEN (IF \E j \in 1..Len(args) : ~IsInt(args[j]) THEN Err(m, "type-error") ELSE Ret(m, IntV(SumOf(args))))
  ELSE Err(m, "undefined-function")

\* one more result v of the function of a map3 frame fr (the machine m1 is the one below the frame): the mapping functions collect,
\* every / some stop at the first false / true value, find-if / count-if / remove-if use the value as a truth value
MapStep(m1, fr, v) ==
  LET acc == Append(fr.acc, v)
      more == Apply(Push(m1, [fr EXCEPT !.rest = Tail(fr.rest), !.acc = acc, !.cur = fr.rest[1]]), fr.f, <<fr.rest[1]>>, fr.env)
      items == IF fr.op = "maplist" THEN <<>> ELSE Elts(fr.orig) IN
  CASE fr.op = "every" -> IF ~IsTrue(v) THEN Ret(m1, Nil) ELSE IF fr.rest = <<>> THEN Ret(m1, T) ELSE more
    [] fr.op = "some" -> IF IsTrue(v) THEN Ret(m1, v) ELSE IF fr.rest = <<>> THEN Ret(m1, Nil) ELSE more
    [] fr.op = "findif" -> IF IsTrue(v) THEN Ret(m1, fr.cur) ELSE IF fr.rest = <<>> THEN Ret(m1, Nil) ELSE more
    [] fr.rest # <<>> -> more
    [] fr.op = "countif" -> Ret(m1, IntV(Cardinality({j \in 1..Len(acc) : IsTrue(acc[j])})))
    [] fr.op = "removeif" -> LET idx == SelectSeq([j \in 1..Len(acc) |-> j], LAMBDA j : ~IsTrue(acc[j])) IN Ret(m1, ListV([k \in 1..Len(idx) |-> items[idx[k]]]))
    [] fr.op = "mapc" -> Ret(m1, fr.orig)                      \* the list itself
    [] fr.op = "mapcan" -> IF \E j \in 1..Len(acc) : acc[j].k \notin {"nil", "list"} THEN Err(m1, "type-error")
                           ELSE Ret(m1, ListV(Flat(acc)))     \* the results concatenated
    [] OTHER -> Ret(m1, ListV(acc))

StepEval(m) ==
  LET n == m.node IN
  CASE n.k = "lit" -> Ret(m, NormQ(n.v, m.dev))
    [] n.k = "var" -> LET v == Get(m.heap, m.env, n.n) IN IF v.k = "unbound" THEN Err(m, "unbound-variable") ELSE Ret(m, v)
    [] n.k = "setq" -> Ev(Push(m, [k |-> "setq", n |-> n.n, env |-> m.env]), n.e, m.env)
    [] n.k = "progn" -> IF Len(n.es) = 0 THEN Ret(m, Nil)
                        ELSE IF Len(n.es) = 1 THEN Ev(m, n.es[1], m.env)       \* the last form's values are the values
                        ELSE Ev(Push(m, [k |-> "progn", rest |-> Tail(n.es), env |-> m.env]), n.es[1], m.env)
    [] n.k = "prog1" -> Ev(Push(m, [k |-> "prog1a", rest |-> Tail(n.es), env |-> m.env]), n.es[1], m.env)
    [] n.k = "and" -> IF Len(n.es) = 0 THEN Ret(m, T)
                      ELSE Ev(Push(m, [k |-> "and", rest |-> Tail(n.es), env |-> m.env]), n.es[1], m.env)
    [] n.k = "or" -> IF Len(n.es) = 0 THEN Ret(m, Nil)
                     ELSE Ev(Push(m, [k |-> "or", rest |-> Tail(n.es), env |-> m.env]), n.es[1], m.env)
    [] n.k = "if" -> Ev(Push(m, [k |-> "if", a |-> n.a, b |-> n.b, env |-> m.env]), n.c, m.env)
    [] n.k \in {"when", "unless"} -> Ev(Push(m, [k |-> n.k, body |-> n.body, env |-> m.env]), n.c, m.env)
    [] n.k = "cond" -> IF Len(n.cs) = 0 THEN Ret(m, Nil)
                       ELSE Ev(Push(m, [k |-> "cond", cs |-> n.cs, env |-> m.env]), n.cs[1].c, m.env)
    [] n.k = "case" -> Ev(Push(m, [k |-> "case", cs |-> n.cs, strict |-> n.strict, env |-> m.env]), n.e, m.env)
    [] n.k = "mark" -> Ev(Push(m, [k |-> "mark", id |-> n.id]), n.e, m.env)
    [] n.k = "setqs" -> IF Len(n.ps) = 0 THEN Ret(m, Nil)                     \* (setq a e1 b e2 ...): sequential
                        ELSE Ev(Push(m, [k |-> "setqs", ps |-> n.ps, i |-> 1, env |-> m.env]), n.ps[1].e, m.env)
    [] n.k = "tcase" -> Ev(Push(m, [k |-> "tcase", cs |-> n.cs, strict |-> n.strict, env |-> m.env]), n.e, m.env)
    [] n.k = "newres" -> Ret([m EXCEPT !.res = Append(m.res, FALSE)], [k |-> "res", id |-> Len(m.res) + 1])     \* (make-mutex)
    [] n.k = "withlock" -> Ev(Push(m, [k |-> "withlock0", body |-> n.body, env |-> m.env]), n.e, m.env)
    [] n.k = "withfile" -> \* (with-open-file (var ...) body): the stream is open inside and closed whichever way control leaves
         LET r == Len(m.res) + 1
             m2 == NewFrame([m EXCEPT !.res = Append(m.res, TRUE)], m.env, <<[n |-> n.var, v |-> [k |-> "res", id |-> r]]>>) IN
         Body(Push(m2, [k |-> "res", id |-> r]), n.body, Top(m2))
    \* a call of a macro of the program: the form stands for its expansion (the generator writes both the macro call, which
    \* the implementation expands - every time the form is evaluated from its list form - and the expansion, which the
    \* machine evaluates; the templates use each argument once)
    [] n.k = "mcall" -> Ev(m, n.exp, m.env)
    \* (defun name (ps) body) as a form, anywhere: the function closes over the bindings in force where the form is evaluated -
    \* every time it is evaluated, also when the text is the same as last time
    [] n.k = "defun" -> Ret([m EXCEPT !.heap = DefGlobal(m.heap, "#f:" \o n.name, [k |-> "clo", ps |-> n.ps, body |-> n.body, env |-> m.env])], Nil)
    [] n.k = "held" -> Ev(Push(m, [k |-> "held"]), n.e, m.env)
    \* (close stream) inside the body: the stream is closed from then on; leaving the with-open-file form afterwards, in
    \* whatever way, is what it would have been (the value, the exit or the condition are the body's)
    [] n.k = "closeres" -> Ev(Push(m, [k |-> "closeres"]), n.e, m.env)
    [] n.k \in {"add", "sub", "lt", "eq", "cons", "trunc"} -> Ev(Push(m, [k |-> "bin1", op |-> n.k, b |-> n.b, env |-> m.env]), n.a, m.env)
    [] n.k \in {"car", "cdr"} -> Ev(Push(m, [k |-> "un", op |-> n.k]), n.a, m.env)
    [] n.k \in {"list", "values"} -> IF Len(n.es) = 0 THEN (IF n.k = "list" THEN Ret(m, Nil) ELSE RetVs(m, <<>>))
                                     ELSE Ev(Push(m, [k |-> "args", op |-> n.k, rest |-> Tail(n.es), acc |-> <<>>, env |-> m.env]), n.es[1], m.env)
    [] n.k \in {"let", "letx"} ->
         IF Len(n.bs) = 0 THEN Body(NewFrame(m, m.env, <<>>), n.body, Len(m.heap) + 1)
         ELSE IF n.k = "let"
              THEN Ev(Push(m, [k |-> "let", bs |-> n.bs, i |-> 1, acc |-> <<>>, body |-> n.body, env |-> m.env]), n.bs[1].e, m.env)
              ELSE LET m2 == NewFrame(m, m.env, <<>>)  e2 == Len(m.heap) + 1 IN
                   Ev(Push(m2, [k |-> "letx", bs |-> n.bs, i |-> 1, body |-> n.body, env |-> e2]), n.bs[1].e, e2)
    [] n.k = "mvb" -> Ev(Push(m, [k |-> "mvb", vars |-> n.vars, body |-> n.body, env |-> m.env]), n.e, m.env)
    [] n.k = "lam" -> Ret(m, [k |-> "clo", ps |-> n.ps, body |-> n.body, env |-> m.env])
    [] n.k = "fnref" -> Ret(m, [k |-> "fn", name |-> n.name])
    [] n.k = "block" -> Body(BlockEnter(m, n.name, m.env), n.body, Len(m.heap) + 1)
    [] n.k = "retfrom" -> Ev(Push(m, [k |-> "retfrom", name |-> n.name, env |-> m.env]), n.e, m.env)
    [] n.k = "protect" -> Ev(Push(m, [k |-> "protect", cleanup |-> n.cleanup, env |-> m.env]), n.e, m.env)
    [] n.k = "tagbody" -> LET tags == SelectSeq(n.stmts, LAMBDA st : st.tag # "")
                              m1 == NewFrame([m EXCEPT !.nid = m.nid + 1], m.env, [j \in 1..Len(tags) |-> [n |-> "#t:" \o tags[j].tag, v |-> IntV(m.nid)]])
                              e2 == Len(m.heap) + 1
                              m2 == Push(m1, [k |-> "tagbody", stmts |-> n.stmts, i |-> 1, id |-> m.nid, env |-> e2]) IN
                          IF Len(n.stmts) = 0 THEN Ret(m, Nil) ELSE Ev(m2, TagStmt(n.stmts[1].e), e2)
    [] n.k = "go" -> LET tgt == LexId(m, m.env, "#t:" \o n.tag) IN
                     IF tgt = 0 THEN Err(m, "control-error") ELSE Exit(m, "go", tgt, n.tag, <<>>)
    [] n.k = "error" -> Err(m, n.class)
    [] n.k = "ignerr" -> Body(Push(m, [k |-> "ignerr"]), n.body, m.env)
    [] n.k = "fcall" -> Ev(Push(m, [k |-> "fc", args |-> n.args, i |-> 0, f |-> Nil, acc |-> <<>>, spread |-> n.spread, env |-> m.env]), n.f, m.env)
    [] n.k = "call" -> IF Len(n.args) = 0 THEN Apply(m, [k |-> "fn", name |-> n.f], <<>>, m.env)
                       ELSE Ev(Push(m, [k |-> "call", f |-> n.f, args |-> n.args, i |-> 1, acc |-> <<>>, env |-> m.env]), n.args[1], m.env)
    [] n.k \in {"mapcar", "mapc", "mapcan", "maplist", "every", "some", "findif", "countif", "removeif"} -> Ev(Push(m, [k |-> "map1", op |-> n.k, l |-> n.l, env |-> m.env]), n.f, m.env)
    \* (psetq a e1 b e2 ...): all the forms are evaluated, then all the variables assigned; the value is nil
    [] n.k = "psetq" -> IF Len(n.ps) = 0 THEN Ret(m, Nil)
                        ELSE Ev(Push(m, [k |-> "psetq", ps |-> n.ps, i |-> 1, acc |-> <<>>, env |-> m.env]), n.ps[1].e, m.env)
    [] n.k = "mvsetq" -> Ev(Push(m, [k |-> "mvsetq", vars |-> n.vars, env |-> m.env]), n.e, m.env)
    [] n.k = "mvlist" -> Ev(Push(m, [k |-> "mvlist"]), n.e, m.env)
    [] n.k = "nthv" -> Ev(Push(m, [k |-> "nthv", i |-> n.i]), n.e, m.env)
    [] n.k = "mvprog1" -> Ev(Push(m, [k |-> "mvp1a", rest |-> Tail(n.es), env |-> m.env]), n.es[1], m.env)
    \* (prog2 a b c ...) is (progn a (prog1 b c ...))
    [] n.k = "prog2" -> Ev(m, [k |-> "progn", es |-> <<n.es[1], [k |-> "prog1", es |-> Tail(n.es)]>>], m.env)
    \* (multiple-value-call f form ...): all the values of all the forms are the arguments
    [] n.k = "mvcall" -> Ev(Push(m, [k |-> "mvc", args |-> n.args, i |-> 0, f |-> Nil, acc |-> <<>>, env |-> m.env]), n.f, m.env)
    \* (prog / prog* (bindings) tag-or-statement ...) is a block named nil around a let / let* around a tagbody
    [] n.k = "prog" -> Ev(m, [k |-> "block", name |-> "nil",
                               body |-> <<[k |-> IF n.star THEN "letx" ELSE "let", bs |-> n.bs, body |-> <<[k |-> "tagbody", stmts |-> n.stmts]>>]>>], m.env)
    \* (loop form ...): the forms again and again inside a block named nil
    [] n.k = "sloop" -> LET e2 == Len(m.heap) + 1 IN Body(Push(BlockEnter(m, "nil", m.env), [k |-> "sloop", body |-> n.body, env |-> e2]), n.body, e2)
    \* (recover var on-recover form ...): the forms; when one of them signals, on-recover with var bound (to a description of the condition)
    [] n.k = "recover" -> Body(Push(m, [k |-> "recover", var |-> n.var, on |-> n.on, env |-> m.env]), n.body, m.env)
    \* (incf v d) / (decf v d): the variable is read after the delta form has been evaluated
    [] n.k \in {"incf", "decf"} -> Ev(Push(m, [k |-> "incf", n |-> n.n, sign |-> IF n.k = "incf" THEN 1 ELSE -1, env |-> m.env]), n.e, m.env)
    [] n.k = "push" -> Ev(Push(m, [k |-> "push", n |-> n.n, env |-> m.env]), n.e, m.env)
    \* (vector e ...): a fresh vector at every evaluation (an environment frame with the elements as variables "0", "1", ...);
    \* (aref v i) and (setf (aref v i) e) with a literal index
    [] n.k = "vector" -> IF Len(n.es) = 0 THEN Ret(NewFrame(m, 0, <<>>), [k |-> "vec", id |-> Len(m.heap) + 1])
                         ELSE Ev(Push(m, [k |-> "args", op |-> "vector", rest |-> Tail(n.es), acc |-> <<>>, env |-> m.env]), n.es[1], m.env)
    [] n.k = "aref" -> Ev(Push(m, [k |-> "aref", i |-> n.i]), n.a, m.env)
    [] n.k = "setaref" -> Ev(Push(m, [k |-> "setaref1", i |-> n.i, e |-> n.e, env |-> m.env]), n.a, m.env)
    [] n.k = "pop" -> LET v == Get(m.heap, m.env, n.n)  es == Elts(v) IN
                      IF v.k = "unbound" THEN Err(m, "unbound-variable")
                      ELSE IF v.k \notin {"nil", "list"} THEN Err(m, "type-error")
                      ELSE Ret([m EXCEPT !.heap = Set(m.heap, m.env, n.n, IF Len(es) <= 1 THEN Nil ELSE ListV(Tail(es)))], IF es = <<>> THEN Nil ELSE es[1])
    [] n.k = "dolist" -> Ev(Push(m, [k |-> "dolist0", var |-> n.var, res |-> n.res, body |-> n.body, env |-> m.env]), n.l, m.env)
    [] n.k = "dotimes" -> Ev(Push(m, [k |-> "dotimes0", var |-> n.var, res |-> n.res, body |-> n.body, env |-> m.env]), n.c, m.env)
    [] n.k = "do" ->
         \* (do / do* ((var init step) ...) (test result ...) body ...): an implicit block nil around everything
         LET m0 == BlockEnter(m, "nil", m.env)
             e0 == Len(m.heap) + 1 IN                   \* the environment inside the block: the init forms are inside it
         IF Len(n.vars) = 0 THEN Ev(Push(NewFrame(m0, e0, <<>>), [k |-> "dotest", n |-> n, env |-> e0 + 1]), n.test, e0 + 1)
         ELSE IF n.star
              THEN LET m2 == NewFrame(m0, e0, <<>>)  e2 == e0 + 1 IN
                   Ev(Push(m2, [k |-> "doinit", n |-> n, i |-> 1, acc |-> <<>>, env |-> e2, outer |-> e0]), n.vars[1].init, e2)
              ELSE Ev(Push(m0, [k |-> "doinit", n |-> n, i |-> 1, acc |-> <<>>, env |-> 0, outer |-> e0]), n.vars[1].init, e0)
    [] OTHER -> Err(m, "machine-stuck-at-node-" \o n.k)

\* the body of dolist / dotimes / do / do* is a tagbody: a go inside it reaches a tag of the body (and the iteration goes on
\* from there); without tags it is the sequence of its statements
LoopBody(m, body, env) == IF HasTags(body) THEN Ev(m, [k |-> "tagbody", stmts |-> AsStmts(body)], env) ELSE Body(m, Stmts(body), env)
\* the loop machinery shared by dolist / dotimes: iteration j over items, each in a fresh frame binding var
LoopNext(m1, fr) ==
  IF fr.items = <<>>
  THEN \* the result form sees the variable (nil for dolist, the count for dotimes)
       LET m2 == NewFrame(m1, fr.env, <<[n |-> fr.var, v |-> fr.last]>>) IN
       Ev(Push(m2, [k |-> "loopres"]), fr.res, Top(m2))
  ELSE LET m2 == NewFrame(m1, fr.env, <<[n |-> fr.var, v |-> fr.items[1]]>>) IN
       LoopBody(Push(m2, [fr EXCEPT !.items = Tail(fr.items)]), fr.body, Top(m2))
RECURSIVE Upto(_, _)
Upto(i, n) == IF i >= n THEN <<>> ELSE <<IntV(i)>> \o Upto(i + 1, n)
DoVarsFrame(n, vals) == [j \in 1..Len(n.vars) |-> [n |-> n.vars[j].n, v |-> vals[j]]]

StepRet(m) ==
  IF Len(m.kont) = 0 THEN [m EXCEPT !.halted = TRUE]
  ELSE LET fr == m.kont[1]  m1 == Pop(m)  v == Prim(m.val) IN
  CASE fr.k = "setq" -> Ret([m1 EXCEPT !.heap = Set(m.heap, fr.env, fr.n, v)], v)
    [] fr.k = "progn" -> IF Len(fr.rest) = 1 THEN Ev(m1, fr.rest[1], fr.env)
                         ELSE Ev(Push(m1, [fr EXCEPT !.rest = Tail(fr.rest)]), fr.rest[1], fr.env)
    [] fr.k = "prog1a" -> IF Len(fr.rest) = 0 THEN Ret(m1, v)
                          ELSE Ev(Push(m1, [k |-> "prog1b", keep |-> v, rest |-> Tail(fr.rest), env |-> fr.env]), fr.rest[1], fr.env)
    [] fr.k = "prog1b" -> IF Len(fr.rest) = 0 THEN Ret(m1, fr.keep)
                          ELSE Ev(Push(m1, [fr EXCEPT !.rest = Tail(fr.rest)]), fr.rest[1], fr.env)
    [] fr.k = "and" -> IF Len(fr.rest) = 0 THEN RetVs(m1, m.val) ELSE IF ~IsTrue(v) THEN Ret(m1, Nil)      \* the last form gives all its values
                       ELSE Ev(Push(m1, [fr EXCEPT !.rest = Tail(fr.rest)]), fr.rest[1], fr.env)
    [] fr.k = "or" -> IF Len(fr.rest) = 0 THEN RetVs(m1, m.val) ELSE IF IsTrue(v) THEN Ret(m1, v)
                      ELSE Ev(Push(m1, [fr EXCEPT !.rest = Tail(fr.rest)]), fr.rest[1], fr.env)
    [] fr.k = "if" -> Ev(m1, IF IsTrue(v) THEN fr.a ELSE fr.b, fr.env)
    [] fr.k = "when" -> IF IsTrue(v) THEN Body(m1, fr.body, fr.env) ELSE Ret(m1, Nil)
    [] fr.k = "unless" -> IF IsTrue(v) THEN Ret(m1, Nil) ELSE Body(m1, fr.body, fr.env)
    [] fr.k = "cond" -> IF IsTrue(v)
                        THEN (IF Len(fr.cs[1].body) = 0 THEN Ret(m1, v) ELSE Body(m1, fr.cs[1].body, fr.env))
                        ELSE IF Len(fr.cs) = 1 THEN Ret(m1, Nil)
                        ELSE Ev(Push(m1, [fr EXCEPT !.cs = Tail(fr.cs)]), fr.cs[2].c, fr.env)
    [] fr.k = "case" -> LET hit == SelectSeq(fr.cs, LAMBDA c : c.dflt \/ \E j \in 1..Len(c.keys) : c.keys[j] = v) IN
                        IF hit = <<>> THEN (IF fr.strict THEN Err(m1, "type-error") ELSE Ret(m1, Nil))   \* ecase
                        ELSE Body(m1, hit[1].body, fr.env)
    [] fr.k = "tcase" -> LET hit == SelectSeq(fr.cs, LAMBDA c : TypeMatch(c.type, v)) IN
                         IF hit = <<>> THEN (IF fr.strict THEN Err(m1, "type-error") ELSE Ret(m1, Nil))   \* etypecase
                         ELSE Body(m1, hit[1].body, fr.env)
    [] fr.k = "setqs" -> LET m2 == [m1 EXCEPT !.heap = Set(m.heap, fr.env, fr.ps[fr.i].n, v)] IN
                         IF fr.i = Len(fr.ps) THEN Ret(m2, v)
                         ELSE Ev(Push(m2, [fr EXCEPT !.i = fr.i + 1]), fr.ps[fr.i + 1].e, fr.env)
    [] fr.k = "withlock0" -> IF v.k # "res" THEN Err(m1, "type-error")
                             ELSE Body(Push([m1 EXCEPT !.res[v.id] = TRUE], [k |-> "res", id |-> v.id]), fr.body, fr.env)
    [] fr.k = "res" -> RetVs([m1 EXCEPT !.res[fr.id] = FALSE], m.val)          \* released on the normal path
    [] fr.k = "held" -> Ret(m1, IF v.k = "res" THEN Bool(m.res[v.id]) ELSE Nil)
    [] fr.k = "closeres" -> IF v.k = "res" THEN Ret([m1 EXCEPT !.res[v.id] = FALSE], Bool(TRUE)) ELSE Err(m1, "type-error")
    [] fr.k = "mark" -> Ret([m1 EXCEPT !.out = Append(m.out, [id |-> fr.id, v |-> v])], v)
    [] fr.k \in {"block", "fnbody", "ignerr"} -> RetVs(m1, m.val)
    [] fr.k = "retfrom" -> LET tgt == LexId(m, fr.env, "#b:" \o fr.name) IN
                           IF tgt = 0 THEN Err(m1, "control-error") ELSE Exit(m1, "return", tgt, "", m.val)   \* all the values
    [] fr.k = "protect" -> Body(Push(m1, [k |-> "after-cleanup", pending |-> FALSE, vals |-> m.val, ex |-> m.ex]), fr.cleanup, fr.env)
    [] fr.k = "after-cleanup" -> IF fr.pending THEN [m1 EXCEPT !.mode = "exit", !.ex = fr.ex] ELSE RetVs(m1, fr.vals)
    [] fr.k = "tagbody" -> IF fr.i >= Len(fr.stmts) THEN Ret(m1, Nil)
                           ELSE Ev(Push(m1, [fr EXCEPT !.i = fr.i + 1]), TagStmt(fr.stmts[fr.i + 1].e), fr.env)
    [] fr.k = "bin1" -> Ev(Push(m1, [k |-> "bin2", op |-> fr.op, a |-> v]), fr.b, fr.env)
    \* (a nested CASE must be parenthesised: following [] arms would otherwise be read as its arms)
    [] fr.k = "bin2" -> (CASE fr.op \in {"add", "sub", "lt", "eq", "trunc"} /\ ~(IsInt(fr.a) /\ IsInt(v)) -> Err(m1, "type-error")
                          [] fr.op = "add" -> Ret(m1, IntV(fr.a.v + v.v))
                          [] fr.op = "sub" -> Ret(m1, IntV(fr.a.v - v.v))
                          [] fr.op = "lt" -> Ret(m1, Bool(fr.a.v < v.v))
                          [] fr.op = "trunc" -> IF v.v = 0 THEN Err(m1, "division-by-zero")     \* (truncate a b): two values
                                                ELSE RetVs(m1, <<IntV(TruncQ(fr.a.v, v.v)), IntV(fr.a.v - TruncQ(fr.a.v, v.v) * v.v)>>)
                          [] fr.op = "eq" -> Ret(m1, Bool(fr.a.v = v.v))                               \* rendered as (= a b)
                          [] fr.op = "cons" -> Ret(m1, ListV(<<fr.a>> \o Elts(v)))
                          [] OTHER -> Err(m1, "machine-stuck-at-operator-" \o fr.op))
    [] fr.k = "un" -> LET es == Elts(v) IN
                      IF v.k \notin {"nil", "list"} THEN Err(m1, "type-error")
                      ELSE IF fr.op = "car" THEN Ret(m1, IF es = <<>> THEN Nil ELSE es[1])
                      ELSE Ret(m1, IF Len(es) <= 1 THEN Nil ELSE ListV(Tail(es)))
    [] fr.k = "args" -> LET acc == Append(fr.acc, v) IN
                        IF Len(fr.rest) = 0 THEN (IF fr.op = "list" THEN Ret(m1, ListV(acc))
                                                  ELSE IF fr.op = "vector" THEN Ret(NewFrame(m1, 0, [j \in 1..Len(acc) |-> [n |-> Idx(j - 1), v |-> acc[j]]]), [k |-> "vec", id |-> Len(m.heap) + 1])
                                                  ELSE RetVs(m1, acc))
                        ELSE Ev(Push(m1, [fr EXCEPT !.rest = Tail(fr.rest), !.acc = acc]), fr.rest[1], fr.env)
    [] fr.k = "let" -> LET acc == Append(fr.acc, [n |-> fr.bs[fr.i].n, v |-> v]) IN
                       IF fr.i = Len(fr.bs)
                       THEN Body(NewFrame(m1, fr.env, acc), fr.body, Len(m.heap) + 1)
                       ELSE Ev(Push(m1, [fr EXCEPT !.i = fr.i + 1, !.acc = acc]), fr.bs[fr.i+1].e, fr.env)
    [] fr.k = "letx" -> LET h2 == [m.heap EXCEPT ![fr.env].vars = Append(@, [n |-> fr.bs[fr.i].n, v |-> v])]
                            m2 == [m1 EXCEPT !.heap = h2] IN
                        IF fr.i = Len(fr.bs) THEN Body(m2, fr.body, fr.env)
                        ELSE Ev(Push(m2, [fr EXCEPT !.i = fr.i + 1]), fr.bs[fr.i+1].e, fr.env)
    [] fr.k = "mvb" -> Body(NewFrame(m1, fr.env, Bindings(fr.vars, m.val)), fr.body, Len(m.heap) + 1)
    [] fr.k = "fc" -> LET f == IF fr.i = 0 THEN v ELSE fr.f
                          acc == IF fr.i = 0 THEN <<>> ELSE Append(fr.acc, v) IN
                      IF fr.i = Len(fr.args)
                      THEN \* apply spreads its last argument
                           Apply(m1, f, IF fr.spread /\ acc # <<>> THEN SubSeq(acc, 1, Len(acc) - 1) \o Elts(acc[Len(acc)]) ELSE acc, fr.env)
                      ELSE Ev(Push(m1, [fr EXCEPT !.i = fr.i + 1, !.f = f, !.acc = acc]), fr.args[fr.i+1], fr.env)
    [] fr.k = "call" -> LET acc == Append(fr.acc, v) IN
                        IF fr.i = Len(fr.args) THEN Apply(m1, [k |-> "fn", name |-> fr.f], acc, fr.env)
                        ELSE Ev(Push(m1, [fr EXCEPT !.i = fr.i + 1, !.acc = acc]), fr.args[fr.i+1], fr.env)
    [] fr.k = "map1" -> Ev(Push(m1, [k |-> "map2", op |-> fr.op, f |-> v, env |-> fr.env]), fr.l, fr.env)
    \* mapcar / mapc / mapcan call the function on the elements, maplist on the list and its tails
    [] fr.k = "map2" -> LET es == IF fr.op = "maplist" THEN Tails(Elts(v)) ELSE Elts(v) IN
                        IF es = <<>> /\ fr.op = "every" THEN Ret(m1, T)
                        ELSE IF es = <<>> /\ fr.op = "countif" THEN Ret(m1, IntV(0))
                        ELSE IF es = <<>> THEN Ret(m1, Nil)
                        ELSE Apply(Push(m1, [k |-> "map3", op |-> fr.op, orig |-> v, f |-> fr.f, rest |-> Tail(es), acc |-> <<>>, cur |-> es[1], env |-> fr.env]), fr.f, <<es[1]>>, fr.env)
    [] fr.k = "map3" -> MapStep(m1, fr, v)
    [] fr.k = "psetq" -> LET acc == Append(fr.acc, v) IN
                         IF fr.i = Len(fr.ps)
                         THEN LET RECURSIVE SetP(_, _)
                                  SetP(h, j) == IF j > Len(fr.ps) THEN h ELSE SetP(Set(h, fr.env, fr.ps[j].n, acc[j]), j + 1) IN
                              \* named deviation "psetq-value" (open finding C01-F5): the value of the last form instead of nil
                              Ret([m1 EXCEPT !.heap = SetP(m.heap, 1)], IF "psetq-value" \in m.dev THEN acc[Len(acc)] ELSE Nil)
                         ELSE Ev(Push(m1, [fr EXCEPT !.i = fr.i + 1, !.acc = acc]), fr.ps[fr.i + 1].e, fr.env)
    \* (multiple-value-setq (a b) form): variables without a value get nil; the value is the primary value
    [] fr.k = "mvsetq" -> LET RECURSIVE SetV(_, _)
                              SetV(h, j) == IF j > Len(fr.vars) THEN h
                                            ELSE SetV(Set(h, fr.env, fr.vars[j], IF j <= Len(m.val) THEN m.val[j] ELSE Nil), j + 1) IN
                          Ret([m1 EXCEPT !.heap = SetV(m.heap, 1)], v)
    [] fr.k = "mvlist" -> Ret(m1, ListV(m.val))
    [] fr.k = "nthv" -> Ret(m1, IF fr.i + 1 <= Len(m.val) THEN m.val[fr.i + 1] ELSE Nil)
    [] fr.k = "mvp1a" -> IF Len(fr.rest) = 0 THEN RetVs(m1, m.val)
                         ELSE Ev(Push(m1, [k |-> "mvp1b", keep |-> m.val, rest |-> Tail(fr.rest), env |-> fr.env]), fr.rest[1], fr.env)
    [] fr.k = "mvp1b" -> IF Len(fr.rest) = 0 THEN RetVs(m1, fr.keep)
                         ELSE Ev(Push(m1, [fr EXCEPT !.rest = Tail(fr.rest)]), fr.rest[1], fr.env)
    [] fr.k = "mvc" -> LET f == IF fr.i = 0 THEN v ELSE fr.f
                           acc == IF fr.i = 0 THEN <<>> ELSE fr.acc \o m.val IN
                       IF fr.i = Len(fr.args) THEN Apply(m1, f, acc, fr.env)
                       ELSE Ev(Push(m1, [fr EXCEPT !.i = fr.i + 1, !.f = f, !.acc = acc]), fr.args[fr.i+1], fr.env)
    [] fr.k = "aref" -> IF v.k # "vec" THEN Err(m1, "type-error")
                        ELSE IF fr.i >= Len(m.heap[v.id].vars) THEN Err(m1, "error") ELSE Ret(m1, m.heap[v.id].vars[fr.i + 1].v)
    [] fr.k = "setaref1" -> Ev(Push(m1, [k |-> "setaref2", i |-> fr.i, vec |-> v]), fr.e, fr.env)      \* the vector form first, then the new value
    [] fr.k = "setaref2" -> IF fr.vec.k # "vec" THEN Err(m1, "type-error")
                            ELSE IF fr.i >= Len(m.heap[fr.vec.id].vars) THEN Err(m1, "error")
                            ELSE Ret([m1 EXCEPT !.heap[fr.vec.id].vars[fr.i + 1].v = v], v)
    [] fr.k = "sloop" -> Body(Push(m1, fr), fr.body, fr.env)
    [] fr.k = "recover" -> RetVs(m1, m.val)
    [] fr.k = "incf" -> LET cur == Get(m.heap, fr.env, fr.n) IN
                        IF cur.k = "unbound" THEN Err(m1, "unbound-variable")
                        ELSE IF ~(IsInt(cur) /\ IsInt(v)) THEN Err(m1, "type-error")
                        ELSE Ret([m1 EXCEPT !.heap = Set(m.heap, fr.env, fr.n, IntV(cur.v + fr.sign * v.v))], IntV(cur.v + fr.sign * v.v))
    [] fr.k = "push" -> LET cur == Get(m.heap, fr.env, fr.n) IN
                        IF cur.k = "unbound" THEN Err(m1, "unbound-variable")
                        ELSE IF cur.k \notin {"nil", "list"} THEN Err(m1, "type-error")
                        ELSE Ret([m1 EXCEPT !.heap = Set(m.heap, fr.env, fr.n, ListV(<<v>> \o Elts(cur)))], ListV(<<v>> \o Elts(cur)))
    [] fr.k = "dolist0" -> LoopNext(BlockEnter(m1, "nil", fr.env),
                                    [k |-> "loop", var |-> fr.var, items |-> Elts(v), last |-> Nil, res |-> fr.res, body |-> fr.body, env |-> Len(m.heap) + 1])
    [] fr.k = "dotimes0" -> LET c == IF v.k = "int" THEN v.v ELSE 0 IN
                            LoopNext(BlockEnter(m1, "nil", fr.env),
                                     [k |-> "loop", var |-> fr.var, items |-> Upto(0, c), last |-> IntV(IF c < 0 THEN 0 ELSE c), res |-> fr.res, body |-> fr.body, env |-> Len(m.heap) + 1])
    [] fr.k = "loop" -> LoopNext(m1, fr)
    [] fr.k = "loopres" -> RetVs(m1, m.val)           \* then the implicit block frame returns it
    [] fr.k = "doinit" ->
         LET n == fr.n  acc == Append(fr.acc, v) IN
         IF n.star
         THEN LET h2 == [m.heap EXCEPT ![fr.env].vars = Append(@, [n |-> n.vars[fr.i].n, v |-> v])]
                  m2 == [m1 EXCEPT !.heap = h2] IN
              IF fr.i = Len(n.vars) THEN Ev(Push(m2, [k |-> "dotest", n |-> n, env |-> fr.env]), n.test, fr.env)
              ELSE Ev(Push(m2, [fr EXCEPT !.i = fr.i + 1]), n.vars[fr.i + 1].init, fr.env)
         ELSE IF fr.i = Len(n.vars)
              THEN LET m2 == NewFrame(m1, fr.outer, DoVarsFrame(n, acc)) IN
                   Ev(Push(m2, [k |-> "dotest", n |-> n, env |-> Top(m2)]), n.test, Top(m2))
              ELSE Ev(Push(m1, [fr EXCEPT !.i = fr.i + 1, !.acc = acc]), n.vars[fr.i + 1].init, fr.outer)
    [] fr.k = "dotest" -> IF IsTrue(v) THEN Body(m1, fr.n.res, fr.env)     \* values of the result forms leave through the block frame
                          ELSE LoopBody(Push(m1, [k |-> "dobody", n |-> fr.n, env |-> fr.env]), fr.n.body, fr.env)
    [] fr.k = "dobody" -> IF Len(fr.n.vars) = 0 THEN Ev(Push(m1, [k |-> "dotest", n |-> fr.n, env |-> fr.env]), fr.n.test, fr.env)
                          ELSE Ev(Push(m1, [k |-> "dostep", n |-> fr.n, i |-> 1, acc |-> <<>>, env |-> fr.env]), fr.n.vars[1].step, fr.env)
    [] fr.k = "dostep" ->
         LET n == fr.n  acc == Append(fr.acc, v) IN
         IF n.star
         THEN LET m2 == [m1 EXCEPT !.heap = Set(m.heap, fr.env, n.vars[fr.i].n, v)] IN
              IF fr.i = Len(n.vars) THEN Ev(Push(m2, [k |-> "dotest", n |-> n, env |-> fr.env]), n.test, fr.env)
              ELSE Ev(Push(m2, [fr EXCEPT !.i = fr.i + 1]), n.vars[fr.i + 1].step, fr.env)
         ELSE IF fr.i = Len(n.vars)
              THEN \* parallel assignment of all step values
                   LET RECURSIVE SetAll(_, _)
                       SetAll(h, j) == IF j > Len(n.vars) THEN h ELSE SetAll(Set(h, fr.env, n.vars[j].n, acc[j]), j + 1)
                       m2 == [m1 EXCEPT !.heap = SetAll(m.heap, 1)] IN
                   Ev(Push(m2, [k |-> "dotest", n |-> n, env |-> fr.env]), n.test, fr.env)
              ELSE Ev(Push(m1, [fr EXCEPT !.i = fr.i + 1, !.acc = acc]), n.vars[fr.i + 1].step, fr.env)
    [] OTHER -> Err(m1, "machine-stuck-at-frame-" \o fr.k)

\* index of statement carrying the tag
TagIndex(stmts, tag) == CHOOSE j \in 1..Len(stmts) : stmts[j].tag = tag
StepExit(m) ==
  IF Len(m.kont) = 0 THEN [m EXCEPT !.halted = TRUE, !.mode = "ret", !.val = One([k |-> "err", c |-> m.ex.tag])]
  ELSE LET fr == m.kont[1]  m1 == Pop(m)  x == m.ex IN
  IF fr.k = "block" /\ x.kind = "return" /\ fr.id = x.target THEN RetVs(m1, x.val)
  ELSE IF fr.k = "tagbody" /\ x.kind = "go" /\ fr.id = x.target
       THEN LET j == TagIndex(fr.stmts, x.tag) IN Ev(Push(m1, [fr EXCEPT !.i = j]), TagStmt(fr.stmts[j].e), fr.env)
  ELSE IF fr.k = "ignerr" /\ x.kind = "error" THEN Ret(m1, Nil)
  ELSE IF fr.k = "recover" /\ x.kind = "error"
       THEN LET m2 == NewFrame([m1 EXCEPT !.mode = "eval"], fr.env, <<[n |-> fr.var, v |-> [k |-> "cond", c |-> x.tag]]>>) IN Ev(m2, fr.on, Top(m2))
  ELSE IF fr.k = "res" THEN [m1 EXCEPT !.res[fr.id] = FALSE]                  \* released on the way out
  \* named deviation "exit-as-value" (open finding C07-F10): every, find-if, count-if and remove-if take the marker of a
  \* return-from / return / go that comes out of their function for its (true) value and go on
  ELSE IF fr.k = "map3" /\ fr.op \in {"every", "findif", "countif", "removeif"} /\ x.kind \in {"return", "go"} /\ "exit-as-value" \in m.dev
       THEN MapStep([m1 EXCEPT !.mode = "ret"], fr, T)
  ELSE IF fr.k = "protect"
       THEN Body(Push([m1 EXCEPT !.mode = "eval"], [k |-> "after-cleanup", pending |-> TRUE, vals |-> <<>>, ex |-> x]), fr.cleanup, fr.env)
  ELSE m1
Step(m) == IF m.mode = "eval" THEN StepEval(m) ELSE IF m.mode = "exit" THEN StepExit(m) ELSE StepRet(m)
RECURSIVE RunToMark(_,_)
RunToMark(m, n) == IF m.halted \/ Len(m.out) > n THEN m ELSE RunToMark(Step(m), n)
NoExit == [kind |-> "", target |-> 0, tag |-> "", val |-> <<>>]
LoadD(defs, ast, dev) == [mode |-> "eval", node |-> ast, val |-> One(Nil), env |-> 1, kont |-> <<>>, defs |-> defs,
                    heap |-> << [parent |-> 0, vars |-> <<>>, dyn |-> 0] >>, out |-> <<>>, halted |-> FALSE, nid |-> 1, ex |-> NoExit, res |-> <<>>,
                    dev |-> dev]
Load(defs, ast) == LoadD(defs, ast, {})
=============================================================================
