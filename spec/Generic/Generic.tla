------------------------------ MODULE Generic ------------------------------
(***************************************************************************)
(* C10 - generic dispatch equals the specification and is unaffected by    *)
(* its cache.                                                              *)
(*                                                                         *)
(* Reference: the method table is a set of <<qualifier, specializers>>;    *)
(* a call runs all applicable :around methods most specific first (each    *)
(* continuing with call-next-method), then all :before methods most        *)
(* specific first, the most specific primary, then all :after methods      *)
(* least specific first.  Specificity is lexicographic over the argument   *)
(* positions, each argument by the precedence list of its class.  The      *)
(* reference has no cache: what a call runs depends on the table at that   *)
(* moment only.  Calls are part of the explored state (`called`) because   *)
(* in the implementation they populate a cache.                            *)
(***************************************************************************)
EXTENDS Integers, Sequences, FiniteSets, TLC, Json
CONSTANTS MaxOps, Arity
Quals == {"primary", "before", "after", "around"}
Classes == <<"k1", "k2", "k3", "t">>            \* k1 < k2 < k3 < t
ArgCls == {"k1", "k2", "k3"}
CPL(c) == IF c = "k1" THEN <<"k1", "k2", "k3", "t">> ELSE IF c = "k2" THEN <<"k2", "k3", "t">> ELSE <<"k3", "t">>
Specs == [1..Arity -> {"k1", "k2", "k3", "t"}]
Args == [1..Arity -> ArgCls]
VARIABLES meths, called, hist, feat

\* all specializer tuples applicable to the argument classes, most specific first
RECURSIVE Tuples(_, _)
Tuples(args, i) == IF i > Arity THEN << <<>> >>
                   ELSE LET rest == Tuples(args, i + 1)  cpl == CPL(args[i]) IN
                        [j \in 1..(Len(cpl) * Len(rest)) |->
                           <<cpl[((j - 1) \div Len(rest)) + 1]>> \o rest[((j - 1) % Len(rest)) + 1]]
Ordered(args) == Tuples(args, 1)
Sel(args, q) == SelectSeq(Ordered(args), LAMBDA sp : <<q, sp>> \in meths)
Rev(s) == [i \in 1..Len(s) |-> s[Len(s) + 1 - i]]
RECURSIVE Join(_)
Join(sp) == IF Len(sp) = 1 THEN sp[1] ELSE sp[1] \o "," \o Join(Tail(sp))
Tag(sp, q) == Join(sp) \o ":" \o q
Effective(args) ==
  LET ar == Sel(args, "around")  bs == Sel(args, "before")  ps == Sel(args, "primary")  as == Rev(Sel(args, "after"))
      inner == [i \in 1..Len(bs) |-> Tag(bs[i], "before")]
               \o (IF ps = <<>> THEN <<>> ELSE <<Tag(ps[1], "primary")>>)
               \o [i \in 1..Len(as) |-> Tag(as[i], "after")]
  IN [i \in 1..Len(ar) |-> Tag(ar[i], "in")] \o inner \o [i \in 1..Len(ar) |-> Tag(Rev(ar)[i], "out")]
Applicable(args) == \E q \in Quals : Sel(args, q) # <<>>
HasPrimary(args) == Sel(args, "primary") # <<>>

CallFeatures(args) == (IF Len(Sel(args, "around")) >= 2 THEN {"two-arounds"} ELSE {})

Init == meths = {} /\ called = {} /\ hist = <<>> /\ feat = {}
Def(q, sp) == /\ <<q, sp>> \notin meths /\ meths' = meths \cup {<<q, sp>>} /\ called' = called /\ feat' = feat
              /\ hist' = Append(hist, [op |-> "def", q |-> q, s |-> sp, exp |-> <<>>, app |-> TRUE, prim |-> TRUE])
Rem(q, sp) == /\ <<q, sp>> \in meths /\ meths' = meths \ {<<q, sp>>} /\ called' = called /\ feat' = feat
              /\ hist' = Append(hist, [op |-> "rem", q |-> q, s |-> sp, exp |-> <<>>, app |-> TRUE, prim |-> TRUE])
Call(args) == /\ meths' = meths /\ called' = called \cup {args}
              /\ feat' = feat \cup CallFeatures(args)
              /\ hist' = Append(hist, [op |-> "call", q |-> "", s |-> args, exp |-> Effective(args),
                                        app |-> Applicable(args), prim |-> HasPrimary(args)])
Next == /\ Len(hist) < MaxOps
        /\ \/ \E q \in Quals, sp \in Specs : Def(q, sp) \/ Rem(q, sp)
           \/ \E a \in Args : Call(a)
Emit == PrintT(ToJson([hist |-> hist', feat |-> feat']))
View == <<meths, called>>
\* the reference agrees with itself: the most specific applicable primary is first in every ordering
OrderOK == \A a \in Args : LET o == Ordered(a) IN Len(o) > 0 /\ o[1] = a
=============================================================================
