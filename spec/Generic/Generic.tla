------------------------------ MODULE Generic ------------------------------
(***************************************************************************)
(* C10 - generic dispatch equals the specification and is unaffected by    *)
(* its cache.                                                              *)
(*                                                                         *)
(* Reference (variable meths): the method table maps <<qualifier,          *)
(* specializers>> to the version of the body last defined.  A call runs    *)
(* all applicable :around methods most specific first (each continuing     *)
(* with call-next-method; version 2 of an :around body does not continue), *)
(* then all :before methods most specific first, the most specific         *)
(* primary, then all :after methods least specific first.  Specificity is  *)
(* lexicographic over the argument positions, each argument by the         *)
(* precedence list of its class.  What a call runs depends on the table at *)
(* that moment only.                                                       *)
(*                                                                         *)
(* Implementation-shaped part (variables cache, dflt): what Aux keeps -    *)
(* effective methods cached by argument class tuple, cleared by every      *)
(* defmethod / remove-method, and the single-method fast path.  TLC checks *)
(* CacheCoherent: the design "clear on every change" makes the cached      *)
(* effective method equal to the reference for every reachable state.      *)
(*                                                                         *)
(* Ghost variable shadow: what each argument class tuple ran when it was   *)
(* last called (never cleared).  It is part of the VIEW, so that two       *)
(* histories that reach the same table but called before / after a         *)
(* definition are different states and both get tested: an implementation  *)
(* that fails to invalidate exactly differs on those.                      *)
(***************************************************************************)
EXTENDS Integers, Sequences, FiniteSets, TLC, Json
CONSTANTS MaxOps, Arity, EmitFrom
Quals == {"primary", "before", "after", "around"}
ArgCls == {"k1", "k2", "k3"}                       \* k1 < k2 < k3 < t
CPL(c) == IF c = "k1" THEN <<"k1", "k2", "k3", "t">> ELSE IF c = "k2" THEN <<"k2", "k3", "t">> ELSE <<"k3", "t">>
Specs == [1..Arity -> {"k1", "k2", "k3", "t"}]
Args == [1..Arity -> ArgCls]
VARIABLES meths,    \* set of <<qualifier, specializers, version>>, at most one version per key
          cache,    \* implementation: set of <<args, effective trace>>, at most one per args
          dflt,     \* implementation: TRUE iff the single-method fast path is armed
          shadow,   \* ghost: set of <<args, trace at the last call>>, at most one per args
                    \* (sets of pairs, not functions: TLC cannot spill lazily built function values to disk)
          hist
vars == <<meths, cache, dflt, shadow, hist>>

Has(q, sp) == \E v \in 1..2 : <<q, sp, v>> \in meths
Ver(q, sp) == CHOOSE v \in 1..2 : <<q, sp, v>> \in meths
\* all specializer tuples applicable to the argument classes, most specific first (leftmost argument most significant)
RECURSIVE Tuples(_, _)
Tuples(args, i) == IF i > Arity THEN << <<>> >>
                   ELSE LET rest == Tuples(args, i + 1)  cpl == CPL(args[i]) IN
                        [j \in 1..(Len(cpl) * Len(rest)) |->
                           <<cpl[((j - 1) \div Len(rest)) + 1]>> \o rest[((j - 1) % Len(rest)) + 1]]
Ordered(args) == Tuples(args, 1)
Sel(args, q) == SelectSeq(Ordered(args), LAMBDA sp : Has(q, sp))
Rev(s) == [i \in 1..Len(s) |-> s[Len(s) + 1 - i]]
RECURSIVE Join(_)
Join(sp) == IF Len(sp) = 1 THEN sp[1] ELSE sp[1] \o "," \o Join(Tail(sp))
VS(v) == IF v = 1 THEN "1" ELSE "2"
Tag(sp, q, what) == Join(sp) \o ":" \o what \o ":" \o VS(Ver(q, sp))
Inner(args) ==
  LET bs == Sel(args, "before")  ps == Sel(args, "primary")  as == Rev(Sel(args, "after")) IN
      [i \in 1..Len(bs) |-> Tag(bs[i], "before", "before")]
      \o (IF ps = <<>> THEN <<>> ELSE <<Tag(ps[1], "primary", "primary")>>)
      \o [i \in 1..Len(as) |-> Tag(as[i], "after", "after")]
\* index of the first :around that does not continue, or 0
FirstStop(ar) == IF \E i \in 1..Len(ar) : Ver("around", ar[i]) = 2
                 THEN CHOOSE i \in 1..Len(ar) : Ver("around", ar[i]) = 2 /\ \A j \in 1..(i - 1) : Ver("around", ar[j]) = 1
                 ELSE 0
Effective(args) ==
  LET ar == Sel(args, "around")
      k  == FirstStop(ar)
      n  == IF k = 0 THEN Len(ar) ELSE k - 1
      ins  == [i \in 1..n |-> Tag(ar[i], "around", "in")]
      outs == [i \in 1..n |-> Tag(ar[n + 1 - i], "around", "out")]
  IN ins \o (IF k = 0 THEN Inner(args) ELSE <<Tag(ar[k], "around", "stop")>>) \o outs
\* A second reading of the method bodies (the harness writes them this way for the histories it runs in its "retry" profile):
\* version 1 of a primary announces itself and then signals an error (version 2 does not); version 1 of an :around body calls call-next-method
\* inside ignore-errors, announces "mid", and calls call-next-method again: the next method is the same both times, also after
\* the first call was left through an error.  Retry(ar, i, args) = [tr, ok] of running the :around methods from the i-th on.
InnerE(args) ==
  LET bs == Sel(args, "before")  ps == Sel(args, "primary")  as == Rev(Sel(args, "after"))
      fails == ps # <<>> /\ Ver("primary", ps[1]) = 1 IN
  [tr |-> [i \in 1..Len(bs) |-> Tag(bs[i], "before", "before")]
          \o (IF ps = <<>> THEN <<>> ELSE <<Tag(ps[1], "primary", "primary")>>)
          \o (IF fails THEN <<>> ELSE [i \in 1..Len(as) |-> Tag(as[i], "after", "after")]),
   ok |-> ~fails]
RECURSIVE Retry(_, _, _)
Retry(ar, i, args) ==
  IF i > Len(ar) THEN InnerE(args)
  ELSE IF Ver("around", ar[i]) = 2 THEN [tr |-> <<Tag(ar[i], "around", "stop")>>, ok |-> TRUE]
  ELSE LET r == Retry(ar, i + 1, args) IN
       [tr |-> <<Tag(ar[i], "around", "in")>> \o r.tr \o <<Tag(ar[i], "around", "mid")>> \o r.tr
               \o (IF r.ok THEN <<Tag(ar[i], "around", "out")>> ELSE <<>>),
        ok |-> r.ok]
EffectiveRetry(args) == Retry(Sel(args, "around"), 1, args)
Applicable(args) == \E q \in Quals : Sel(args, q) # <<>>
\* the outcome is determined by the statement when a primary is applicable, or when an :around stops before it
Determined(args) == Sel(args, "primary") # <<>> \/ FirstStop(Sel(args, "around")) # 0

\* ---- implementation-shaped: Aux.Call / addMethodCaller / remove-method ------------------------------------
TopKey == [i \in 1..Arity |-> "t"]
DfltArmed(m) == Cardinality({<<x[1], x[2]>> : x \in m}) = 1 /\ \E v \in 1..2 : <<"primary", TopKey, v>> \in m
Cached(c, args) == \E x \in c : x[1] = args
Get(c, args) == (CHOOSE x \in c : x[1] = args)[2]
Put(c, args, tr) == {x \in c : x[1] # args} \cup {<<args, tr>>}
ImplCall(args) == IF Cached(cache, args) THEN Get(cache, args) ELSE Effective(args)

Init == /\ meths = {} /\ cache = {} /\ dflt = FALSE /\ shadow = {} /\ hist = <<>>
Def(q, sp) ==
    /\ meths' = IF Has(q, sp) THEN (meths \ {<<q, sp, Ver(q, sp)>>}) \cup {<<q, sp, 3 - Ver(q, sp)>>}
                ELSE meths \cup {<<q, sp, 1>>}
    /\ cache' = {}                                                    \* cleared on every change
    /\ dflt' = DfltArmed(meths')
    /\ shadow' = shadow
    /\ hist' = Append(hist, [op |-> "def", q |-> q, s |-> sp, v |-> (IF Has(q, sp) THEN 3 - Ver(q, sp) ELSE 1),
                             exp |-> <<>>, app |-> TRUE, det |-> TRUE])
Rem(q, sp) ==
    /\ Has(q, sp)
    /\ meths' = meths \ {<<q, sp, Ver(q, sp)>>}
    /\ cache' = {}
    /\ dflt' = DfltArmed(meths')
    /\ shadow' = shadow
    /\ hist' = Append(hist, [op |-> "rem", q |-> q, s |-> sp, v |-> 0, exp |-> <<>>, app |-> TRUE, det |-> TRUE])
Call(args) ==
    /\ meths' = meths /\ dflt' = dflt
    /\ cache' = IF dflt \/ ~Applicable(args) THEN cache ELSE Put(cache, args, ImplCall(args))
    /\ shadow' = Put(shadow, args, Effective(args))
    /\ hist' = Append(hist, [op |-> "call", q |-> "", s |-> args, v |-> 0, exp |-> Effective(args),
                             app |-> Applicable(args), det |-> Determined(args),
                             exp2 |-> EffectiveRetry(args).tr, ok2 |-> EffectiveRetry(args).ok])
Next == /\ Len(hist) < MaxOps
        /\ \/ \E q \in Quals, sp \in Specs : Def(q, sp) \/ Rem(q, sp)
           \/ \E a \in Args : Call(a)
Emit == Len(hist') < EmitFrom \/ PrintT(ToJson([hist |-> hist']))
EmitState == Len(hist) < EmitFrom \/ PrintT(ToJson([hist |-> hist]))
View == <<meths, shadow>>
\* ---- design checks ---------------------------------------------------------------------------------------
OrderOK == \A a \in Args : LET o == Ordered(a) IN Len(o) > 0 /\ o[1] = a /\ o[Len(o)] = TopKey
\* the cached effective method always equals the reference (what the clear-on-change design guarantees)
CacheCoherent == \A x \in cache : x[2] = Effective(x[1])
\* the fast path is armed only when running the single primary is what the reference runs for every argument
DfltSound == dflt => \A a \in Args : Effective(a) = <<Tag(TopKey, "primary", "primary")>>
=============================================================================
