CONSTANTS
 MaxOps = 4
 Arity = 1
 EmitFrom = 0
INIT Init
NEXT Next
VIEW View
INVARIANT OrderOK
INVARIANT CacheCoherent
INVARIANT DfltSound
ACTION_CONSTRAINT Emit
CHECK_DEADLOCK FALSE
