CONSTANTS
 MaxOps = 4
 Arity = 1
INIT Init
NEXT Next
VIEW View
INVARIANT OrderOK
ACTION_CONSTRAINT Emit
CHECK_DEADLOCK FALSE
