CONSTANTS
 MaxOps = 14
 Arity = 2
 EmitFrom = 14
INIT Init
NEXT Next
INVARIANT EmitState
CHECK_DEADLOCK FALSE
