CONSTANTS
 NF = 4
 MaxOps = 5
 MaxComps = 2
 VarKinds = {"", "var"}
 EmitFrom = 0
INIT Init
NEXT Next
VIEW View
INVARIANT PrecOK
INVARIANT CompOrderOK
INVARIANT TraceOK
ACTION_CONSTRAINT Emit
CHECK_DEADLOCK FALSE
