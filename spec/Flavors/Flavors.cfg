CONSTANTS
 F = {"fa", "fb", "fc", "fd"}
 MaxOps = 5
 MaxComps = 2
INIT Init
NEXT Next
VIEW View
INVARIANT PrecOK
ACTION_CONSTRAINT Emit
CHECK_DEADLOCK FALSE
