------------------------------ MODULE Flavors ------------------------------
(***************************************************************************)
(* C11 - flavor inheritance and daemon order follow component order,       *)
(* whatever the history.                                                   *)
(*                                                                         *)
(* Reference, from the statement: precedence of a flavor = the flavor      *)
(* itself followed by its components depth-first as written in defflavor   *)
(* (a flavor already present is skipped).  Sending a message runs whoppers *)
(* outermost first, every :before daemon in precedence order, the first    *)
(* primary in that order, every :after daemon in reverse order.  All of it *)
(* is recomputed from the definitions, so the order in which the defining  *)
(* forms were evaluated cannot matter in the reference - that is the       *)
(* property.  TLC's interleavings of DefFlavor/DefMethod are the histories.*)
(***************************************************************************)
EXTENDS Integers, Sequences, FiniteSets, TLC, Json
CONSTANTS F,         \* flavor names
          MaxOps,    \* bound on the number of defining forms
          MaxComps   \* bound on the number of components of a flavor
Daemons == {"primary", "before", "after", "whopper"}
VARIABLES comps,    \* comps[f] : Seq(F), or Undef while f is not defined
          dm,       \* set of <<flavor, daemon>> defined for the message :m
          hist, feat
Undef == <<"undef">>
Defined(f) == comps[f] # Undef
Rng(s) == {s[i] : i \in 1..Len(s)}

RECURSIVE Visit(_, _)
RECURSIVE VisitAll(_, _)
Visit(f, acc) == IF f \in Rng(acc) THEN acc ELSE VisitAll(comps[f], Append(acc, f))
VisitAll(cs, acc) == IF cs = <<>> THEN acc ELSE VisitAll(Tail(cs), Visit(cs[1], acc))
Prec(f) == Visit(f, <<>>)

Has(f, d) == <<f, d>> \in dm
Sel(p, d) == SelectSeq(p, LAMBDA g : Has(g, d))
Rev(s) == [i \in 1..Len(s) |-> s[Len(s) + 1 - i]]
Tag(g, d) == g \o ":" \o d
SendTrace(f) ==
  LET p  == Prec(f)
      ws == Sel(p, "whopper")
      bs == Sel(p, "before")
      ps == Sel(p, "primary")
      as == Rev(Sel(p, "after"))
      inner == [i \in 1..Len(bs) |-> Tag(bs[i], "before")]
               \o (IF ps = <<>> THEN <<>> ELSE <<Tag(ps[1], "primary")>>)
               \o [i \in 1..Len(as) |-> Tag(as[i], "after")]
  IN [i \in 1..Len(ws) |-> Tag(ws[i], "win")] \o inner \o [i \in 1..Len(ws) |-> Tag(Rev(ws)[i], "wout")]
Handles(f) == \E g \in Rng(Prec(f)), d \in Daemons : Has(g, d)
HasPrimary(f) == Sel(Prec(f), "primary") # <<>>

\* ---- feature tags (constructs with a known defect of the implementation) ------------------
Inheritors(g) == {f \in F : Defined(f) /\ f # g /\ g \in Rng(Prec(f))}
Features(op, f, d) ==
  (IF op = "defmethod" /\ Inheritors(f) # {} THEN {"method-after-inheritor"} ELSE {})
  \cup (IF op = "defmethod" /\ d = "whopper" THEN {"whopper"} ELSE {})

Init == comps = [f \in F |-> Undef] /\ dm = {} /\ hist = <<>> /\ feat = {}
SeqsUpTo(S, n) == UNION {[1..k -> S] : k \in 0..n}
NoDup(s) == \A i, j \in 1..Len(s) : i # j => s[i] # s[j]
DefFlavor(f, cs) == /\ ~Defined(f) /\ NoDup(cs)
                    /\ \A i \in 1..Len(cs) : Defined(cs[i]) /\ cs[i] # f
                    /\ comps' = [comps EXCEPT ![f] = cs] /\ dm' = dm
                    /\ hist' = Append(hist, [op |-> "defflavor", f |-> f, cs |-> cs, d |-> ""])
                    /\ feat' = feat
DefMethod(f, d) == /\ Defined(f) /\ ~Has(f, d)
                   /\ dm' = dm \cup {<<f, d>>} /\ comps' = comps
                   /\ hist' = Append(hist, [op |-> "defmethod", f |-> f, cs |-> <<>>, d |-> d])
                   /\ feat' = feat \cup Features("defmethod", f, d)
Next == /\ Len(hist) < MaxOps
        /\ \/ \E f \in F, cs \in SeqsUpTo(F, MaxComps) : DefFlavor(f, cs)
           \/ \E f \in F, d \in Daemons : DefMethod(f, d)
\* what must be observed after the history, for every defined flavor
Expect == [f \in {g \in F : Defined(g)} |->
             [prec |-> Prec(f), handles |-> Handles(f), primary |-> HasPrimary(f), trace |-> SendTrace(f)]]
Emit == PrintT(ToJson([hist |-> hist', expect |-> Expect', feat |-> feat']))
View == <<comps, dm>>
\* properties of the reference itself
PrecOK == \A f \in F : Defined(f) => /\ Prec(f)[1] = f /\ NoDup(Prec(f))
                                     /\ \A i \in 1..Len(comps[f]) : comps[f][i] \in Rng(Prec(f))
=============================================================================
