------------------------------ MODULE Flavors ------------------------------
(***************************************************************************)
(* C11 - flavor inheritance and daemon order follow component order,       *)
(* whatever the history.                                                   *)
(*                                                                         *)
(* Reference, from the statement: precedence of a flavor = the flavor      *)
(* itself followed by its components depth-first as written in defflavor   *)
(* (a flavor already present is skipped).  Sending a message runs whoppers *)
(* outermost first, every :before daemon in precedence order, the first    *)
(* primary in that order, every :after daemon in reverse order.  Instance  *)
(* variable defaults, init keywords and gettable accessors are inherited   *)
(* by the same order.  All of it is recomputed from the definitions, so    *)
(* the order in which the defining forms were evaluated cannot matter in   *)
(* the reference - that is the property.  TLC's interleavings of           *)
(* DefFlavor/DefMethod are the histories.                                  *)
(***************************************************************************)
EXTENDS Integers, Sequences, FiniteSets, TLC, Json
CONSTANTS NF,        \* number of flavor names
          MaxOps,    \* bound on the number of defining forms
          MaxComps,  \* bound on the number of components of a flavor
          VarKinds,  \* how a flavor may declare the instance variable v: a subset of {"", "var", "bare"}
          EmitFrom   \* histories shorter than this are not printed (random walks print the deep end only)
Daemons == {"primary", "before", "after", "whopper"}
AllF == <<"fa", "fb", "fc", "fd", "fe", "ff", "fg", "fh">>
FSeq == SubSeq(AllF, 1, NF)
F == {FSeq[i] : i \in 1..NF}
VARIABLES comps,    \* comps[f] : Seq(F), or Undef while f is not defined
          hasvar,   \* hasvar[f]: "var" the flavor declares instance variable v with its own name as the default (gettable, initable),
                    \* "bare" it declares v without a default (the default is nil and it counts: a later component's default does not), "" no v
          dm,       \* set of <<flavor, daemon>> defined for the message :m
          hist, feat
Undef == <<"undef">>
Defined(f) == comps[f] # Undef
Rng(s) == {s[i] : i \in 1..Len(s)}

\* depth-first, components in the order written, a flavor already visited is skipped.  Written with an explicit
\* stack: TLC passes operator arguments unevaluated, and a doubly recursive Visit/VisitAll re-evaluates the
\* accumulated list at every use (exponential on dense component graphs - measured).
RECURSIVE DFS(_, _)
DFS(stack, acc) == IF stack = <<>> THEN acc
                   ELSE IF Head(stack) \in Rng(acc) THEN DFS(Tail(stack), acc)
                   ELSE DFS(comps[Head(stack)] \o Tail(stack), Append(acc, Head(stack)))
Prec(f) == DFS(<<f>>, <<>>)

Has(f, d) == <<f, d>> \in dm
Sel(p, d) == SelectSeq(p, LAMBDA g : Has(g, d))
Rev(s) == [i \in 1..Len(s) |-> s[Len(s) + 1 - i]]
Tag(g, d) == g \o ":" \o d
SendTrace(f) ==
  LET p  == Prec(f)
      ws == Sel(p, "whopper")
      bs == Sel(p, "before")
      ps == Sel(p, "primary")
      as == Rev(Sel(p, "after"))
      inner == [i \in 1..Len(bs) |-> Tag(bs[i], "before")]
               \o (IF ps = <<>> THEN <<>> ELSE <<Tag(ps[1], "primary")>>)
               \o [i \in 1..Len(as) |-> Tag(as[i], "after")]
  IN [i \in 1..Len(ws) |-> Tag(ws[i], "win")] \o inner \o [i \in 1..Len(ws) |-> Tag(Rev(ws)[i], "wout")]
Handles(f) == \E g \in Rng(Prec(f)), d \in Daemons : Has(g, d)
HasPrimary(f) == Sel(Prec(f), "primary") # <<>>
\* the default of v comes from the first flavor in precedence order that declares it
VarFrom(f) == LET vs == SelectSeq(Prec(f), LAMBDA g : hasvar[g] # "") IN IF vs = <<>> THEN "" ELSE vs[1]
\* The message :v is answered by the first flavor in precedence order that has a method for it: the accessor a flavor gets by
\* declaring v gettable, or a primary method (defmethod (g :v) ...) written by the user ("getv"; on the same flavor it replaces
\* the accessor, it is defined after the flavor).  "" nobody answers, "val" an accessor (the value of v), "user:g" the method of g.
GetV(f) == LET ps == SelectSeq(Prec(f), LAMBDA g : hasvar[g] # "" \/ Has(g, "getv")) IN
           IF ps = <<>> THEN "" ELSE IF Has(ps[1], "getv") THEN "user:" \o ps[1] ELSE "val"

\* ---- feature tags (constructs with a known defect of the implementation) ------------------
Inheritors(g) == {f \in F : Defined(f) /\ f # g /\ g \in Rng(Prec(f))}
Features(op, f, d) ==
  (IF op = "defmethod" /\ Inheritors(f) # {} THEN {"method-after-inheritor"} ELSE {})
  \cup (IF op = "defmethod" /\ d = "whopper" THEN {"whopper"} ELSE {})

Init == comps = [f \in F |-> Undef] /\ hasvar = [f \in F |-> ""] /\ dm = {} /\ hist = <<>> /\ feat = {}
SeqsUpTo(S, n) == UNION {[1..k -> S] : k \in 0..n}
NoDup(s) == \A i, j \in 1..Len(s) : i # j => s[i] # s[j]
DefFlavor(f, cs, hv) ==
    /\ ~Defined(f) /\ NoDup(cs)
    \* names are arbitrary: flavors are defined in the order fa, fb, ... (symmetry breaking, no loss of histories
    \* up to renaming)
    /\ f = FSeq[Cardinality({g \in F : Defined(g)}) + 1]
    /\ \A i \in 1..Len(cs) : Defined(cs[i]) /\ cs[i] # f
    /\ comps' = [comps EXCEPT ![f] = cs] /\ hasvar' = [hasvar EXCEPT ![f] = hv] /\ dm' = dm
    /\ hist' = Append(hist, [op |-> "defflavor", f |-> f, cs |-> cs, d |-> hv])
    /\ feat' = feat
DefMethod(f, d) == /\ Defined(f) /\ ~Has(f, d)
                   /\ dm' = dm \cup {<<f, d>>} /\ comps' = comps /\ hasvar' = hasvar
                   /\ hist' = Append(hist, [op |-> "defmethod", f |-> f, cs |-> <<>>, d |-> d])
                   /\ feat' = feat \cup Features("defmethod", f, d)
Next == /\ Len(hist) < MaxOps
        /\ \/ \E f \in F, cs \in SeqsUpTo(F, MaxComps), hv \in VarKinds : DefFlavor(f, cs, hv)
           \/ \E f \in F, d \in Daemons \cup {"getv"} : DefMethod(f, d)
\* ---- directed histories: a wide component shared by two sibling flavors ---------------------------------------------
\* w leaves with a daemon each, P made of them (with or without a method of its own), Q and R with a daemon each, and
\* the siblings (P Q) and (P R) in both orders: the method tables of the siblings are built from the same inherited
\* table of P and must not influence each other.
DF(f, cs) == [op |-> "defflavor", f |-> f, cs |-> cs, d |-> ""]
DM(f, d) == [op |-> "defmethod", f |-> f, cs |-> <<>>, d |-> d]
WideDaemons == {"before", "primary", "after"}
RECURSIVE Leaves(_, _)
Leaves(ds, i) == IF i > Len(ds) THEN <<>> ELSE <<DF(FSeq[i], <<>>), DM(FSeq[i], ds[i])>> \o Leaves(ds, i + 1)
Script(ds, pd, dq, dr, swap) ==
  LET w == Len(ds)  P == FSeq[w + 1]  Q == FSeq[w + 2]  R == FSeq[w + 3] IN
  Leaves(ds, 1) \o <<DF(P, [i \in 1..w |-> FSeq[i]])>> \o (IF pd = "" THEN <<>> ELSE <<DM(P, pd)>>)
  \o <<DF(Q, <<>>), DM(Q, dq), DF(R, <<>>), DM(R, dr)>>
  \o <<DF(FSeq[w + 4], <<P, IF swap THEN R ELSE Q>>), DF(FSeq[w + 5], <<P, IF swap THEN Q ELSE R>>)>>
Scripts == {Script(ds, pd, dq, dr, swap) : ds \in UNION {[1..w -> WideDaemons] : w \in 1..3}, pd \in WideDaemons \cup {""},
                                            dq \in WideDaemons, dr \in WideDaemons, swap \in BOOLEAN}
NextWide == \E sc \in Scripts :
              /\ Len(hist) < Len(sc) /\ SubSeq(sc, 1, Len(hist)) = hist
              /\ LET o == sc[Len(hist) + 1] IN IF o.op = "defflavor" THEN DefFlavor(o.f, o.cs, "") ELSE DefMethod(o.f, o.d)
\* ---- directed histories: a defmethod that is rejected (a daemon keyword that does not exist) leaves nothing behind -------
\* chain fa <- fb <- fc (fc may be defined after the rejected form), a method on fa, the rejected defmethod on fb, then a real
\* one on fb: the inheritor sees it whether it was defined before or after, as if the rejected form had never been evaluated
BadMethod(f) == /\ Defined(f) /\ UNCHANGED <<comps, hasvar, dm, feat>>
                /\ hist' = Append(hist, [op |-> "badmethod", f |-> f, cs |-> <<>>, d |-> ""])
BAD(f) == [op |-> "badmethod", f |-> f, cs |-> <<>>, d |-> ""]
BadScripts == {<<DF(FSeq[1], <<>>), DM(FSeq[1], dt), DF(FSeq[2], <<FSeq[1]>>)>> \o (IF late THEN <<>> ELSE <<DF(FSeq[3], <<FSeq[2]>>)>>)
               \o <<BAD(FSeq[2]), DM(FSeq[2], d2)>> \o (IF late THEN <<DF(FSeq[3], <<FSeq[2]>>)>> ELSE <<>>) :
                 dt \in Daemons, d2 \in Daemons, late \in BOOLEAN}
NextBad == \E sc \in BadScripts :
              /\ Len(hist) < Len(sc) /\ SubSeq(sc, 1, Len(hist)) = hist
              /\ LET o == sc[Len(hist) + 1] IN
                 IF o.op = "defflavor" THEN DefFlavor(o.f, o.cs, "") ELSE IF o.op = "badmethod" THEN BadMethod(o.f) ELSE DefMethod(o.f, o.d)
\* what must be observed after the history, for every defined flavor
Expect == [f \in {g \in F : Defined(g)} |->
             [prec |-> Prec(f), handles |-> Handles(f), primary |-> HasPrimary(f), trace |-> SendTrace(f),
              vfrom |-> VarFrom(f), getv |-> GetV(f), vbare |-> (VarFrom(f) # "" /\ hasvar[VarFrom(f)] = "bare")]]
Emit == Len(hist') < EmitFrom \/ PrintT(ToJson([hist |-> hist', expect |-> Expect', feat |-> feat']))
\* random walks (tlc -simulate) evaluate an invariant on the states of the walk only; printing from there gives
\* one line per walk step instead of one per enabled successor
EmitState == Len(hist) < EmitFrom \/ PrintT(ToJson([hist |-> hist, expect |-> Expect, feat |-> feat]))
EmitBad == hist \notin BadScripts \/ PrintT(ToJson([hist |-> hist, expect |-> Expect, feat |-> feat]))
EmitWide == hist \notin Scripts \/ PrintT(ToJson([hist |-> hist, expect |-> Expect, feat |-> feat]))
View == <<comps, hasvar, dm>>
\* ---- properties of the reference itself (design check) --------------------------------------
PrecOK == \A f \in F : Defined(f) => /\ Prec(f)[1] = f /\ NoDup(Prec(f))
                                     /\ \A i \in 1..Len(comps[f]) : comps[f][i] \in Rng(Prec(f))
\* components keep their written order unless the later one was already reached through an earlier (or the same) one
Pos(p, g) == CHOOSE k \in 1..Len(p) : p[k] = g
CompOrderOK == \A f \in F : Defined(f) =>
    \A i, j \in 1..Len(comps[f]) : i < j =>
        \/ Pos(Prec(f), comps[f][i]) < Pos(Prec(f), comps[f][j])
        \/ \E k \in 1..i : comps[f][j] \in Rng(Prec(comps[f][k]))
\* the trace mentions only flavors of the precedence list, each daemon at most once
TraceOK == \A f \in F : Defined(f) =>
    LET t == SendTrace(f) IN
      /\ NoDup(t)
      /\ \A i \in 1..Len(t) : \E g \in Rng(Prec(f)) :
             \E d \in {"win", "wout", "before", "after", "primary"} : t[i] = Tag(g, d)
=============================================================================
