CONSTANTS
 NF = 7
 MaxOps = 14
 MaxComps = 3
 VarKinds = {"", "var", "bare"}
 EmitFrom = 14
INIT Init
NEXT Next
INVARIANT EmitState
CHECK_DEADLOCK FALSE
