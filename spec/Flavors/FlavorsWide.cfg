CONSTANTS
 NF = 8
 MaxOps = 14
 MaxComps = 3
 VarKinds = {""}
 EmitFrom = 0
INIT Init
NEXT NextWide
INVARIANT EmitWide
CHECK_DEADLOCK FALSE
