------------------------------- MODULE BigInt -------------------------------
(***************************************************************************)
(* Exact integers for TLC, whose own integers are 32-bit: a value is       *)
(* [s |-> sign in {-1,0,1}, m |-> magnitude as little-endian limbs base    *)
(* 2^15 without leading zero limbs].  Every product of two limbs plus a    *)
(* carry stays below 2^31.  Only add, subtract, multiply and compare are   *)
(* provided: the specifications state every other operator by its defining *)
(* relation (q*d + r = n, ...) so that no division is ever computed here.  *)
(***************************************************************************)
EXTENDS Integers, Sequences
B == 32768
RECURSIVE AddC(_,_,_,_)
AddC(a,b,i,c) == IF i > Len(a) /\ i > Len(b) THEN (IF c = 0 THEN <<>> ELSE <<c>>)
                 ELSE LET x == (IF i <= Len(a) THEN a[i] ELSE 0) + (IF i <= Len(b) THEN b[i] ELSE 0) + c
                      IN <<x % B>> \o AddC(a,b,i+1,x \div B)
MAdd(a,b) == AddC(a,b,1,0)
RECURSIVE Norm(_)
Norm(x) == IF Len(x) > 0 /\ x[Len(x)] = 0 THEN Norm(SubSeq(x,1,Len(x)-1)) ELSE x
RECURSIVE SubC(_,_,_,_)      \* a >= b
SubC(a,b,i,br) == IF i > Len(a) THEN <<>>
                  ELSE LET x == a[i] - (IF i <= Len(b) THEN b[i] ELSE 0) - br
                       IN <<IF x < 0 THEN x + B ELSE x>> \o SubC(a,b,i+1, IF x < 0 THEN 1 ELSE 0)
MSub(a,b) == Norm(SubC(a,b,1,0))
RECURSIVE CmpFrom(_,_,_)
CmpFrom(a,b,i) == IF i = 0 THEN 0 ELSE IF a[i] < b[i] THEN -1 ELSE IF a[i] > b[i] THEN 1 ELSE CmpFrom(a,b,i-1)
MCmp(a,b) == IF Len(a) < Len(b) THEN -1 ELSE IF Len(a) > Len(b) THEN 1 ELSE CmpFrom(a,b,Len(a))
RECURSIVE MulSmallC(_,_,_,_)
MulSmallC(a,m,i,c) == IF i > Len(a) THEN (IF c = 0 THEN <<>> ELSE <<c>>)
                      ELSE LET x == a[i]*m + c IN <<x % B>> \o MulSmallC(a,m,i+1,x \div B)
MulSmall(a,m) == IF m = 0 THEN <<>> ELSE MulSmallC(a,m,1,0)
Shift(a,k) == IF a = <<>> THEN a ELSE [i \in 1..k |-> 0] \o a
RECURSIVE MulAcc(_,_,_,_)
MulAcc(a,b,j,acc) == IF j > Len(b) THEN acc ELSE MulAcc(a,b,j+1, MAdd(acc, Shift(MulSmall(a,b[j]), j-1)))
MMul(a,b) == Norm(MulAcc(a,b,1,<<>>))
\* signed integers [s, m]
Z(s, m) == IF m = <<>> THEN [s |-> 0, m |-> <<>>] ELSE [s |-> s, m |-> m]
Neg(x) == [s |-> -x.s, m |-> x.m]
Add(x, y) == IF x.s = 0 THEN y ELSE IF y.s = 0 THEN x
             ELSE IF x.s = y.s THEN Z(x.s, MAdd(x.m, y.m))
             ELSE LET c == MCmp(x.m, y.m) IN
                  IF c = 0 THEN Z(0, <<>>) ELSE IF c > 0 THEN Z(x.s, MSub(x.m, y.m)) ELSE Z(y.s, MSub(y.m, x.m))
Mul(x, y) == Z(x.s * y.s, MMul(x.m, y.m))
Cmp(x, y) == IF x.s # y.s THEN (IF x.s < y.s THEN -1 ELSE 1)
             ELSE IF x.s = 0 THEN 0 ELSE x.s * MCmp(x.m, y.m)
Two63 == [s |-> 1, m |-> <<0, 0, 0, 0, 8>>]
IsFix(x) == Cmp(x, Two63) < 0 /\ Cmp(x, Neg(Two63)) >= 0
WellFormed(x) == x.m = Norm(x.m) /\ (x.m = <<>>) = (x.s = 0)

Sub(x, y) == Add(x, Neg(y))
Abs(x) == [s |-> IF x.s = 0 THEN 0 ELSE 1, m |-> x.m]
One == [s |-> 1, m |-> <<1>>]
Zero == [s |-> 0, m |-> <<>>]
FromInt(n) == IF n = 0 THEN Zero ELSE LET a == IF n < 0 THEN -n ELSE n IN
              Z(IF n < 0 THEN -1 ELSE 1, Norm(<<a % B, (a \div B) % B, a \div (B * B)>>))
=============================================================================
