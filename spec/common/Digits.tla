------------------------------- MODULE Digits -------------------------------
(***************************************************************************)
(* Text as sequences of one-character strings, and integers of any size   *)
(* as sequences of decimal digits (TLC's integers are 32 bit): conversion  *)
(* to another base by long division, grouping.  Shared by Format.tla and   *)
(* PrintRead.tla.                                                          *)
(***************************************************************************)
EXTENDS Integers, Sequences, TLC, FiniteSets

Chars(s) == [i \in 1..Len(s) |-> SubSeq(s, i, i)]
RECURSIVE Flat(_)
Flat(ss) == IF ss = <<>> THEN <<>> ELSE Head(ss) \o Flat(Tail(ss))

Lowers == Chars("abcdefghijklmnopqrstuvwxyz")
Uppers == Chars("ABCDEFGHIJKLMNOPQRSTUVWXYZ")
DigitCs == Chars("0123456789abcdefghijklmnopqrstuvwxyz")
Pos(c, cs) == IF \E i \in 1..Len(cs) : cs[i] = c THEN CHOOSE i \in 1..Len(cs) : cs[i] = c ELSE 0
IsDigit(c) == Pos(c, SubSeq(DigitCs, 1, 10)) > 0
DigitVal(c) == Pos(c, DigitCs) - 1
IsLetter(c) == Pos(c, Lowers) > 0 \/ Pos(c, Uppers) > 0
IsAlnum(c) == IsLetter(c) \/ IsDigit(c)
Up(c) == LET i == Pos(c, Lowers) IN IF i > 0 THEN Uppers[i] ELSE c
Down(c) == LET i == Pos(c, Uppers) IN IF i > 0 THEN Lowers[i] ELSE c
NL == "\n"
Rep(c, n) == [i \in 1..(IF n > 0 THEN n ELSE 0) |-> c]
Max(a, b) == IF a > b THEN a ELSE b

(***************************************************************************)
(* Integers as digit sequences                                             *)
(***************************************************************************)
RECURSIVE NatDigits(_)
NatDigits(n) == IF n < 10 THEN <<n>> ELSE Append(NatDigits(n \div 10), n % 10)
IntV(n) == [k |-> "int", neg |-> n < 0, ds |-> NatDigits(IF n < 0 THEN -n ELSE n)]
RECURSIVE DsVal(_, _)
DsVal(ds, acc) == IF ds = <<>> THEN acc ELSE DsVal(Tail(ds), acc * 10 + Head(ds))
Small(v) == v.k = "int" /\ Len(v.ds) <= 8
Val(v) == LET n == DsVal(v.ds, 0) IN IF v.neg THEN -n ELSE n
IsZero(v) == v.ds = <<0>>
\* one step of long division of a decimal digit sequence by a small number: <<quotient digits, remainder>>
RECURSIVE DivStep(_, _, _, _)
DivStep(ds, b, rem, acc) == IF ds = <<>> THEN <<acc, rem>>
                            ELSE LET cur == rem * 10 + Head(ds) IN DivStep(Tail(ds), b, cur % b, Append(acc, cur \div b))
RECURSIVE Strip(_)
Strip(ds) == IF Len(ds) > 1 /\ Head(ds) = 0 THEN Strip(Tail(ds)) ELSE ds
\* the digits of the number in base b (most significant first), as digit values
RECURSIVE ToBase(_, _, _)
ToBase(ds, b, acc) == LET r == DivStep(ds, b, 0, <<>>)  q == Strip(r[1]) IN
                      IF q = <<0>> THEN <<r[2]>> \o acc ELSE ToBase(q, b, <<r[2]>> \o acc)
DigitsIn(v, base) == LET t == ToBase(v.ds, base, <<>>) IN [i \in DOMAIN t |-> DigitCs[t[i] + 1]]

RECURSIVE Group(_, _, _)
Group(ds, cc, iv) == IF Len(ds) <= iv THEN ds
                     ELSE Group(SubSeq(ds, 1, Len(ds) - iv), cc, iv) \o <<cc>> \o SubSeq(ds, Len(ds) - iv + 1, Len(ds))
=============================================================================
