-------------------------------- MODULE Arity --------------------------------
(***************************************************************************)
(* C04, second half - for every built-in, the argument counts it accepts   *)
(* are the ones its own documented lambda list allows.                     *)
(* A documented lambda list is the sequence of its parameter names with    *)
(* the usual markers; Accepts(ll, n) is the arity relation it denotes.     *)
(***************************************************************************)
EXTENDS Integers, Sequences, TLC, Json, FiniteSets
Markers == {"&optional", "&rest", "&body", "&key", "&aux", "&allow-other-keys"}
RECURSIVE Walk(_, _, _)
\* acc = [mode, req, opt, keys, rest, open]
Walk(ll, i, acc) ==
  IF i > Len(ll) THEN acc
  ELSE LET a == ll[i] IN
       IF a = "&optional" THEN Walk(ll, i + 1, [acc EXCEPT !.mode = "opt"])
       ELSE IF a \in {"&rest", "&body"} THEN Walk(ll, i + 1, [acc EXCEPT !.mode = "rest", !.rest = TRUE])
       ELSE IF a = "&key" THEN Walk(ll, i + 1, [acc EXCEPT !.mode = "key"])
       ELSE IF a = "&allow-other-keys" THEN Walk(ll, i + 1, [acc EXCEPT !.open = TRUE])
       ELSE IF a = "&aux" THEN acc
       ELSE CASE acc.mode = "req" -> Walk(ll, i + 1, [acc EXCEPT !.req = @ + 1])
              [] acc.mode = "opt" -> Walk(ll, i + 1, [acc EXCEPT !.opt = @ + 1])
              [] acc.mode = "key" -> Walk(ll, i + 1, [acc EXCEPT !.keys = @ + 1])
              [] OTHER -> Walk(ll, i + 1, acc)
Shape(ll) == Walk(ll, 1, [mode |-> "req", req |-> 0, opt |-> 0, keys |-> 0, rest |-> FALSE, open |-> FALSE])
Accepts(ll, n) ==
  LET s == Shape(ll)  extra == n - s.req - s.opt IN
  /\ n >= s.req
  /\ \/ extra <= 0
     \/ s.rest
     \/ (s.keys > 0 \/ s.open) /\ extra % 2 = 0 /\ (s.open \/ extra <= 2 * s.keys)
CONSTANT TraceFile
E == ndJsonDeserialize(TraceFile)
VARIABLES l, bad, seen
Init == l = 1 /\ bad = <<>> /\ seen = 0
\* outcome: "value" | "argcount" | "error" | "fault" | "timeout"
Verdict(e) == IF e.out = "timeout" THEN ""
              ELSE IF Accepts(e.ll, e.n) THEN (IF e.out = "argcount" THEN "rejects-documented-count" ELSE "")
              ELSE (IF e.out = "value" THEN "accepts-undocumented-count" ELSE "")
Next == /\ l <= Len(E) /\ l' = l + 1 /\ seen' = seen + 1
        /\ LET e == E[l]  v == Verdict(e) IN
           bad' = IF v = "" THEN bad ELSE Append(bad, [l |-> l, fn |-> e.fn, n |-> e.n, why |-> v])
Done == (l = Len(E) + 1) => PrintT("RESULT" \o ToJson([bad |-> bad, checked |-> seen]))
=============================================================================
