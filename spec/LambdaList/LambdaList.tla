----------------------------- MODULE LambdaList -----------------------------
(***************************************************************************)
(* C04, first half - calling a function binds required, &optional, &rest,  *)
(* &key and &aux parameters exactly as its lambda list prescribes.         *)
(*                                                                         *)
(* A lambda list shape is [req, opt, rest, keys, aux]: req required        *)
(* parameters r1.., opt = sequence of default kinds for o1.., an optional  *)
(* &rest parameter, keys = sequence of default kinds for k1, k2, and aux   *)
(* &aux variables.  Default kinds: 0 none (nil), 1 the literal 7, 2 the    *)
(* form (+ 3 5), 3 a form that uses the first parameter, (+ p1 100).       *)
(* A call is [pos, tail, dangling]: pos positional integers 1..pos, then   *)
(* keyword/value pairs over {k1, k2, kx (undeclared)}, optionally a        *)
(* dangling keyword.  Bind(ll, c) is what the language prescribes:         *)
(* positional first, defaults when absent (forms evaluated in the scope of *)
(* the earlier parameters), the rest collected in order, keys by name.     *)
(* Where the statement is silent the result says so: an undeclared key may *)
(* be rejected or ignored (alt), of a duplicated key either value is       *)
(* acceptable (dup) - but neither may change another parameter.            *)
(***************************************************************************)
EXTENDS Integers, Sequences, TLC, FiniteSets, Json
CONSTANTS Kinds,      \* default kinds in play (subset of 0..3)
          MaxPos      \* positional arguments 0..MaxPos
SeqsUpTo(S, n) == UNION {[1..k -> S] : k \in 0..n}
\* aok: &allow-other-keys after the &key parameters (an undeclared key must then be accepted and ignored)
LLs == {ll \in [req : 0..2, opt : SeqsUpTo(Kinds, 2), rest : BOOLEAN, keys : SeqsUpTo(Kinds, 2), aux : 0..1, aok : BOOLEAN] :
          /\ (ll.aok => Len(ll.keys) > 0 /\ ~ll.rest)
          \* a default form that uses the first parameter needs one, and the first optional cannot use itself
          /\ (\A i \in 1..Len(ll.opt) : ll.opt[i] = 3 => (ll.req > 0 \/ i > 1))
          /\ (\A i \in 1..Len(ll.keys) : ll.keys[i] = 3 => (ll.req > 0 \/ Len(ll.opt) > 0))}
KeyNames == {"k1", "k2", "kx"}
\* nillast: the last positional argument is nil; nilkey: the value of the first keyword pair is nil (an argument that is
\* supplied and nil is not an absent argument: no default)
Calls == {c \in [pos : 0..MaxPos, tail : SeqsUpTo(KeyNames, 2), dangling : BOOLEAN, nillast : BOOLEAN, nilkey : BOOLEAN] :
            /\ (c.nillast => c.pos > 0 /\ ~c.nilkey /\ ~c.dangling)
            /\ (c.nilkey => Len(c.tail) > 0 /\ ~c.dangling)}
IntV(n) == [k |-> "int", v |-> n]
Nil == [k |-> "nil"]
\* actual arguments: positional i -> i; key -> [k|->"key"]; the value of the j-th pair -> 10*j
Args(c) == [i \in 1..c.pos |-> IF c.nillast /\ i = c.pos THEN Nil ELSE IntV(i)]
           \o [i \in 1..2*Len(c.tail) |-> IF i % 2 = 1 THEN [k |-> "key", v |-> c.tail[(i+1) \div 2]]
                                           ELSE IF c.nilkey /\ i = 2 THEN Nil ELSE IntV(10 * (i \div 2))]
           \o (IF c.dangling THEN <<[k |-> "key", v |-> "k1"]>> ELSE <<>>)
Drop(s, n) == IF n >= Len(s) THEN <<>> ELSE SubSeq(s, n + 1, Len(s))
\* value of a default of the given kind when the first parameter has value p1
Dflt(d, p1) == CASE d = 0 -> Nil [] d = 1 -> IntV(7) [] d = 2 -> IntV(8) [] d = 3 -> IntV(p1 + 100)
Declared(ll) == {IF j = 1 THEN "k1" ELSE "k2" : j \in 1..Len(ll.keys)}
KeyPos(R, name) == {i \in 1..Len(R) : i % 2 = 1 /\ R[i].k = "key" /\ R[i].v = name}
Min(S) == CHOOSE x \in S : \A y \in S : x <= y
Max(S) == CHOOSE x \in S : \A y \in S : x >= y
Bind(ll, c) ==
  LET a == Args(c)
      n == Len(a)
      nopt == IF n - ll.req < 0 THEN 0 ELSE IF n - ll.req < Len(ll.opt) THEN n - ll.req ELSE Len(ll.opt)
      R == Drop(a, ll.req + nopt)
      hasKeys == Len(ll.keys) > 0
      keyNamesOk == \A i \in 1..Len(R) : (i % 2 = 1) => R[i].k = "key"
      unknown == \E i \in 1..Len(R) : i % 2 = 1 /\ R[i].k = "key" /\ R[i].v \notin Declared(ll)
      dup == \E nm \in Declared(ll) : Cardinality(KeyPos(R, nm)) > 1
      \* the first parameter (required, else first optional): default forms of kind 3 add 100 to it
      first == IF ll.req > 0 THEN a[1]
               ELSE IF Len(ll.opt) > 0 THEN (IF nopt >= 1 THEN a[1] ELSE Dflt(ll.opt[1], 0)) ELSE Nil
      p1 == IF first.k = "int" THEN first.v ELSE 0
      needsP1 == \/ \E i \in (nopt + 1)..Len(ll.opt) : ll.opt[i] = 3
                 \/ \E j \in 1..Len(ll.keys) : ll.keys[j] = 3 /\ KeyPos(R, IF j = 1 THEN "k1" ELSE "k2") = {}
      keyv(j, last) == LET name == IF j = 1 THEN "k1" ELSE "k2"  ps == KeyPos(R, name) IN
                       IF ps = {} THEN Dflt(ll.keys[j], p1) ELSE R[(IF last THEN Max(ps) ELSE Min(ps)) + 1]
      vals(last) == [i \in 1..ll.req |-> a[i]]
                    \o [i \in 1..Len(ll.opt) |-> IF i <= nopt THEN a[ll.req + i] ELSE Dflt(ll.opt[i], p1)]
                    \o (IF ll.rest THEN <<[k |-> "list", v |-> R]>> ELSE <<>>)
                    \o [j \in 1..Len(ll.keys) |-> keyv(j, last)]
                    \o [j \in 1..ll.aux |-> IntV(5)]
      \* second reading of "&rest ... &key": the rest parameter takes the arguments up to the first declared keyword
      \* and the keyword section starts there (what the implementation documents and its suite pins; the
      \* statement only says "the rest collected in order, keys by name")
      firstKey == LET ps == {i \in 1..Len(R) : R[i].k = "key" /\ R[i].v \in Declared(ll)} IN IF ps = {} THEN Len(R) + 1 ELSE Min(ps)
      R1 == SubSeq(R, 1, firstKey - 1)
      R2 == Drop(R, firstKey - 1)
      split == ll.rest /\ hasKeys
      splitOk == Len(R2) % 2 = 0 /\ \A i \in 1..Len(R2) : (i % 2 = 1) => R2[i].k = "key"
      keyv2(j) == LET name == IF j = 1 THEN "k1" ELSE "k2"  ps == KeyPos(R2, name) IN
                  IF ps = {} THEN Dflt(ll.keys[j], p1) ELSE R2[Min(ps) + 1]
      vals3 == [i \in 1..ll.req |-> a[i]]
               \o [i \in 1..Len(ll.opt) |-> IF i <= nopt THEN a[ll.req + i] ELSE Dflt(ll.opt[i], p1)]
               \o <<[k |-> "list", v |-> R1]>>
               \o [j \in 1..Len(ll.keys) |-> keyv2(j)]
               \o [j \in 1..ll.aux |-> IntV(5)]
  IN IF n < ll.req THEN [ok |-> FALSE, why |-> "too-few", alt |-> FALSE, vals |-> <<>>, vals2 |-> <<>>]
     ELSE IF split THEN
          \* either reading; a call neither reading can bind must be rejected
          (IF needsP1 /\ first.k # "int"
           THEN \* a default form may or may not be needed depending on the reading: an error or the second reading's binding
                (IF splitOk THEN [ok |-> TRUE, why |-> "", alt |-> TRUE, vals |-> vals3, vals2 |-> vals3]
                 ELSE [ok |-> FALSE, why |-> "default-form-error", alt |-> FALSE, vals |-> <<>>, vals2 |-> <<>>])
           ELSE IF (Len(R) % 2 = 1 \/ ~keyNamesOk) /\ ~splitOk THEN [ok |-> FALSE, why |-> "bad-keys", alt |-> FALSE, vals |-> <<>>, vals2 |-> <<>>]
           ELSE [ok |-> TRUE, why |-> "", alt |-> \E i \in 1..Len(R) : R[i].k = "key" /\ R[i].v \notin Declared(ll),
                 vals |-> IF splitOk THEN vals3 ELSE vals(FALSE),
                 vals2 |-> IF Len(R) % 2 = 0 /\ keyNamesOk THEN vals(FALSE) ELSE vals3])
     ELSE IF ~ll.rest /\ ~hasKeys /\ R # <<>> THEN [ok |-> FALSE, why |-> "too-many", alt |-> FALSE, vals |-> <<>>, vals2 |-> <<>>]
     ELSE IF hasKeys /\ (Len(R) % 2 = 1 \/ ~keyNamesOk) THEN [ok |-> FALSE, why |-> "bad-keys", alt |-> FALSE, vals |-> <<>>, vals2 |-> <<>>]
     \* (+ p1 100) with a first parameter that is not a number (a keyword passed positionally) signals at run time
     ELSE IF needsP1 /\ first.k # "int" THEN [ok |-> FALSE, why |-> "default-form-error", alt |-> FALSE, vals |-> <<>>, vals2 |-> <<>>]
     ELSE [ok |-> TRUE, why |-> "",
           alt |-> hasKeys /\ unknown /\ ~ll.aok,  \* an undeclared key: an error is acceptable too, unless other keys are allowed
           vals |-> vals(FALSE),                   \* leftmost of duplicated keys
           vals2 |-> IF dup THEN vals(TRUE) ELSE vals(FALSE)]
\* ---- design checks -------------------------------------------------------------------------------------------
Total == \A ll \in LLs, c \in Calls : LET b == Bind(ll, c) IN
           /\ b.ok => Len(b.vals) = ll.req + Len(ll.opt) + (IF ll.rest THEN 1 ELSE 0) + Len(ll.keys) + ll.aux
           \* a call that binds is within the documented arity
           /\ b.ok => Len(Args(c)) >= ll.req
           \* required and supplied optional parameters take the positional arguments in order, whatever else is passed
           /\ b.ok => \A i \in 1..ll.req : b.vals[i] = Args(c)[i] /\ b.vals2[i] = Args(c)[i]
VARIABLE done
Init == done = FALSE
\* a reduced set of earlier definitions for the redefinition rows
Prev == {[req |-> 2, opt |-> <<>>, rest |-> FALSE, keys |-> <<>>, aux |-> 0, aok |-> FALSE],
         [req |-> 1, opt |-> <<1>>, rest |-> TRUE, keys |-> <<>>, aux |-> 0, aok |-> FALSE],
         [req |-> 0, opt |-> <<>>, rest |-> FALSE, keys |-> <<2, 0>>, aux |-> 0, aok |-> FALSE]}
Next == /\ ~done /\ done' = TRUE
        /\ \A ll \in LLs : \A c \in {x \in Calls : ll.aok => \E i \in 1..Len(x.tail) : x.tail[i] = "kx"} :
             PrintT(ToJson([ll |-> ll, args |-> Args(c), exp |-> Bind(ll, c), prev |-> [none |-> TRUE]]))
        /\ \A ll \in {x \in LLs : x.aux = 0 /\ ~x.aok /\ Len(x.opt) <= 1 /\ Len(x.keys) <= 1}, c \in {x \in Calls : ~x.dangling /\ ~x.nillast /\ ~x.nilkey /\ Len(x.tail) <= 1}, pv \in Prev :
             PrintT(ToJson([ll |-> ll, args |-> Args(c), exp |-> Bind(ll, c), prev |-> [none |-> FALSE, ll |-> pv]]))
Inv == done \/ Total
=============================================================================
