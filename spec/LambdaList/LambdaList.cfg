CONSTANTS
 Kinds = {0, 2, 3}
 MaxPos = 4
INIT Init
NEXT Next
INVARIANT Inv
CHECK_DEADLOCK FALSE
