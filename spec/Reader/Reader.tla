------------------------------- MODULE Reader -------------------------------
(***************************************************************************)
(* C02 / C03 - structure layer of the reference reader.                    *)
(* A text is a sequence of code points (0-based positions in the events,   *)
(* 1-based indices here).  Spans(text) is the sequence of top-level forms  *)
(* as [s, e) half-open 0-based spans, plus whether the text stops inside a *)
(* form.  Only delimiters are interpreted: white space, ; and #| |#        *)
(* comments, parentheses, strings and |symbols| with backslash escapes,    *)
(* #\ characters, the # dispatch forms that open a list, the prefixes      *)
(* ' ` , ,@ #' (a prefix belongs to the form that follows it), and plain   *)
(* tokens ended by white space or a parenthesis.  What a token *means* is  *)
(* not this layer's business.                                              *)
(***************************************************************************)
EXTENDS Integers, Sequences, TLC, FiniteSets
WS == {9, 10, 12, 13, 32}
LP == 40  RP == 41  DQ == 34  BS == 92  PIPE == 124  SEMI == 59  HASH == 35
QUOTE == 39  BQ == 96  COMMA == 44  AT == 64  STAR == 42
IsDigit(c) == c >= 48 /\ c <= 57
IsAlpha(c) == (c >= 65 /\ c <= 90) \/ (c >= 97 /\ c <= 122)
Term(c) == c \in WS \/ c = LP \/ c = RP
At(t, i) == IF i <= Len(t) THEN t[i] ELSE 0        \* 0 = end of text

RECURSIVE SkipLine(_, _)
SkipLine(t, i) == IF i > Len(t) THEN i ELSE IF t[i] = 10 THEN i + 1 ELSE SkipLine(t, i + 1)
RECURSIVE SkipBlock(_, _)            \* after "#|": returns index after "|#", or 0 if unterminated
SkipBlock(t, i) == IF i > Len(t) THEN 0
                   ELSE IF t[i] = PIPE /\ At(t, i + 1) = HASH THEN i + 2 ELSE SkipBlock(t, i + 1)
RECURSIVE SkipWs(_, _)               \* returns index of the next form start, Len+1 at end, 0 if inside a block comment
SkipWs(t, i) ==
  IF i > Len(t) THEN i
  ELSE IF t[i] \in WS THEN SkipWs(t, i + 1)
  ELSE IF t[i] = SEMI THEN SkipWs(t, SkipLine(t, i))
  ELSE IF t[i] = HASH /\ At(t, i + 1) = PIPE
       THEN LET j == SkipBlock(t, i + 2) IN IF j = 0 THEN 0 ELSE SkipWs(t, j)
  ELSE i
RECURSIVE Delimited(_, _, _)         \* body of "..." or |...| from i; index after the closing delimiter, 0 if unterminated
Delimited(t, i, close) ==
  IF i > Len(t) THEN 0
  ELSE IF t[i] = BS THEN (IF i + 1 > Len(t) THEN 0 ELSE Delimited(t, i + 2, close))
  ELSE IF t[i] = close THEN i + 1 ELSE Delimited(t, i + 1, close)
RECURSIVE Token(_, _)                \* index after a token starting at i
Token(t, i) == IF i > Len(t) \/ Term(t[i]) THEN i ELSE Token(t, i + 1)
RECURSIVE Digits(_, _)
Digits(t, i) == IF i <= Len(t) /\ IsDigit(t[i]) THEN Digits(t, i + 1) ELSE i

RECURSIVE Form(_, _)                 \* form starting at i (not white space): index after it, 0 if the text ends inside it
RECURSIVE ListBody(_, _)             \* after "(": index after the matching ")", 0 if unterminated
ListBody(t, i) ==
  LET j == SkipWs(t, i) IN
  IF j = 0 \/ j > Len(t) THEN 0
  ELSE IF t[j] = RP THEN j + 1
  ELSE LET k == Form(t, j) IN IF k = 0 THEN 0 ELSE ListBody(t, k)
Prefixed(t, i) == LET j == SkipWs(t, i) IN IF j = 0 \/ j > Len(t) \/ t[j] = RP THEN 0 ELSE Form(t, j)
Form(t, i) ==
  LET c == t[i] IN
  IF c = LP THEN ListBody(t, i + 1)
  ELSE IF c = DQ THEN Delimited(t, i + 1, DQ)
  ELSE IF c = PIPE THEN Delimited(t, i + 1, PIPE)
  ELSE IF c = QUOTE \/ c = BQ THEN Prefixed(t, i + 1)
  ELSE IF c = COMMA THEN (IF At(t, i + 1) = AT THEN Prefixed(t, i + 2) ELSE Prefixed(t, i + 1))
  ELSE IF c = HASH THEN
       LET d == At(t, i + 1) IN
       IF d = 0 THEN 0
       ELSE IF d = BS THEN (IF i + 2 > Len(t) THEN 0 ELSE Token(t, i + 3))     \* #\x, #\Space ...
       ELSE IF d = LP THEN ListBody(t, i + 2)
       ELSE IF d = QUOTE THEN Prefixed(t, i + 2)
       ELSE IF IsDigit(d) THEN LET k == Digits(t, i + 1) IN
                               IF k > Len(t) THEN 0
                               ELSE IF At(t, k + 1) = LP /\ (t[k] = 65 \/ t[k] = 97) THEN ListBody(t, k + 2)   \* #nA(
                               ELSE Token(t, k)                                                              \* #nr...
       ELSE IF (d = 67 \/ d = 99) /\ At(t, i + 2) = LP THEN ListBody(t, i + 3)                                  \* #c(
       ELSE Token(t, i + 1)                                                                                    \* #x1F #*101 ...
  ELSE Token(t, i)

\* all top-level forms: [spans |-> Seq([s, e]) 0-based half open, complete |-> BOOLEAN]
RECURSIVE Collect(_, _, _)
Collect(t, i, acc) ==
  LET j == SkipWs(t, i) IN
  IF j = 0 THEN [spans |-> acc, complete |-> FALSE]
  ELSE IF j > Len(t) THEN [spans |-> acc, complete |-> TRUE]
  ELSE IF t[j] = RP THEN [spans |-> acc, complete |-> FALSE]          \* unmatched close: not a text this layer describes
  ELSE LET k == Form(t, j) IN
       IF k = 0 THEN [spans |-> acc, complete |-> FALSE]
       ELSE Collect(t, k, Append(acc, [s |-> j - 1, e |-> k - 1]))
Spans(t) == Collect(t, 1, <<>>)

\* white space outside strings, |symbols| and #\ characters removed (C03: pretty vs flat)
RECURSIVE Squeeze(_, _, _)
Squeeze(t, i, acc) ==
  IF i > Len(t) THEN acc
  ELSE IF t[i] \in WS THEN Squeeze(t, i + 1, acc)
  ELSE IF t[i] = DQ \/ t[i] = PIPE
       THEN LET j == Delimited(t, i + 1, t[i])  e == IF j = 0 THEN Len(t) + 1 ELSE j IN
            Squeeze(t, e, acc \o SubSeq(t, i, e - 1) \o <<32>>)
  ELSE IF t[i] = HASH /\ At(t, i + 1) = BS
       THEN LET e == IF i + 2 > Len(t) THEN Len(t) + 1 ELSE Token(t, i + 3) IN Squeeze(t, e, acc \o SubSeq(t, i, e - 1) \o <<32>>)
  ELSE IF t[i] = LP \/ t[i] = RP THEN Squeeze(t, i + 1, Append(acc, t[i]))
  ELSE LET e == Token(t, i) IN Squeeze(t, e, acc \o SubSeq(t, i, e - 1) \o <<32>>)
Tokens(t) == Squeeze(t, 1, <<>>)
=============================================================================
