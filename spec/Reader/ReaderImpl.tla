---- MODULE ReaderImpl ----
EXTENDS Integers, Sequences, TLC, FiniteSets
\* Abstract alphabet: "a" token char, "s" space, "(" ")" parens, "q" double quote, "e" backslash,
\* "c" semicolon, "n" newline
CONSTANTS Alphabet, MaxLen, Fixed
\* ---- the reader of code.go, per block -------------------------------------------------
\* state r: [mode, tokenStart, carry, buf, out, depth]
\* out: sequence of emitted items <<"tok", chars>> / <<"str", chars>> / <<"open">> / <<"close">>
R0 == [mode |-> "value", tokenStart |-> 0, carry |-> <<>>, buf |-> <<>>, out |-> <<>>]
Sub(src, from, to) == IF to <= from THEN <<>> ELSE SubSeq(src, from + 1, to)      \* 0-based half-open like Go
MakeToken(r, src, pos) == r.carry \o Sub(src, r.tokenStart, pos)

\* process byte at 0-based index pos of block src; returns new state
RECURSIVE Byte(_, _, _)
Byte(r, src, pos) ==
  LET b == src[pos + 1] IN
  CASE r.mode = "value" ->
         CASE b \in {"s", "n"} -> r
           [] b = "c" -> [r EXCEPT !.mode = "comment"]
           [] b = "(" -> [r EXCEPT !.out = Append(@, <<"open">>)]
           [] b = ")" -> [r EXCEPT !.out = Append(@, <<"close">>)]
           [] b = "q" -> [r EXCEPT !.tokenStart = pos + 1, !.buf = <<>>, !.mode = "string"]
           [] b = "a" -> [r EXCEPT !.tokenStart = pos, !.mode = "token"]
           [] OTHER -> [r EXCEPT !.out = Append(@, <<"err">>)]
    [] r.mode = "comment" -> IF b = "n" THEN [r EXCEPT !.mode = "value"] ELSE r
    [] r.mode = "token" ->
         IF b \in {"s", "n", "(", ")"}
         THEN Byte([r EXCEPT !.out = Append(@, <<"tok", MakeToken(r, src, pos)>>), !.carry = <<>>, !.mode = "value"], src, pos)  \* goto Retry
         ELSE IF b = "a" THEN r ELSE [r EXCEPT !.out = Append(@, <<"err">>)]
    [] r.mode = "string" ->
         CASE b = "q" -> [r EXCEPT !.out = Append(@, <<"str", IF Len(r.buf) > 0 THEN r.buf
                                                          ELSE (IF Fixed THEN r.carry ELSE <<>>) \o Sub(src, r.tokenStart, pos)>>),
                                  !.carry = IF Fixed THEN <<>> ELSE r.carry, !.mode = "value"]
           [] b = "e" -> [r EXCEPT !.buf = IF Len(r.buf) = 0
                                           THEN (IF Fixed THEN r.carry ELSE <<>>) \o (IF r.tokenStart < pos THEN Sub(src, r.tokenStart, pos) ELSE <<>>)
                                           ELSE r.buf,
                                  !.carry = IF Fixed THEN <<>> ELSE r.carry, !.mode = "esc"]
           [] OTHER -> IF Len(r.buf) > 0 THEN [r EXCEPT !.buf = Append(@, b)] ELSE r
    [] r.mode = "esc" -> [r EXCEPT !.buf = Append(@, b), !.mode = "string"]

RECURSIVE Block(_, _, _)
Block(r, src, pos) == IF pos >= Len(src) THEN r ELSE Block(Byte(r, src, pos), src, pos + 1)

\* end of a block as written in code.go:804-827
EndBlock(r, src, more) ==
  LET pos == Len(src) IN
  IF more THEN
     IF Fixed
     THEN \* proposed repair: carry only what an unfinished token/string still needs
          CASE r.mode = "token" -> [r EXCEPT !.carry = r.carry \o Sub(src, r.tokenStart, pos), !.tokenStart = 0]
            [] r.mode = "string" -> [r EXCEPT !.carry = r.carry \o (IF Len(r.buf) > 0 THEN <<>> ELSE Sub(src, r.tokenStart, pos)), !.tokenStart = 0]
            [] OTHER -> [r EXCEPT !.tokenStart = 0]
     ELSE [r EXCEPT !.carry = r.carry \o Sub(src, r.tokenStart, pos), !.tokenStart = 0]     \* every mode!
  ELSE IF r.mode = "token" THEN [r EXCEPT !.out = Append(@, <<"tok", MakeToken(r, src, pos)>>), !.carry = <<>>]
       ELSE IF r.mode \in {"string", "esc"} THEN [r EXCEPT !.out = Append(@, <<"partial">>)]
       ELSE r

\* the proposed repair also makes stringDone use the carried prefix
FixStr(r) == r

RECURSIVE ReadBlocks(_, _)
ReadBlocks(r, blocks) == IF blocks = <<>> THEN r
                         ELSE LET more == Len(blocks) > 1
                                  r1 == Block(r, blocks[1], 0)
                              IN ReadBlocks(EndBlock(r1, blocks[1], more), Tail(blocks))

OneShot(text) == ReadBlocks(R0, <<text>>).out
\* cut a text into two blocks at k (1 <= k < Len)
Chunked(text, k) == ReadBlocks(R0, <<SubSeq(text, 1, k), SubSeq(text, k + 1, Len(text))>>).out

Texts == UNION {[1..n -> Alphabet] : n \in 2..MaxLen}
VARIABLES text, cut
Init == text \in Texts /\ cut \in 1..(MaxLen - 1) /\ cut < Len(text)
Next == UNCHANGED <<text, cut>>
ChunkIndependent == Chunked(text, cut) = OneShot(text)
====
