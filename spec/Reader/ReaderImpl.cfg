CONSTANTS
 Alphabet = {"a", "s", "(", ")", "q", "e", "c", "n"}
 MaxLen = 6
 Fixed = TRUE
INIT Init
NEXT Next
INVARIANT ChunkIndependent
CHECK_DEADLOCK FALSE
