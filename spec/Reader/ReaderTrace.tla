----------------------------- MODULE ReaderTrace -----------------------------
(***************************************************************************)
(* C02 acceptor.  Event: [t, text (code points), cuts, entry, objs, objs0, *)
(* status, status0, pos (positions reported by one-form entry points)].    *)
(* objs / objs0 are the printed objects of this delivery and of the        *)
(* one-shot read (compared as given: the relation is what matters).        *)
(***************************************************************************)
EXTENDS Reader, Json
CONSTANT TraceFile
E == ndJsonDeserialize(TraceFile)
VARIABLES l, bad, seen
Init == l = 1 /\ bad = <<>> /\ seen = 0
PosOK(sp, pos) ==      \* k-th reported position lies between the end of form k and the start of form k+1
  \A k \in 1..Len(pos) : k <= Len(sp) =>
      /\ pos[k] >= sp[k].e
      /\ pos[k] <= (IF k < Len(sp) THEN sp[k + 1].s ELSE pos[k])
OneForm == {"stream-one", "clread", "clseek"}
Prefix(a, b) == Len(a) <= Len(b) /\ \A k \in 1..Len(a) : a[k] = b[k]
\* a span is closed when the text goes on after it or it ends with its own closing delimiter; an unclosed last
\* token of a truncated text may be a piece of a longer token
Closed(t, sp) == sp.e < Len(t) \/ (sp.e >= 1 /\ t[sp.e] \in {RP, DQ, PIPE})
Verdict(e) ==
  LET sp == Spans(e.text)
      first0 == IF Len(e.objs0) > 1 THEN SubSeq(e.objs0, 1, 1) ELSE e.objs0 IN
  IF e.status = "fault" THEN "internal fault"
  ELSE IF ~e.trunc /\ e.status0 = "ok" /\ sp.complete /\ Len(sp.spans) # Len(e.objs0)
       THEN "calibration: a complete text was read as a different number of objects than it has forms"
  \* (1) delivery independence
  \* (which condition class reports an unreadable text is not compared: the statement allows "incomplete or parse error")
  ELSE IF e.entry \notin OneForm /\ (e.status = "ok") # (e.status0 = "ok") THEN "read succeeds for one delivery and fails for the other"
  ELSE IF e.entry \notin OneForm /\ e.status0 = "ok" /\ e.objs # e.objs0 THEN "objects differ from the one-shot read"
  ELSE IF e.entry \in OneForm /\ e.status0 = "ok" /\ (e.status # "ok" \/ e.objs # first0)
       THEN "one-form read differs from the first object of the one-shot read"
  \* the structural clauses below apply where the structure layer describes the text the way the one-shot reader
  \* sees it (a truncation can leave a fragment such as "#*" or "#2r-" on which the two differ: not judged)
  ELSE IF e.status0 = "ok" /\ sp.complete /\ Len(sp.spans) # Len(e.objs0) THEN ""
  \* (3) positions
  ELSE IF e.status = "ok" /\ ~PosOK(sp.spans, e.pos) THEN "position inside a form or beyond the next one"
  \* (4) a text that stops inside a form
  ELSE IF ~sp.complete /\ e.entry \notin OneForm /\ e.status = "ok" THEN "text ends inside a form but was read as complete"
  ELSE IF ~sp.complete /\ e.entry \in OneForm /\ Len(sp.spans) = 0 /\ e.status = "ok" /\ e.objs # <<>>
       THEN "text ends inside its first form but an object was delivered"
  ELSE IF Len(e.objs) > Len(sp.spans) THEN "more objects than forms"
  ELSE IF e.trunc /\ \E k \in 1..Len(e.objs) : k <= Len(sp.spans) /\ Closed(e.text, sp.spans[k]) /\ k <= Len(e.full) /\ e.objs[k] # e.full[k]
       THEN "a form before the truncation point was read as a different object"
  ELSE ""
Next == /\ l <= Len(E) /\ l' = l + 1 /\ seen' = seen + 1
        /\ LET v == Verdict(E[l]) IN
           bad' = IF v = "" THEN bad ELSE Append(bad, [l |-> l, t |-> E[l].t, why |-> v])
Done == (l = Len(E) + 1) => PrintT("RESULT" \o ToJson([bad |-> bad, checked |-> seen]))
=============================================================================
