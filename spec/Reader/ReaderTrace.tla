----------------------------- MODULE ReaderTrace -----------------------------
(***************************************************************************)
(* C02 acceptor.  Event: [t, text (code points), cuts, entry, objs, objs0, *)
(* status, status0, pos (positions reported by one-form entry points)].    *)
(* objs / objs0 are the printed objects of this delivery and of the        *)
(* one-shot read (compared as given: the relation is what matters).        *)
(***************************************************************************)
EXTENDS Reader, Json
CONSTANT TraceFile
E == ndJsonDeserialize(TraceFile)
VARIABLES l, bad, seen
Init == l = 1 /\ bad = <<>> /\ seen = 0
PosOK(sp, pos) ==      \* k-th reported position lies between the end of form k and the start of form k+1
  \A k \in 1..Len(pos) : k <= Len(sp) =>
      /\ pos[k] >= sp[k].e
      /\ pos[k] <= (IF k < Len(sp) THEN sp[k + 1].s ELSE pos[k])
Verdict(e) ==
  LET sp == Spans(e.text) IN
  IF e.status0 = "ok" /\ sp.complete /\ Len(sp.spans) # Len(e.objs0) THEN "calibration: one-shot object count differs from the structure layer"
  ELSE IF e.status # e.status0 THEN "status differs from the one-shot read"
  ELSE IF e.objs # (IF e.entry = "stream-one" /\ Len(e.objs0) > 1 THEN SubSeq(e.objs0, 1, 1) ELSE e.objs0)
       THEN "objects differ from the one-shot read"
  ELSE IF e.status0 = "ok" /\ ~PosOK(sp.spans, e.pos) THEN "position inside a form or beyond the next one"
  ELSE IF ~sp.complete /\ e.status0 = "ok" THEN "text ends inside a form but was read as complete"
  ELSE ""
Next == /\ l <= Len(E) /\ l' = l + 1 /\ seen' = seen + 1
        /\ LET v == Verdict(E[l]) IN
           bad' = IF v = "" THEN bad ELSE Append(bad, [l |-> l, t |-> E[l].t, why |-> v])
Done == (l = Len(E) + 1) => PrintT("RESULT" \o ToJson([bad |-> bad, checked |-> seen]))
=============================================================================
