CONSTANTS
 Level = 1
 MaxOps = 6
INIT InitT
NEXT NextT
INVARIANT DoneT
CHECK_DEADLOCK FALSE
