CONSTANTS
 Level = 1
 MaxOps = 6
INIT Init
NEXT Next
INVARIANT EmitState
CHECK_DEADLOCK FALSE
