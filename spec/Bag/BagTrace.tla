------------------------------ MODULE BagTrace ------------------------------
(***************************************************************************)
(* Acceptor for C18.  A trace row is one document with a history applied   *)
(* to a bag-flavor instance:                                               *)
(*   [id, start, hist, steps (per operation: status, result, the document  *)
(*    held by the bag afterwards), rt (the document after: write as SEN /  *)
(*    JSON / pretty and parse again, three documents in one text parsed    *)
(*    with json-parse, native data and back, the Go bridge                 *)
(*    SimpleObject then Simplify)]                                         *)
(* Every step is recomputed with Bag's Get / Has / Set / Remove; the round *)
(* trips must give the document back (native data: up to Conflate).        *)
(***************************************************************************)
EXTENDS Bag
Trace == ndJsonDeserialize("traces.ndjson")
VARIABLES l, bad
RECURSIVE Replay(_, _, _)
Replay(t, d, i) ==
  IF i > Len(t.hist) THEN [at |-> 0, why |-> "", d |-> d]
  ELSE LET o == t.hist[i]  s == t.steps[i] IN
    CASE o.op = "get" -> LET g == Get(d, o.p) IN
           IF g.st = "open" THEN Replay(t, d, i + 1)
           ELSE IF s.st # "ok" THEN [at |-> i, why |-> "get signals", d |-> d]
           ELSE IF (g.st = "none" /\ s.res.k # "nil") \/ (g.st = "ok" /\ ~ViewEq(g.v, s.res)) THEN [at |-> i, why |-> "get result", d |-> d]
           ELSE IF ~Same(d, s.after) THEN [at |-> i, why |-> "get changed the document", d |-> d]
           ELSE Replay(t, d, i + 1)
      [] o.op = "has" ->
           IF s.st # "ok" THEN [at |-> i, why |-> "has signals", d |-> d]
           ELSE IF s.res.k # (IF Has(d, o.p) THEN "t" ELSE "nil") THEN [at |-> i, why |-> "has result", d |-> d]
           ELSE IF ~Same(d, s.after) THEN [at |-> i, why |-> "has changed the document", d |-> d]
           ELSE Replay(t, d, i + 1)
      \* walk: the values handed to the function are the values the path matches, each as often (the order is not compared)
      [] o.op = "walk" -> LET ms == Matches(d, o.p)  vs == s.res.v IN
           IF s.st # "ok" THEN [at |-> i, why |-> "walk signals", d |-> d]
           ELSE IF Len(ms) # Len(vs) \/ \E a \in 1..Len(ms) : Cardinality({j \in 1..Len(vs) : ViewEq(ms[a], vs[j])}) < Cardinality({j \in 1..Len(ms) : Same(ms[a], ms[j])})
                THEN [at |-> i, why |-> "walk visits other values than the path matches", d |-> d]
           ELSE IF ~Same(d, s.after) THEN [at |-> i, why |-> "walk changed the document", d |-> d]
           ELSE Replay(t, d, i + 1)
      [] o.op = "set" -> LET r == Set(d, o.p, o.v) IN
           IF s.st # "ok" THEN [at |-> i, why |-> "set signals", d |-> d]
           ELSE IF ~Same(r.d, s.after) THEN [at |-> i, why |-> "document after set", d |-> r.d]
           ELSE Replay(t, r.d, i + 1)
      [] o.op = "remove" -> LET r == Remove(d, o.p) IN
           IF s.st # "ok" THEN [at |-> i, why |-> "remove signals", d |-> d]
           ELSE IF ~Same(r.d, s.after) THEN [at |-> i, why |-> "document after remove", d |-> r.d]
           ELSE Replay(t, r.d, i + 1)
Judge(t) == LET r == Replay(t, t.start, 1) IN
            \* plain Go data of every kind the statement lists (all Go integer types, floats, strings, times, slices, maps) through
            \* SimpleObject and Simplify: the cases that did not come back as the same data (reported once per worker)
            IF t.bridge2 # <<>> THEN [at |-> -1, why |-> "Go data through SimpleObject and Simplify: " \o t.bridge2[1], want |-> Null]
            ELSE IF r.at # 0 THEN [at |-> r.at, why |-> r.why, want |-> r.d]
            ELSE IF t.rt.st # "ok" THEN [at |-> -1, why |-> "round trip signals", want |-> r.d]
            ELSE IF ~Same(r.d, t.rt.sen) THEN [at |-> -1, why |-> "written as SEN and parsed", want |-> r.d]
            ELSE IF ~Same(r.d, t.rt.json) THEN [at |-> -1, why |-> "written as JSON and parsed", want |-> r.d]
            ELSE IF ~Same(r.d, t.rt.pretty) THEN [at |-> -1, why |-> "written pretty and parsed", want |-> r.d]
            \* several documents in one text given to json-parse, the bags kept by the callback and read afterwards
            ELSE IF ~Same(A(<<r.d, t.start, r.d>>), t.rt.stream) THEN [at |-> -1, why |-> "documents of one SEN text, kept by the callback of json-parse", want |-> r.d]
            ELSE IF ~Same(A(<<r.d, t.start, r.d>>), t.rt.streamj) THEN [at |-> -1, why |-> "documents of one JSON text, kept by the callback of json-parse", want |-> r.d]
            ELSE IF ~Same(Conflate(r.d), t.rt.native) THEN [at |-> -1, why |-> "native data and back", want |-> Conflate(r.d)]
            ELSE IF ~Same(r.d, t.rt.bridge) THEN
                   [at |-> -1, want |-> r.d,
                    why |-> IF Same(BridgeDev(r.d, {"empty-map"}), t.rt.bridge) THEN "SimpleObject then Simplify [deviation empty-map]"
                            ELSE IF Same(BridgeDev(r.d, {"false"}), t.rt.bridge) THEN "SimpleObject then Simplify [deviation false]"
                            ELSE IF Same(BridgeDev(r.d, {"empty-map", "false"}), t.rt.bridge) THEN "SimpleObject then Simplify [deviation empty-map false]"
                            ELSE "SimpleObject then Simplify"]
            ELSE [at |-> 0, why |-> "", want |-> Null]
InitT == l = 1 /\ bad = <<>> /\ doc = Null /\ hist = <<>> /\ start = Null
NextT == /\ l <= Len(Trace) /\ l' = l + 1 /\ UNCHANGED <<doc, hist, start>>
         /\ LET t == Trace[l]  j == Judge(t) IN bad' = IF j.at = 0 THEN bad ELSE Append(bad, [id |-> t.id, at |-> j.at, why |-> j.why, want |-> j.want])
DoneT == (l = Len(Trace) + 1) => PrintT("RESULT" \o ToJson([bad |-> bad, checked |-> Len(Trace)]))
=============================================================================
