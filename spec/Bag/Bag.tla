--------------------------------- MODULE Bag ---------------------------------
(***************************************************************************)
(* C18 - a bag is a JSON document addressed by JSON paths.                 *)
(* Documents: [k |-> "null"], [k |-> "bool", v], [k |-> "int", v],         *)
(* [k |-> "float", v (text)], [k |-> "str", v], [k |-> "arr", v (seq)],    *)
(* [k |-> "obj", v (seq of <<key, value>>, keys in increasing order of     *)
(* their position in Keys)].                                               *)
(* Paths: sequences of [t |-> "key", k] / [t |-> "idx", i] (negative: from *)
(* the end) / [t |-> "wild"].                                              *)
(* The reference semantics of get / has / set / remove for these paths is  *)
(* below; where JSONPath leaves the effect open (set through a missing     *)
(* array index, wildcards over objects for get) the result is "open" and   *)
(* not judged.  TLC enumerates documents and histories (BagGen part), the  *)
(* harness applies them to a bag-flavor instance through bag-set, bag-get, *)
(* bag-has, bag-remove and BagTrace judges every step.                     *)
(***************************************************************************)
EXTENDS Integers, Sequences, FiniteSets, TLC, Json
CONSTANTS Level, MaxOps
Keys == <<"a", "b", "c d">>
KeyPos(k) == CHOOSE i \in 1..Len(Keys) : Keys[i] = k
Null == [k |-> "null"]
B(v) == [k |-> "bool", v |-> v]
I(v) == [k |-> "int", v |-> v]
F(v) == [k |-> "float", v |-> v]
S(v) == [k |-> "str", v |-> v]
Big(v) == [k |-> "big", v |-> v]      \* an integer outside 64 bit, as its decimal text (TLC's integers are 32 bit)
A(v) == [k |-> "arr", v |-> v]
O(v) == [k |-> "obj", v |-> v]
\* ---- object helpers (sorted association sequences) ---------------------------------------------------------------
HasKey(o, k) == \E i \in 1..Len(o.v) : o.v[i][1] = k
KeyIdx(o, k) == CHOOSE i \in 1..Len(o.v) : o.v[i][1] = k
ValOf(o, k) == o.v[KeyIdx(o, k)][2]
RECURSIVE InsertKV(_, _, _)
InsertKV(kvs, k, v) == IF kvs = <<>> THEN <<<<k, v>>>>
                       ELSE IF kvs[1][1] = k THEN <<<<k, v>>>> \o Tail(kvs)
                       ELSE IF KeyPos(kvs[1][1]) > KeyPos(k) THEN <<<<k, v>>>> \o kvs
                       ELSE <<kvs[1]>> \o InsertKV(Tail(kvs), k, v)
DropKey(kvs, k) == SelectSeq(kvs, LAMBDA p : p[1] # k)
DropAt(s, i) == SubSeq(s, 1, i - 1) \o SubSeq(s, i + 1, Len(s))
\* position of an index fragment in an array of length n: 1-based, 0 when outside
Pos(i, n) == IF i >= 0 THEN (IF i < n THEN i + 1 ELSE 0) ELSE (IF -i <= n THEN n + i + 1 ELSE 0)

\* what the descent fragment ".." of a path matches, as the JSONPath implementation slip uses (ojg) defines it: a container and
\* everything inside it, at every depth; a value that is not a container is matched as a member of a container, not when the
\* descent starts at it ("$.." of the document 5 matches nothing)
RECURSIVE Subtree(_)
Subtree(d) == LET RECURSIVE cat(_)
                  cat(vs) == IF vs = <<>> THEN <<>>
                             ELSE (IF Head(vs).k \in {"arr", "obj"} THEN Subtree(Head(vs)) ELSE <<Head(vs)>>) \o cat(Tail(vs))
              IN IF d.k = "arr" THEN <<d>> \o cat(d.v) ELSE IF d.k = "obj" THEN <<d>> \o cat([i \in 1..Len(d.v) |-> d.v[i][2]]) ELSE <<>>
\* ---- get / has ----------------------------------------------------------------------------------------------------
\* all values the path matches, in document order (arrays by position, objects by key)
RECURSIVE Matches(_, _)
Matches(d, p) ==
  IF p = <<>> THEN <<d>>
  ELSE LET f == Head(p)  rest == Tail(p) IN
    CASE f.t = "key" -> IF d.k = "obj" /\ HasKey(d, f.k) THEN Matches(ValOf(d, f.k), rest) ELSE <<>>
      [] f.t = "idx" -> IF d.k = "arr" /\ Pos(f.i, Len(d.v)) > 0 THEN Matches(d.v[Pos(f.i, Len(d.v))], rest) ELSE <<>>
      [] f.t = "desc" -> LET RECURSIVE alld(_)
                             alld(vs) == IF vs = <<>> THEN <<>> ELSE Matches(Head(vs), rest) \o alld(Tail(vs))
                         IN alld(Subtree(d))
      [] f.t = "wild" -> LET RECURSIVE all(_)
                             all(vs) == IF vs = <<>> THEN <<>> ELSE Matches(Head(vs), rest) \o all(Tail(vs))
                         IN IF d.k = "arr" THEN all(d.v) ELSE IF d.k = "obj" THEN all([i \in 1..Len(d.v) |-> d.v[i][2]]) ELSE <<>>
Has(d, p) == Matches(d, p) # <<>>
\* wildcards over objects: the order of the members of an object is not defined
RECURSIVE WildOverObj(_, _)
WildOverObj(d, p) == IF p = <<>> THEN FALSE
                     ELSE LET f == Head(p) IN
                       CASE f.t = "key" -> d.k = "obj" /\ HasKey(d, f.k) /\ WildOverObj(ValOf(d, f.k), Tail(p))
                         [] f.t = "idx" -> d.k = "arr" /\ Pos(f.i, Len(d.v)) > 0 /\ WildOverObj(d.v[Pos(f.i, Len(d.v))], Tail(p))
                         [] f.t = "wild" -> d.k = "obj" \/ (d.k = "arr" /\ \E i \in 1..Len(d.v) : WildOverObj(d.v[i], Tail(p)))
                         [] f.t = "desc" -> TRUE        \* the order in which a descent visits is not defined: the first match is open
\* get: [st |-> "ok", v] the first match, [st |-> "none"] nothing there, [st |-> "open"]
Get(d, p) == IF WildOverObj(d, p) THEN [st |-> "open"]
             ELSE IF Matches(d, p) = <<>> THEN [st |-> "none"] ELSE [st |-> "ok", v |-> Matches(d, p)[1]]

\* ---- set / remove for paths of keys and indices -----------------------------------------------------------------------
Concrete(p) == \A i \in 1..Len(p) : p[i].t \in {"key", "idx"}
\* set: the document after (set d p v), or "open" when the path leads through something it cannot follow
\* the value a missing key is created with: objects for the keys that follow (an index into nothing is left open)
RECURSIVE Create(_, _)
Create(p, v) == IF p = <<>> THEN [st |-> "ok", d |-> v]
                ELSE IF Head(p).t # "key" THEN [st |-> "open"]
                ELSE LET sub == Create(Tail(p), v) IN IF sub.st # "ok" THEN sub ELSE [st |-> "ok", d |-> O(<<<<Head(p).k, sub.d>>>>)]
RECURSIVE SetAt(_, _, _)
SetAt(d, p, v) ==
  IF p = <<>> THEN [st |-> "ok", d |-> v]
  ELSE LET f == Head(p)  rest == Tail(p) IN
    IF f.t = "key" THEN
         IF d.k = "obj" THEN
              LET sub == IF HasKey(d, f.k) THEN SetAt(ValOf(d, f.k), rest, v) ELSE Create(rest, v) IN
              IF sub.st # "ok" THEN sub ELSE [st |-> "ok", d |-> O(InsertKV(d.v, f.k, sub.d))]
         ELSE [st |-> "open"]      \* a key of something that is not an object (also of an explicit null)
    ELSE IF d.k = "arr" /\ Pos(f.i, Len(d.v)) > 0 THEN
              LET at == Pos(f.i, Len(d.v))  sub == SetAt(d.v[at], rest, v) IN
              IF sub.st # "ok" THEN sub ELSE [st |-> "ok", d |-> A([d.v EXCEPT ![at] = sub.d])]
         ELSE [st |-> "open"]      \* an index outside the array, or into something that is not an array
Set(d, p, v) == IF Concrete(p) THEN SetAt(d, p, v) ELSE [st |-> "open"]
RECURSIVE RemoveAt(_, _)
RemoveAt(d, p) ==
  LET f == Head(p)  rest == Tail(p) IN
  IF f.t = "key" THEN
       IF d.k = "obj" /\ HasKey(d, f.k) THEN
            IF rest = <<>> THEN O(DropKey(d.v, f.k)) ELSE O(InsertKV(d.v, f.k, RemoveAt(ValOf(d, f.k), rest)))
       ELSE d
  ELSE IF f.t = "wild" THEN
       \* every element of an array / member of an object: all of them go, or the rest of the path is removed inside each
       IF d.k = "arr" THEN (IF rest = <<>> THEN A(<<>>) ELSE A([i \in 1..Len(d.v) |-> RemoveAt(d.v[i], rest)]))
       ELSE IF d.k = "obj" THEN (IF rest = <<>> THEN O(<<>>) ELSE O([i \in 1..Len(d.v) |-> <<d.v[i][1], RemoveAt(d.v[i][2], rest)>>]))
       ELSE d
  ELSE IF d.k = "arr" /\ Pos(f.i, Len(d.v)) > 0 THEN
            LET at == Pos(f.i, Len(d.v)) IN IF rest = <<>> THEN A(DropAt(d.v, at)) ELSE A([d.v EXCEPT ![at] = RemoveAt(@, rest)])
       ELSE d
\* remove takes away everything the path matches (also through wildcards): afterwards the path matches nothing
Remove(d, p) == IF p # <<>> THEN [st |-> "ok", d |-> RemoveAt(d, p)] ELSE [st |-> "open"]

\* ---- what Lisp sees of a JSON value (bag-get, bag-native): nil for null, false and empty containers ------------------
\* lisp values: [k |-> "nil"], "t", "int", "float", "str", "list" (v: seq), "alist" (v: seq of <<key, value>>)
RECURSIVE ViewEq(_, _)
ViewEq(j, x) ==
  CASE j.k = "null" -> x.k = "nil"
    [] j.k = "bool" -> IF j.v THEN x.k = "t" ELSE x.k = "nil"
    [] j.k = "int" -> x.k = "int" /\ x.v = j.v
    [] j.k = "float" -> x.k = "float" /\ x.v = j.v
    [] j.k = "str" -> x.k = "str" /\ x.v = j.v
    [] j.k = "big" -> x.k = "big" /\ x.v = j.v
    [] j.k = "arr" -> IF j.v = <<>> THEN x.k = "nil" ELSE x.k = "list" /\ Len(x.v) = Len(j.v) /\ \A i \in 1..Len(j.v) : ViewEq(j.v[i], x.v[i])
    [] j.k = "obj" -> IF j.v = <<>> THEN x.k = "nil"
                      ELSE x.k = "alist" /\ Len(x.v) = Len(j.v)
                           /\ \A i \in 1..Len(j.v) : \E n \in 1..Len(x.v) : x.v[n][1] = j.v[i][1] /\ ViewEq(j.v[i][2], x.v[n][2])
\* a document with its objects in key order (what the harness reports is ordered by the text of the keys)
RECURSIVE Same(_, _)
Same(a, b) == /\ a.k = b.k
              /\ CASE a.k = "arr" -> Len(a.v) = Len(b.v) /\ \A i \in 1..Len(a.v) : Same(a.v[i], b.v[i])
                   [] a.k = "obj" -> Len(a.v) = Len(b.v) /\ \A i \in 1..Len(a.v) : \E n \in 1..Len(b.v) : b.v[n][1] = a.v[i][1] /\ Same(a.v[i][2], b.v[n][2])
                   [] a.k = "null" -> TRUE
                   [] OTHER -> a.v = b.v
\* native data and back: null, false and the empty containers all come back as null
RECURSIVE Conflate(_)
Conflate(j) == CASE j.k = "bool" -> IF j.v THEN j ELSE Null
                 [] j.k = "arr" -> IF j.v = <<>> THEN Null ELSE A([i \in 1..Len(j.v) |-> Conflate(j.v[i])])
                 [] j.k = "obj" -> IF j.v = <<>> THEN Null ELSE O([i \in 1..Len(j.v) |-> <<j.v[i][1], Conflate(j.v[i][2])>>])
                 [] OTHER -> j

\* SimpleObject then Simplify: named deviations of the open findings (C18-F1: an empty string-keyed map comes back as an
\* empty slice; C18-F3: false comes back as nil).  A rejected Go-bridge round trip is a known finding only if it is exactly
\* the document altered by these.
RECURSIVE BridgeDev(_, _)
BridgeDev(j, dev) == CASE j.k = "bool" -> IF ~j.v /\ "false" \in dev THEN Null ELSE j
                       [] j.k = "arr" -> A([i \in 1..Len(j.v) |-> BridgeDev(j.v[i], dev)])
                       [] j.k = "obj" -> IF j.v = <<>> /\ "empty-map" \in dev THEN A(<<>>)
                                         ELSE O([i \in 1..Len(j.v) |-> <<j.v[i][1], BridgeDev(j.v[i][2], dev)>>])
                       [] OTHER -> j

(***************************************************************************)
(* Generator: documents and histories                                      *)
(***************************************************************************)
\* floats: also one that needs all 17 significant digits, a huge and a tiny one
Scalars == {Null, B(TRUE), I(0), I(-7), F("1.5"), F("0.30000000000000004"), S(""), S("x y"), Big("9223372036854775808"),
            \* strings whose text is that of a literal of another kind
            S("true"), S("null"), S("12"), S("1.5e3")}
           \cup (IF Level = 1 THEN {} ELSE {B(FALSE), I(2147483647), S("q\"\\"), F("-0.25"), F("1e+300"), F("5e-324"), F("1.2345678912345679e+08"), Big("-123456789012345678901234567890")})
Smalls == {A(<<I(1), S("s")>>), O(<<<<"a", I(1)>>>>), A(<<>>), O(<<>>)}
Docs == Scalars \cup Smalls
        \cup {A(<<x, y>>) : x \in {I(1), Null, A(<<I(2), I(3)>>), O(<<<<"a", S("v")>>>>), F("0.30000000000000004")}, y \in {S("t"), O(<<<<"b", Null>>, <<"c d", I(4)>>>>), A(<<>>)}}
        \cup {O(<<<<"a", x>>, <<"b", y>>>>) : x \in {I(1), A(<<I(1), I(2), I(3)>>), O(<<<<"a", B(TRUE)>>>>)}, y \in {Null, A(<<O(<<<<"a", I(5)>>>>), I(6)>>), S("z")}}
        \cup {O(<<<<"a", A(<<O(<<<<"b", A(<<I(1), I(2)>>)>>>>), I(3)>>)>>, <<"c d", O(<<<<"a", O(<<<<"b", S("deep")>>>>)>>>>)>>>>)}
Frags == {[t |-> "key", k |-> k] : k \in {"a", "b", "c d"}} \cup {[t |-> "idx", i |-> i] : i \in {0, 1, 2, -1, -3}} \cup {[t |-> "wild"]}
Paths == {<<f>> : f \in Frags} \cup {<<f, g>> : f, g \in Frags} \cup (IF Level = 1 THEN {} ELSE {<<f, g, h>> : f \in Frags, g \in {[t |-> "key", k |-> "b"], [t |-> "idx", i |-> 0], [t |-> "wild"]}, h \in Frags})
\* paths with the descent fragment: alone, in front of a fragment, behind a key
Desc == [t |-> "desc"]
\* (a descent at the end of a path is left out: the JSONPath implementation's has and get disagree about a descent that ends
\*  the path at a scalar or at an empty container, there is nothing for the model to side with)
DescPaths == {<<Desc, f>> : f \in Frags}
             \cup {<<[t |-> "key", k |-> k], Desc, f>> : k \in {"a", "b"}, f \in {[t |-> "key", k |-> "a"], [t |-> "key", k |-> "b"], [t |-> "idx", i |-> 0], [t |-> "idx", i |-> 1], [t |-> "wild"]}}
Vals == {I(9), S("new"), Null, A(<<I(8), S("w")>>), O(<<<<"b", I(7)>>>>), B(TRUE)}
VARIABLES doc, hist, start
Op(o, p, v) == [op |-> o, p |-> p, v |-> v]
\* the document a step leaves (an open effect ends the history: the harness state is not known any more)
Next == /\ Len(hist) < MaxOps
        /\ \E p \in Paths :
             \/ /\ hist' = Append(hist, Op("get", p, Null)) /\ doc' = doc
             \/ /\ hist' = Append(hist, Op("has", p, Null)) /\ doc' = doc
             \/ /\ hist' = Append(hist, Op("walk", p, Null)) /\ doc' = doc
             \/ \E v \in Vals : LET r == Set(doc, p, v) IN r.st = "ok" /\ doc' = r.d /\ hist' = Append(hist, Op("set", p, v))
             \/ LET r == Remove(doc, p) IN r.st = "ok" /\ doc' = r.d /\ hist' = Append(hist, Op("remove", p, Null))
        /\ UNCHANGED start
\* has and walk (what is visited is what the path matches) over the paths with a descent
NextDesc == /\ Len(hist) < MaxOps /\ UNCHANGED <<start, doc>>
            /\ \E p \in DescPaths : \/ hist' = Append(hist, Op("has", p, Null)) \/ hist' = Append(hist, Op("walk", p, Null))
Init == doc \in Docs /\ hist = <<>> /\ start = doc
Emit == PrintT(ToJson([start |-> start, hist |-> hist']))
EmitState == Len(hist) < MaxOps \/ PrintT(ToJson([start |-> start, hist |-> hist]))
EmitDoc == PrintT(ToJson([start |-> start, hist |-> <<>>]))
View == <<doc, start>>
=============================================================================
