CONSTANTS
 Level = 1
 MaxOps = 1
INIT Init
NEXT Next
VIEW View
ACTION_CONSTRAINT Emit
CHECK_DEADLOCK FALSE
