CONSTANTS
 Level = 1
 MaxPieces = 4
 Family = "all"
INIT SimInit
NEXT SimNext
INVARIANT EmitSim
CHECK_DEADLOCK FALSE
