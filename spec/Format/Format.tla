------------------------------- MODULE Format -------------------------------
(***************************************************************************)
(* C15 - format renders every directive as documented.                     *)
(* An interpreter over [out, args, ap, stop]: `out` the code points        *)
(* produced so far, `args` the argument sequence, `ap` the 1-based index   *)
(* of the next argument, `stop` set by ~^.  The control string is a        *)
(* sequence of code points.  Arguments are tagged values:                  *)
(*   [k |-> "int", v |-> BigInt]                                           *)
(*   [k |-> "str"|"sym"|"chr"|"other", a |-> princ text, s |-> prin1 text] *)
(*   [k |-> "list", v |-> Seq(arg), a, s]        [k |-> "nil", a, s]       *)
(* (~A and ~S must agree with princ and prin1, whose texts are logged, so  *)
(* the printer is not specified a second time here.)                       *)
(***************************************************************************)
EXTENDS BigInt, TLC, FiniteSets
TILDE == 126  NL == 10  SP == 32  COMMA == 44  COLON == 58  ATS == 64  QUOTE == 39  HASH == 35
Upper(c) == IF c >= 97 /\ c <= 122 THEN c - 32 ELSE c
Lower(c) == IF c >= 65 /\ c <= 90 THEN c + 32 ELSE c
IsDigit(c) == c >= 48 /\ c <= 57
IsAlpha(c) == (c >= 65 /\ c <= 90) \/ (c >= 97 /\ c <= 122)
Rep(c, n) == [i \in 1..(IF n > 0 THEN n ELSE 0) |-> c]
RECURSIVE Flat(_)
Flat(ss) == IF ss = <<>> THEN <<>> ELSE ss[1] \o Flat(Tail(ss))
Str(s) == s      \* strings are already code-point sequences in this module

\* ---- digits ------------------------------------------------------------------------------
RECURSIVE DivSmallFrom(_, _, _, _)       \* long division of limbs (high to low) by a small d
DivSmallFrom(m, d, i, rem) == IF i = 0 THEN [q |-> <<>>, r |-> rem]
                              ELSE LET cur == rem * B + m[i]
                                       rest == DivSmallFrom(m, d, i - 1, cur % d)
                                   IN [q |-> Append(rest.q, cur \div d), r |-> rest.r]
DivSmall(m, d) == LET x == DivSmallFrom(m, d, Len(m), 0) IN [q |-> Norm(x.q), r |-> x.r]
DigitCP(d) == IF d < 10 THEN 48 + d ELSE 87 + d            \* 0-9 a-z
RECURSIVE MagDigits(_, _)
MagDigits(m, base) == IF m = <<>> THEN <<>> ELSE LET x == DivSmall(m, base) IN Append(MagDigits(x.q, base), DigitCP(x.r))
DigitsOf(x, base) == IF x.s = 0 THEN <<48>> ELSE MagDigits(x.m, base)
RECURSIVE Group(_, _, _)
Group(ds, cc, iv) == IF Len(ds) <= iv THEN ds
                     ELSE Group(SubSeq(ds, 1, Len(ds) - iv), cc, iv) \o <<cc>> \o SubSeq(ds, Len(ds) - iv + 1, Len(ds))
SmallInt(x) == x.s * (IF Len(x.m) = 0 THEN 0 ELSE IF Len(x.m) = 1 THEN x.m[1] ELSE x.m[1] + B * x.m[2])   \* for |x| < 2^30

\* ---- English and Roman numerals -------------------------------------------------------------
S(str) == str
Ones == << "one", "two", "three", "four", "five", "six", "seven", "eight", "nine", "ten", "eleven", "twelve", "thirteen",
           "fourteen", "fifteen", "sixteen", "seventeen", "eighteen", "nineteen" >>
Tens == << "", "twenty", "thirty", "forty", "fifty", "sixty", "seventy", "eighty", "ninety" >>
OrdOnes == << "first", "second", "third", "fourth", "fifth", "sixth", "seventh", "eighth", "ninth", "tenth", "eleventh", "twelfth",
              "thirteenth", "fourteenth", "fifteenth", "sixteenth", "seventeenth", "eighteenth", "nineteenth" >>
OrdTens == << "", "twentieth", "thirtieth", "fortieth", "fiftieth", "sixtieth", "seventieth", "eightieth", "ninetieth" >>
Illions == << "", " thousand", " million", " billion", " trillion", " quadrillion", " quintillion", " sextillion", " septillion",
              " octillion", " nonillion", " decillion", " undecillion", " duodecillion", " tredecillion", " quattuordecillion",
              " quindecillion", " sexdecillion", " septendecillion", " octodecillion", " novemdecillion", " vigintillion" >>
\* words are carried as sequences of TLA+ strings (joined by the harness-side comparison through WordsCP)
Below1000(n, ordinal) ==        \* n in 1..999 -> sequence of words; the last word is ordinal if asked
  LET h == n \div 100  r == n % 100
      tail == IF r = 0 THEN <<>>
              ELSE IF r < 20 THEN <<IF ordinal THEN OrdOnes[r] ELSE Ones[r]>>
              ELSE IF r % 10 = 0 THEN <<IF ordinal THEN OrdTens[r \div 10] ELSE Tens[r \div 10]>>
              ELSE <<Tens[r \div 10] \o "-" \o (IF ordinal THEN OrdOnes[r % 10] ELSE Ones[r % 10])>>
      head == IF h = 0 THEN <<>> ELSE IF r = 0 /\ ordinal THEN <<Ones[h], "hundredth">> ELSE <<Ones[h], "hundred">>
  IN head \o tail
=============================================================================
