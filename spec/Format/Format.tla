------------------------------- MODULE Format -------------------------------
(***************************************************************************)
(* The format control language as the directive definitions give it (CLHS  *)
(* 22.3, which slip's documentation of format restates), for the           *)
(* directives of property C15:                                             *)
(*   ~A ~S  ~D ~B ~O ~X ~nR  ~R ~:R ~@R ~:@R  ~C  ~% ~& ~| ~~  ~T  ~*       *)
(*   ~?  ~( ~)  ~[ ~; ~]  ~{ ~}  ~^  ~P   with prefix parameters incl. v, # *)
(* Format(ctl, args) is an interpreter: control string and arguments in,   *)
(* text or "err" out.  Text is a sequence of one-character strings.        *)
(*                                                                         *)
(* Values: [k |-> "int", neg, ds] (decimal digits, most significant first, *)
(* any magnitude: TLC's integers are 32 bit, so arithmetic on arguments is *)
(* done on digit sequences), [k |-> "str", v], [k |-> "chr", v],           *)
(* [k |-> "sym", v], [k |-> "nil"], [k |-> "list", v].                      *)
(*                                                                         *)
(* Conventions that CLHS leaves open are taken from slip's documentation   *)
(* and pinned tests and generalised: digits above 9 in lower case; English *)
(* numbers without hyphen or "and" ("one thousand two hundred thirty       *)
(* four"), "negative" for the sign, "zeroth".                              *)
(***************************************************************************)
EXTENDS Digits

(***************************************************************************)
(* princ and prin1 of the values                                           *)
(***************************************************************************)
\* dev: the named deviations of the implementation that are listed as open findings (the empty set is the definition).
\*   "nested-strings-quoted": princ of a list writes the strings inside it between double quotes (without escapes)
RECURSIVE Show(_, _, _, _)
RECURSIVE ShowElems(_, _, _)
Show(v, esc, dev, nested) ==
  CASE v.k = "int" -> (IF v.neg THEN <<"-">> ELSE <<>>) \o DigitsIn(v, 10)
    [] v.k = "str" -> IF esc THEN <<"\"">> \o Flat([i \in DOMAIN v.v |-> IF v.v[i] \in {"\"", "\\"} THEN <<"\\", v.v[i]>> ELSE <<v.v[i]>>]) \o <<"\"">>
                      ELSE IF nested /\ "nested-strings-quoted" \in dev THEN <<"\"">> \o v.v \o <<"\"">>
                      ELSE v.v
    [] v.k = "chr" -> IF esc THEN <<"#", "\\">> \o (IF v.v = " " THEN Chars("Space") ELSE IF v.v = NL THEN Chars("Newline") ELSE <<v.v>>) ELSE <<v.v>>
    [] v.k = "sym" -> v.v
    [] v.k = "nil" -> Chars("nil")
    [] v.k = "list" -> IF v.v = <<>> THEN Chars("nil") ELSE <<"(">> \o ShowElems(v.v, esc, dev) \o <<")">>     \* the empty list is nil
ShowElems(vs, esc, dev) == IF vs = <<>> THEN <<>> ELSE IF Len(vs) = 1 THEN Show(vs[1], esc, dev, TRUE)
                           ELSE Show(vs[1], esc, dev, TRUE) \o <<" ">> \o ShowElems(Tail(vs), esc, dev)
Princ(v, dev) == Show(v, FALSE, dev, FALSE)
Prin1(v) == Show(v, TRUE, {}, FALSE)

(***************************************************************************)
(* English and Roman numbers                                               *)
(***************************************************************************)
Ones == <<"one", "two", "three", "four", "five", "six", "seven", "eight", "nine">>
Teens == <<"ten", "eleven", "twelve", "thirteen", "fourteen", "fifteen", "sixteen", "seventeen", "eighteen", "nineteen">>
Tens == <<"twenty", "thirty", "forty", "fifty", "sixty", "seventy", "eighty", "ninety">>
Scales == <<"thousand", "million", "billion", "trillion", "quadrillion", "quintillion", "sextillion", "septillion", "octillion",
            "nonillion", "decillion", "undecillion", "duodecillion", "tredecillion", "quattuordecillion", "quindecillion",
            "sexdecillion", "septendecillion", "octodecillion", "novemdecillion", "vigintillion">>
OrdOf(w) == CASE w = "one" -> "first" [] w = "two" -> "second" [] w = "three" -> "third" [] w = "five" -> "fifth"
              [] w = "eight" -> "eighth" [] w = "nine" -> "ninth" [] w = "twelve" -> "twelfth"
              [] w \in {"twenty", "thirty", "forty", "fifty", "sixty", "seventy", "eighty", "ninety"} -> SubSeq(w, 1, Len(w) - 1) \o "ieth"
              [] OTHER -> w \o "th"
Words3(h, t, u) == (IF h > 0 THEN <<Ones[h], "hundred">> ELSE <<>>)
                   \o (IF t = 1 THEN <<Teens[u + 1]>> ELSE (IF t >= 2 THEN <<Tens[t - 1]>> ELSE <<>>) \o (IF u > 0 THEN <<Ones[u]>> ELSE <<>>))
\* ds: digits, length a multiple of 3; k: number of three-digit groups after the first one of ds
RECURSIVE GroupWords(_)
GroupWords(ds) == IF ds = <<>> THEN <<>>
                  ELSE LET k == (Len(ds) \div 3) - 1  w == Words3(ds[1], ds[2], ds[3]) IN
                       (IF w = <<>> THEN <<>> ELSE IF k > 0 THEN Append(w, Scales[k]) ELSE w) \o GroupWords(SubSeq(ds, 4, Len(ds)))
PadTo3(ds) == Rep(0, (3 - (Len(ds) % 3)) % 3) \o ds
EnglishTooBig(v) == Len(v.ds) > 66
CardinalWords(v) == IF IsZero(v) THEN <<"zero">> ELSE (IF v.neg THEN <<"negative">> ELSE <<>>) \o GroupWords(PadTo3(v.ds))
OrdinalWords(v) == LET w == CardinalWords(v) IN IF IsZero(v) THEN <<"zeroth">> ELSE [w EXCEPT ![Len(w)] = OrdOf(@)]
RECURSIVE JoinWords(_)
JoinWords(ws) == IF ws = <<>> THEN <<>> ELSE IF Len(ws) = 1 THEN Chars(ws[1]) ELSE Chars(ws[1]) \o <<" ">> \o JoinWords(Tail(ws))

RomanNew == << <<"", "I", "II", "III", "IV", "V", "VI", "VII", "VIII", "IX">>, <<"", "X", "XX", "XXX", "XL", "L", "LX", "LXX", "LXXX", "XC">>,
               <<"", "C", "CC", "CCC", "CD", "D", "DC", "DCC", "DCCC", "CM">>, <<"", "M", "MM", "MMM">> >>
RomanOld == << <<"", "I", "II", "III", "IIII", "V", "VI", "VII", "VIII", "VIIII">>, <<"", "X", "XX", "XXX", "XXXX", "L", "LX", "LXX", "LXXX", "LXXXX">>,
               <<"", "C", "CC", "CCC", "CCCC", "D", "DC", "DCC", "DCCC", "DCCCC">>, <<"", "M", "MM", "MMM">> >>
\* CLHS: ~@R prints 1..3999 (old style 1..4999 in some implementations; 3999 is the range slip documents by its tables)
RomanOK(v) == ~v.neg /\ ~IsZero(v) /\ Len(v.ds) <= 4 /\ (Len(v.ds) < 4 \/ v.ds[1] <= 3)
Roman(v, table) == LET n == Len(v.ds) IN Flat([i \in 1..n |-> Chars(table[n - i + 1][v.ds[i] + 1])])

(***************************************************************************)
(* Directive syntax:  ~ [param {, param}] [: | @]* char                    *)
(* param: [t |-> "none"] | [t |-> "int", v] | [t |-> "chr", v] | "v" | "#" *)
(***************************************************************************)
RECURSIVE ReadInt(_, _, _)
ReadInt(ctl, p, acc) == IF p <= Len(ctl) /\ IsDigit(ctl[p]) THEN ReadInt(ctl, p + 1, acc * 10 + DigitVal(ctl[p])) ELSE [v |-> acc, p |-> p]
RECURSIVE ReadParams(_, _, _)
AfterParam(ctl, p, acc) == IF p <= Len(ctl) /\ ctl[p] = "," THEN ReadParams(ctl, p + 1, acc) ELSE [params |-> acc, p |-> p]
ReadParams(ctl, p, acc) ==
  IF p > Len(ctl) THEN [params |-> acc, p |-> p]
  ELSE LET c == ctl[p] IN
    IF IsDigit(c) THEN LET r == ReadInt(ctl, p, 0) IN AfterParam(ctl, r.p, Append(acc, [t |-> "int", v |-> r.v]))
    ELSE IF c \in {"-", "+"} /\ p < Len(ctl) /\ IsDigit(ctl[p + 1])
      THEN LET r == ReadInt(ctl, p + 1, 0) IN AfterParam(ctl, r.p, Append(acc, [t |-> "int", v |-> IF c = "-" THEN -r.v ELSE r.v]))
    ELSE IF c = "'" /\ p < Len(ctl) THEN AfterParam(ctl, p + 2, Append(acc, [t |-> "chr", v |-> ctl[p + 1]]))
    ELSE IF c \in {"v", "V"} THEN AfterParam(ctl, p + 1, Append(acc, [t |-> "v"]))
    ELSE IF c = "#" THEN AfterParam(ctl, p + 1, Append(acc, [t |-> "#"]))
    ELSE IF c = "," THEN ReadParams(ctl, p + 1, Append(acc, [t |-> "none"]))
    ELSE [params |-> acc, p |-> p]
RECURSIVE ReadMods(_, _, _, _)
ReadMods(ctl, p, colon, at) == IF p <= Len(ctl) /\ ctl[p] = ":" THEN ReadMods(ctl, p + 1, TRUE, at)
                               ELSE IF p <= Len(ctl) /\ ctl[p] = "@" THEN ReadMods(ctl, p + 1, colon, TRUE)
                               ELSE [colon |-> colon, at |-> at, p |-> p]
\* p is the position just after the tilde
ParseDir(ctl, p) == LET ps == ReadParams(ctl, p, <<>>)  ms == ReadMods(ctl, ps.p, FALSE, FALSE)
                    IN [params |-> ps.params, colon |-> ms.colon, at |-> ms.at,
                        ch |-> IF ms.p <= Len(ctl) THEN Down(ctl[ms.p]) ELSE "", next |-> ms.p + 1]
\* the directive closing the block opened just before position p; also the ~; separators at nesting depth 0
RECURSIVE Scan(_, _, _, _, _, _)
Scan(ctl, p, open, close, depth, seps) ==
  IF p > Len(ctl) THEN [end |-> 0, after |-> 0, seps |-> seps, colon |-> FALSE]
  ELSE IF ctl[p] # "~" THEN Scan(ctl, p + 1, open, close, depth, seps)
  ELSE LET d == ParseDir(ctl, p + 1) IN
       IF d.ch = close /\ depth = 0 THEN [end |-> p, after |-> d.next, seps |-> seps, colon |-> d.colon]
       ELSE IF d.ch = close THEN Scan(ctl, d.next, open, close, depth - 1, seps)
       ELSE IF d.ch = open THEN Scan(ctl, d.next, open, close, depth + 1, seps)
       ELSE IF d.ch = ";" /\ depth = 0 THEN Scan(ctl, d.next, open, close, depth, Append(seps, [at |-> p, next |-> d.next, colon |-> d.colon]))
       ELSE Scan(ctl, d.next, open, close, depth, seps)

(***************************************************************************)
(* Interpreter state:                                                      *)
(*   out   text produced so far            args, ap   arguments, next one  *)
(*   stop  "no" | "up" (a ~^ fired: leave the enclosing ~{ or control      *)
(*         string) | "all" (~:^ fired: leave the whole ~:{ )               *)
(*   err   "" or the reason format must signal an error                    *)
(*   more  inside ~:{ : TRUE when further sublists follow (for ~:^)        *)
(***************************************************************************)
\* nil, also when it is written as a list without elements
IsNil(v) == v.k = "nil" \/ (v.k = "list" /\ v.v = <<>>)
St(out, args, ap, dev) == [out |-> out, args |-> args, ap |-> ap, stop |-> "no", err |-> "", more |-> FALSE, dev |-> dev]
Fail(st, why) == [st EXCEPT !.err = why]
Left(st) == Len(st.args) - st.ap + 1
\* the column: characters since the last start of a line (a page separator starts a line too)
Col(out) == LET nls == {i \in 1..Len(out) : out[i] \in {NL, "\f", "\r"}} IN IF nls = {} THEN Len(out) ELSE Len(out) - (CHOOSE i \in nls : \A j \in nls : j <= i)

\* prefix parameters are resolved left to right before the directive acts: v takes the next argument (nil = omitted),
\* # is the number of arguments left
RECURSIVE Resolve(_, _, _)
Resolve(st, ps, acc) ==
  IF ps = <<>> \/ st.err # "" THEN [st |-> st, ps |-> acc]
  ELSE LET p == Head(ps) IN
    IF p.t = "v" THEN
      IF Left(st) < 1 THEN [st |-> Fail(st, "!no argument for a v parameter"), ps |-> acc]
      ELSE LET a == st.args[st.ap]  st2 == [st EXCEPT !.ap = @ + 1] IN
           IF IsNil(a) THEN Resolve(st2, Tail(ps), Append(acc, [t |-> "none"]))
           ELSE IF a.k = "chr" THEN Resolve(st2, Tail(ps), Append(acc, [t |-> "chr", v |-> a.v]))
           ELSE IF Small(a) THEN Resolve(st2, Tail(ps), Append(acc, [t |-> "int", v |-> Val(a)]))
           ELSE [st |-> Fail(st, "v parameter is neither an integer nor a character"), ps |-> acc]
    ELSE IF p.t = "#" THEN Resolve(st, Tail(ps), Append(acc, [t |-> "int", v |-> Left(st)]))
    ELSE Resolve(st, Tail(ps), Append(acc, p))
Par(ps, i, dflt) == IF i > Len(ps) \/ ps[i].t = "none" THEN dflt ELSE ps[i].v
HasPar(ps, i) == i <= Len(ps) /\ ps[i].t # "none"

\* ~mincol,colinc,minpad,padcharA : at least minpad pad characters, then colinc at a time until mincol is reached
RECURSIVE PadCount(_, _, _, _)
PadCount(len, n, mincol, colinc) == IF len + n >= mincol \/ colinc <= 0 THEN n ELSE PadCount(len, n + colinc, mincol, colinc)
PadA(txt, ps, at) == LET n == PadCount(Len(txt), Par(ps, 3, 0), Par(ps, 1, 0), Par(ps, 2, 1))  pad == Rep(Par(ps, 4, " "), n)
                     IN IF at THEN pad \o txt ELSE txt \o pad
\* ~mincol,padchar,commachar,comma-intervalD and relatives; ps already without the radix
IntText(a, ps, base, colon, at) ==
  LET ds == DigitsIn(a, base)
      body == IF colon THEN Group(ds, Par(ps, 3, ","), Par(ps, 4, 3)) ELSE ds
      sign == IF a.neg THEN <<"-">> ELSE IF at THEN <<"+">> ELSE <<>>
  IN Rep(Par(ps, 2, " "), Par(ps, 1, 0) - Len(sign \o body)) \o sign \o body

CharName(c) == IF c = " " THEN Chars("Space") ELSE IF c = NL THEN Chars("Newline") ELSE IF c = "\t" THEN Chars("Tab") ELSE <<c>>

\* string-capitalize: words are maximal runs of letters and digits
RECURSIVE Capitalize(_, _)
Capitalize(cs, inWord) == IF cs = <<>> THEN <<>>
                          ELSE LET c == Head(cs) IN <<IF inWord THEN Down(c) ELSE Up(c)>> \o Capitalize(Tail(cs), IsAlnum(c))
\* ~@( : the first word capitalised, everything else lower case
RECURSIVE CapFirst(_, _)
CapFirst(cs, done) == IF cs = <<>> THEN <<>>
                      ELSE LET c == Head(cs) IN
                           IF ~done /\ IsAlnum(c) THEN <<Up(c)>> \o CapFirst(Tail(cs), TRUE) ELSE <<Down(c)>> \o CapFirst(Tail(cs), done)
Convert(cs, colon, at) == IF colon /\ at THEN [i \in DOMAIN cs |-> Up(cs[i])]
                          ELSE IF colon THEN Capitalize(cs, FALSE)
                          ELSE IF at THEN CapFirst(cs, FALSE)
                          ELSE [i \in DOMAIN cs |-> Down(cs[i])]

RECURSIVE Run(_, _, _, _)
RECURSIVE Iter(_, _, _, _, _, _)
RECURSIVE IterSub(_, _, _, _, _, _, _)
\* one directive d (parameters resolved to ps, state after resolving st) whose text ends before d.next; q bounds the current block
Dir(ctl, d, ps, q, st) ==
  LET arg == IF Left(st) >= 1 THEN st.args[st.ap] ELSE [k |-> "none"]
      put(txt, used) == [st EXCEPT !.out = @ \o txt, !.ap = @ + used]
      need(n, res) == IF Left(st) < n THEN Fail(st, "!not enough arguments") ELSE res
  IN
  CASE d.ch \in {"a", "s"} ->
         need(1, put(PadA(IF IsNil(arg) /\ d.colon THEN <<"(", ")">> ELSE IF d.ch = "a" THEN Princ(arg, st.dev) ELSE Prin1(arg), ps, d.at), 1))
    [] d.ch \in {"d", "b", "o", "x"} ->
         need(1, IF arg.k = "int" THEN put(IntText(arg, ps, CASE d.ch = "d" -> 10 [] d.ch = "b" -> 2 [] d.ch = "o" -> 8 [] OTHER -> 16, d.colon, d.at), 1)
                 ELSE put(Rep(Par(ps, 2, " "), Par(ps, 1, 0) - Len(Princ(arg, st.dev))) \o Princ(arg, st.dev), 1))     \* "the Aesthetic directive is used"
    [] d.ch = "r" ->
         need(1, IF arg.k # "int" THEN (IF HasPar(ps, 1) THEN put(Princ(arg, st.dev), 1) ELSE Fail(st, "~R needs an integer"))
                 ELSE IF HasPar(ps, 1) THEN (IF Par(ps, 1, 10) \in 2..36 THEN put(IntText(arg, Tail(ps), Par(ps, 1, 10), d.colon, d.at), 1)
                                             ELSE Fail(st, "radix out of range"))
                 ELSE IF d.at THEN (IF RomanOK(arg) THEN put(Roman(arg, IF d.colon THEN RomanOld ELSE RomanNew), 1) ELSE Fail(st, "!no Roman numeral for this number"))
                 ELSE IF EnglishTooBig(arg) THEN Fail(st, "number too large to spell")
                 ELSE put(JoinWords(IF d.colon THEN OrdinalWords(arg) ELSE CardinalWords(arg)), 1))
    [] d.ch = "c" ->
         need(1, IF arg.k # "chr" THEN Fail(st, "~C needs a character")
                 ELSE put(IF d.at THEN <<"#", "\\">> \o CharName(arg.v) ELSE IF d.colon THEN CharName(arg.v) ELSE <<arg.v>>, 1))
    [] d.ch = "%" -> put(Rep(NL, Par(ps, 1, 1)), 0)
    [] d.ch = "&" -> LET n == Par(ps, 1, 1) IN
                     \* slip's documentation: "a newline if the previous output character was not a newline" - also at the very
                     \* start of the output, where nothing precedes (pinned by the suite: (format nil "~&") is a newline)
                     IF n = 0 THEN st ELSE put((IF st.out # <<>> /\ st.out[Len(st.out)] = NL THEN <<>> ELSE <<NL>>) \o Rep(NL, n - 1), 0)
    [] d.ch = "|" -> put(Rep("\f", Par(ps, 1, 1)), 0)
    [] d.ch = "~" -> put(Rep("~", Par(ps, 1, 1)), 0)
    [] d.ch = "t" ->
         \* slip documents ~colnum,colincT as: "enough spaces to reach colnum or the first column after colnum assuming
         \* colinc is the width of each column": columns are colinc wide, the target is the start of column colnum, and
         \* beyond it the start of the next column (pinned by the suite: "abc~2,4Tdef" puts def at 8). ~colrel,colinc@T is
         \* CLHS's: colrel spaces, then on to a multiple of colinc. A column width of 0 is not defined.
         LET cur == Col(st.out)  n == Par(ps, 1, 1)  inc == Par(ps, 2, 1) IN
         IF inc <= 0 THEN Fail(st, "column width 0")
         ELSE IF d.at THEN put(Rep(" ", n + ((inc - ((cur + n) % inc)) % inc)), 0)
         ELSE IF cur <= n * inc THEN put(Rep(" ", n * inc - cur), 0)
         ELSE put(Rep(" ", inc - (cur % inc)), 0)
    [] d.ch = "*" ->
         LET n == Par(ps, 1, IF d.at THEN 0 ELSE 1)
             target == IF d.at THEN n + 1 ELSE IF d.colon THEN st.ap - n ELSE st.ap + n
         IN IF target < 1 \/ target > Len(st.args) + 1 THEN Fail(st, "~* moves outside the arguments") ELSE [st EXCEPT !.ap = target]
    [] d.ch = "p" ->
         LET st1 == IF d.colon THEN [st EXCEPT !.ap = @ - 1] ELSE st IN
         IF st1.ap < 1 \/ st1.ap > Len(st1.args) THEN Fail(st, "!no argument for ~P")
         ELSE LET a == st1.args[st1.ap]  one == a.k = "int" /\ ~a.neg /\ a.ds = <<1>> IN
              [st1 EXCEPT !.ap = @ + 1, !.out = @ \o (IF d.at THEN (IF one THEN <<"y">> ELSE Chars("ies")) ELSE (IF one THEN <<>> ELSE <<"s">>))]
    [] d.ch = "^" ->
         \* no parameter: stop when no arguments remain; ~:^ (inside ~:{ ) when no sublists remain; one parameter: when it is zero
         LET fire == IF HasPar(ps, 1) THEN Par(ps, 1, 1) = 0 ELSE IF d.colon THEN ~st.more ELSE Left(st) = 0 IN
         IF fire THEN [st EXCEPT !.stop = IF d.colon THEN "all" ELSE "up"] ELSE st
    [] d.ch = "?" ->
         IF d.at THEN  \* the control string is an argument, the arguments are the ones that follow
              need(1, IF arg.k # "str" THEN Fail(st, "~? needs a control string")
                      ELSE LET r == Run(arg.v, 1, Len(arg.v) + 1, [st EXCEPT !.ap = @ + 1]) IN [r EXCEPT !.stop = "no"])
         ELSE need(2, LET lst == st.args[st.ap + 1] IN
                      IF arg.k # "str" \/ lst.k \notin {"list", "nil"} THEN Fail(st, "~? needs a control string and a list")
                      ELSE LET sub == IF lst.k = "nil" THEN <<>> ELSE lst.v
                               r == Run(arg.v, 1, Len(arg.v) + 1, St(st.out, sub, 1, st.dev))
                           IN [st EXCEPT !.out = r.out, !.err = r.err, !.ap = @ + 2])
    [] d.ch = "(" ->
         LET sc == Scan(ctl, d.next, "(", ")", 0, <<>>) IN
         IF sc.end = 0 THEN Fail(st, "no ~) for ~(")
         ELSE LET r == Run(ctl, d.next, sc.end, st)
                  done == [r EXCEPT !.out = SubSeq(r.out, 1, Len(st.out)) \o Convert(SubSeq(r.out, Len(st.out) + 1, Len(r.out)), d.colon, d.at)]
              IN Run(ctl, sc.after, q, done)
    [] d.ch = "[" ->
         LET sc == Scan(ctl, d.next, "[", "]", 0, <<>>) IN
         IF sc.end = 0 THEN Fail(st, "no ~] for ~[")
         ELSE LET n == Len(sc.seps) + 1
                  from(i) == IF i = 1 THEN d.next ELSE sc.seps[i - 1].next
                  to(i) == IF i = n THEN sc.end ELSE sc.seps[i].at
                  hasDefault == n >= 2 /\ sc.seps[n - 1].colon
                  clause(i, s0) == Run(ctl, sc.after, q, Run(ctl, from(i), to(i), s0))
                  skip(s0) == Run(ctl, sc.after, q, s0)
              IN
              IF d.colon THEN     \* ~:[ false ~; true ~]
                   need(1, IF n # 2 THEN Fail(st, "~:[ needs two clauses") ELSE clause(IF IsNil(arg) THEN 1 ELSE 2, [st EXCEPT !.ap = @ + 1]))
              ELSE IF d.at THEN   \* ~@[ : a true argument is left for the clause, nil is consumed
                   need(1, IF IsNil(arg) THEN skip([st EXCEPT !.ap = @ + 1]) ELSE clause(1, st))
              ELSE LET chosen == HasPar(ps, 1)
                       okArg == (chosen /\ ps[1].t = "int") \/ (~chosen /\ Left(st) >= 1 /\ Small(arg))      \* a v that took a character selects nothing
                       idx == IF chosen THEN Par(ps, 1, 0) ELSE IF okArg THEN Val(arg) ELSE 0
                       s0 == IF chosen THEN st ELSE [st EXCEPT !.ap = @ + 1]
                       plain == IF hasDefault THEN n - 1 ELSE n
                   IN IF ~okArg THEN Fail(st, "~[ needs an integer")
                      \* (a v as the parameter of ~[ after other directives with v parameters: the thorough tier met calls where slip
                      \*  takes its arguments in another order than this definition; left open until that is understood)
                      ELSE IF \E i \in 1..Len(d.params) : d.params[i].t = "v" THEN Fail(st, "v as the parameter of ~[ is left open")
                      ELSE IF idx >= 0 /\ idx < plain THEN clause(idx + 1, s0)
                      ELSE IF hasDefault THEN clause(n, s0)
                      ELSE skip(s0)
    [] d.ch = "{" ->
         LET sc == Scan(ctl, d.next, "{", "}", 0, <<>>)
             max == Par(ps, 1, 1000)
             once == sc.colon
         IN
         IF sc.end = 0 THEN Fail(st, "no ~} for ~{")
         ELSE IF sc.end = d.next THEN Fail(st, "empty ~{~} body (an argument as the body) is not modelled")
         ELSE IF ~d.at THEN
              need(1, IF arg.k \notin {"list", "nil"} THEN Fail(st, "~{ needs a list")
                      ELSE LET lst == IF arg.k = "nil" THEN <<>> ELSE arg.v
                               r == IF d.colon THEN IterSub(ctl, d.next, sc.end, St(st.out, lst, 1, st.dev), max, once, TRUE)
                                    ELSE Iter(ctl, d.next, sc.end, St(st.out, lst, 1, st.dev), max, once)
                           IN Run(ctl, sc.after, q, [st EXCEPT !.out = r.out, !.err = r.err, !.ap = @ + 1]))
         ELSE LET r == IF d.colon THEN IterSub(ctl, d.next, sc.end, st, max, once, TRUE) ELSE Iter(ctl, d.next, sc.end, st, max, once)
              IN Run(ctl, sc.after, q, [r EXCEPT !.stop = "no"])
    [] OTHER -> Fail(st, "directive outside the modelled set")

\* the kinds of the prefix parameters after v and # have been resolved: pad and comma characters are characters, everything
\* else is an integer (a v that took an argument of another kind leaves the consequences undefined: "open", not judged)
ChrPos(ch) == CASE ch \in {"a", "s"} -> {4} [] ch \in {"d", "b", "o", "x"} -> {2, 3} [] ch = "r" -> {3, 4} [] OTHER -> {}
KindsOK(d, ps) == d.ch \notin {"a", "s", "d", "b", "o", "x", "r", "%", "&", "|", "~", "t", "*", "["}
                  \/ \A i \in 1..Len(ps) : ps[i].t = "none" \/ (IF i \in ChrPos(d.ch) THEN ps[i].t = "chr" ELSE ps[i].t = "int")
\* run ctl[p .. q-1]
Run(ctl, p, q, st) ==
  IF p >= q \/ st.stop # "no" \/ st.err # "" THEN st
  ELSE IF ctl[p] # "~" THEN Run(ctl, p + 1, q, [st EXCEPT !.out = Append(@, ctl[p])])
  ELSE LET d == ParseDir(ctl, p + 1)  r == Resolve(st, d.params, <<>>) IN
       IF r.st.err # "" THEN r.st
       ELSE IF ~KindsOK(d, r.ps) THEN Fail(r.st, "a prefix parameter of the wrong kind")
       ELSE IF d.ch \in {"(", "[", "{"} THEN Dir(ctl, d, r.ps, q, r.st)     \* these continue after their closing directive themselves
       ELSE Run(ctl, d.next, q, Dir(ctl, d, r.ps, q, r.st))

\* ~{ body ~} and ~@{ : the body is run over the remaining arguments until none are left (tested before each
\* round), at most max times; once: ~:} runs it at least once unless max is 0
Iter(ctl, p, q, st, max, once) ==
  IF st.err # "" \/ max <= 0 \/ (Left(st) = 0 /\ ~once) THEN st
  ELSE LET r == Run(ctl, p, q, st) IN
       IF r.stop # "no" \/ r.err # "" THEN [r EXCEPT !.stop = "no"]
       ELSE IF r.ap = st.ap /\ Left(r) > 0 /\ max > 100 THEN Fail(r, "iteration consumes nothing")
       ELSE Iter(ctl, p, q, r, max - 1, FALSE)
\* ~:{ and ~:@{ : each round takes the next element, a list, as the arguments of the body
IterSub(ctl, p, q, st, max, once, first) ==
  IF st.err # "" \/ max <= 0 THEN st
  ELSE IF Left(st) = 0 THEN (IF once /\ first THEN LET r == Run(ctl, p, q, [St(st.out, <<>>, 1, st.dev) EXCEPT !.more = FALSE]) IN [st EXCEPT !.out = r.out, !.err = r.err] ELSE st)
  ELSE LET a == st.args[st.ap] IN
       IF a.k \notin {"list", "nil"} THEN Fail(st, "~:{ needs lists")
       ELSE LET sub == IF a.k = "nil" THEN <<>> ELSE a.v
                r == Run(ctl, p, q, [St(st.out, sub, 1, st.dev) EXCEPT !.more = Left(st) > 1])
                st2 == [st EXCEPT !.out = r.out, !.err = r.err, !.ap = @ + 1]
            IN IF r.stop = "all" \/ r.err # "" THEN st2 ELSE IterSub(ctl, p, q, st2, max - 1, FALSE, FALSE)

\* st: "ok" with the text; "err" when the definitions require an error (no argument left for a directive, ~* outside
\* the arguments, no Roman numeral); "open" when the consequences are not defined (wrong kind of argument, directives
\* outside the modelled set): such a case is not judged
Format(ctl, args, dev) == LET r == Run(ctl, 1, Len(ctl) + 1, St(<<>>, args, 1, dev)) IN
                     IF r.err = "" THEN [st |-> "ok", out |-> r.out, why |-> ""]
                     ELSE [st |-> IF SubSeq(r.err, 1, 1) = "!" THEN "err" ELSE "open", out |-> <<>>, why |-> r.err]
=============================================================================
