----------------------------- MODULE FormatGen -----------------------------
(***************************************************************************)
(* Control strings and arguments for C15.  A piece is a fragment of        *)
(* control string together with the arguments it is meant to use:          *)
(*    [txt |-> "~8,'*d", args |-> <<IntV(-1234)>>]                         *)
(* A case is the concatenation of up to MaxPieces pieces.  TLC enumerates  *)
(* every single piece of the grid (Init: one initial state per piece of    *)
(* Grid) and, in simulation mode, random compositions; block pieces        *)
(* (~{ ~[ ~( ~?) are built from simple pieces.  Nothing here decides what  *)
(* the text is: Format.tla does, in the acceptor.                          *)
(***************************************************************************)
EXTENDS Format, Json
CONSTANTS Level,       \* 1: quick grid, 2: thorough grid
          MaxPieces,   \* pieces per case in simulation mode
          Family       \* which part of the grid Init enumerates ("int", "radix", "as", "eng", "roman", "misc", "block", "all")

S(x) == [k |-> "str", v |-> Chars(x)]
Sy(x) == [k |-> "sym", v |-> Chars(x)]
Ch(x) == [k |-> "chr", v |-> x]
Nil == [k |-> "nil"]
L(x) == IF x = <<>> THEN Nil ELSE [k |-> "list", v |-> x]      \* the empty list is nil
Big(s, neg) == [k |-> "int", neg |-> neg, ds |-> [i \in 1..Len(s) |-> DigitVal(SubSeq(s, i, i))]]
DigitStr == <<"0", "1", "2", "3", "4", "5", "6", "7", "8", "9">>
RECURSIVE NatStr(_)
NatStr(n) == IF n < 10 THEN DigitStr[n + 1] ELSE NatStr(n \div 10) \o DigitStr[(n % 10) + 1]
P(txt, args) == [txt |-> txt, args |-> args]
Lit(s) == P(s, <<>>)

\* a prefix parameter in a piece: [s |-> text, a |-> arguments it consumes]
NoP == [s |-> "", a |-> <<>>, n |-> -1]
IntP(n) == [s |-> NatStr(n), a |-> <<>>, n |-> n]
ChrP(c) == [s |-> "'" \o c, a |-> <<>>, n |-> -1]
VInt(n) == [s |-> "v", a |-> <<IntV(n)>>, n |-> n]
VChr(c) == [s |-> "v", a |-> <<Ch(c)>>, n |-> -1]
VNil == [s |-> "v", a |-> <<Nil>>, n |-> -1]
Sharp == [s |-> "#", a |-> <<>>, n |-> -2]
RECURSIVE JoinP(_)
JoinP(ps) == IF ps = <<>> THEN "" ELSE IF Len(ps) = 1 THEN ps[1].s ELSE ps[1].s \o "," \o JoinP(Tail(ps))
RECURSIVE TrimP(_)
TrimP(ps) == IF ps # <<>> /\ ps[Len(ps)].s = "" THEN TrimP(SubSeq(ps, 1, Len(ps) - 1)) ELSE ps
Mods(colon, at) == (IF colon THEN ":" ELSE "") \o (IF at THEN "@" ELSE "")
Directive(ps, colon, at, ch, args) == P("~" \o JoinP(TrimP(ps)) \o Mods(colon, at) \o ch, Flat([i \in DOMAIN ps |-> ps[i].a]) \o args)

\* ---- value pools ----------------------------------------------------------------------------------------------------
SmallInts == IF Level = 1 THEN {0, 7, -42, 1234567} ELSE {0, 1, -1, 12, -42, 255, 1000, 1234567, -1234567}
BigInts == IF Level = 1 THEN {Big("9223372036854775808", TRUE), Big("9223372036854775808", FALSE), Big("123456789012345678901234567890", TRUE)}
           ELSE {Big("9223372036854775807", FALSE), Big("9223372036854775808", FALSE), Big("9223372036854775808", TRUE), Big("9223372036854775809", TRUE),
                 Big("123456789012345678901234567890", TRUE), Big("100000000000000000000000000000000000000000000000000", FALSE)}
IntVals == {IntV(n) : n \in SmallInts} \cup BigInts
TextVals == {S("ab"), S(""), S("a\"b c"), Sy("sym"), Nil, IntV(-15), L(<<IntV(1), S("x"), Sy("y"), Nil>>), L(<<L(<<IntV(1)>>), S("q\\")>>)}
           \cup (IF Level = 1 THEN {} ELSE {S("Hello World"), Ch("a"), Big("9223372036854775808", FALSE), L(<<S("a"), L(<<S("b"), L(<<IntV(2)>>)>>)>>)})

\* ---- integer directives --------------------------------------------------------------------------------------------
Mincols == IF Level = 1 THEN {NoP, IntP(9), VInt(12), VNil} ELSE {NoP, IntP(1), IntP(9), IntP(24), VInt(12), VNil, Sharp}
Padchars == IF Level = 1 THEN {NoP, ChrP("*")} ELSE {NoP, ChrP("0"), VChr("_")}
Commas == IF Level = 1 THEN {NoP, ChrP("_")} ELSE {NoP, ChrP(" "), VChr(".")}
Intervals == IF Level = 1 THEN {NoP, IntP(2), Sharp} ELSE {NoP, IntP(1), IntP(4), VInt(5), Sharp}     \* # after a v counts what is left after the v
Radixes == IF Level = 1 THEN {IntP(3), IntP(36)} ELSE {IntP(2), IntP(7), IntP(10), IntP(36), VInt(12)}
IntPieces ==
  {Directive(<<m, p, c, i>>, colon, at, ch, <<v>>) :
     m \in Mincols, p \in Padchars, c \in Commas, i \in Intervals, colon \in BOOLEAN, at \in BOOLEAN, ch \in {"d", "b", "o", "x"}, v \in IntVals}
  \cup {Directive(<<m>>, colon, at, ch, <<v>>) : m \in {NoP, IntP(9)}, colon \in BOOLEAN, at \in BOOLEAN, ch \in {"D", "B", "O", "X", "R"}, v \in {IntV(-255)}}
RadixPieces ==
  {Directive(<<r, m, p, c, i>>, colon, at, "r", <<v>>) :
     r \in Radixes, m \in Mincols, p \in Padchars, c \in (IF Level = 1 THEN {NoP} ELSE Commas), i \in (IF Level = 1 THEN {NoP} ELSE Intervals),
     colon \in BOOLEAN, at \in BOOLEAN, v \in IntVals}
  \cup {Directive(<<>>, FALSE, FALSE, ch, <<v>>) : ch \in {"d", "x", "b", "o"}, v \in {S("text"), Sy("sym"), Nil}}
  \cup {Directive(<<IntP(r)>>, FALSE, FALSE, "r", <<v>>) : r \in 2..36, v \in {IntV(35), IntV(-1295), Big("18446744073709551616", FALSE)}}

\* ---- ~A ~S ----------------------------------------------------------------------------------------------------------
AsPieces ==
  {Directive(<<m, ci, mp, pc>>, colon, at, ch, <<v>>) :
     m \in (IF Level = 1 THEN {NoP, IntP(8), VInt(6), VNil} ELSE {NoP, IntP(0), IntP(3), IntP(8), IntP(15), VInt(9), VNil, Sharp}),
     ci \in (IF Level = 1 THEN {NoP, IntP(3)} ELSE {NoP, IntP(1), IntP(3), IntP(5), Sharp}),
     mp \in (IF Level = 1 THEN {NoP, IntP(2), Sharp} ELSE {NoP, IntP(0), IntP(2), Sharp}),
     pc \in {NoP, ChrP(".")}, colon \in BOOLEAN, at \in BOOLEAN, ch \in {"a", "s"}, v \in TextVals}
  \cup {Directive(<<m>>, colon, at, ch, <<v>>) : m \in {NoP, IntP(8)}, colon \in BOOLEAN, at \in BOOLEAN, ch \in {"A", "S"}, v \in {S("Up"), Nil}}

\* ---- ~R in English and Roman ---------------------------------------------------------------------------------------
Zeros == "000000000000000000000000000000000000000000000000000000000000000000000000"
Flat2(k) == SubSeq(Zeros, 1, k)
EngSmall == IF Level = 1 THEN (0..21) \cup {30, 40, 99, 100, 101, 110, 115, 120, 999, 1000, 1001, 1100, 12345, 100000, 1000000, 1000001, 20000000}
            ELSE (0..1200) \cup {n * 1000 : n \in 2..120} \cup {12345, 99999, 100001, 110000, 1000000, 1000001, 1001000, 2000000, 12000000, 20000017, 100000000, 999999999}
EngBig == {Big("1" \o Flat2(3 * k), FALSE) : k \in 3..21} \cup {Big("2" \o Flat2(3 * k - 1) \o "7", neg) : k \in {3, 4, 6, 7, 11, 21}, neg \in BOOLEAN}
          \cup {Big("999" \o Flat2(63), FALSE), Big("1" \o Flat2(66), FALSE), Big("123456789012345678901234567890123456789012345678901234567890123456", FALSE)}
EngPieces == {Directive(<<>>, colon, FALSE, "r", <<v>>) : colon \in BOOLEAN, v \in {IntV(n) : n \in EngSmall} \cup {IntV(-n) : n \in {1, 13, 20, 111, 1000}} \cup EngBig}
RomanNums == IF Level = 1 THEN {1, 4, 9, 14, 40, 90, 400, 900, 1994, 2024, 3999, 0, 4000, -3} ELSE (-1..4001)
RomanPieces == {Directive(<<>>, colon, TRUE, "r", <<IntV(n)>>) : colon \in BOOLEAN, n \in RomanNums}

\* ---- characters, newlines, tildes, tabulation ----------------------------------------------------------------------
Counts == {NoP, IntP(0), IntP(1), IntP(3), VInt(2), VNil, Sharp}     \* a v whose argument is nil is an omitted parameter
Before == {Lit(""), Lit("ab"), Lit("abcdefghij"), P("ab~%cd", <<>>), P("~a", <<S("xyz")>>), P("q~%", <<>>)}
Join2(a, b) == P(a.txt \o b.txt, a.args \o b.args)
Join3(a, b, c) == Join2(Join2(a, b), c)
MiscPieces ==
  {Directive(<<>>, m[1], m[2], "c", <<Ch(c)>>) : m \in {<<FALSE, FALSE>>, <<TRUE, FALSE>>, <<FALSE, TRUE>>}, c \in {"a", "Z", " ", "\n", "7", "~"}}
  \cup {Join3(b, Directive(<<n>>, FALSE, FALSE, ch, <<>>), Lit("z")) : b \in Before, n \in Counts, ch \in {"%", "&", "~", "|"}}
  \cup {Join3(b, Directive(<<cn, ci>>, FALSE, at, "t", <<>>), Lit("z")) :
          b \in Before, at \in BOOLEAN,
          cn \in {NoP, IntP(0), IntP(1), IntP(2), IntP(5), IntP(10), IntP(12), VInt(4), VNil},
          ci \in {NoP, IntP(0), IntP(1), IntP(3), IntP(4), IntP(8)}}

\* ---- simple pieces for compositions and block bodies ---------------------------------------------------------------
Simple == {P("~a", <<IntV(1)>>), P("~a", <<S("two")>>), P("~s", <<S("x y")>>), P("~d", <<IntV(-7)>>), P("~5,'0d", <<IntV(42)>>), P("~:d", <<IntV(1234567)>>),
           P("~x", <<IntV(255)>>), P("~r", <<IntV(21)>>), P("~:r", <<IntV(3)>>), P("~@r", <<IntV(14)>>), P("~c", <<Ch("k")>>), P("~a", <<Nil>>),
           Lit("lit "), Lit("MiXed Case"), Lit(", "), P("~%", <<>>), P("~&", <<>>), P("~~", <<>>), P("~8t", <<>>), P("~2@t", <<>>),
           P("~a", <<L(<<IntV(1), IntV(2)>>)>>), P("~vd", <<IntV(4), IntV(5)>>), P("~#d", <<IntV(9)>>)}
Movers == {P("~*", <<>>), P("~:*", <<>>), P("~2*", <<>>), P("~2:*", <<>>), P("~0@*", <<>>), P("~1@*", <<>>), P("~@*", <<>>), P("~3@*", <<>>), P("~0*", <<>>), P("~v*", <<IntV(1)>>),
           P("~p", <<>>), P("~:p", <<>>), P("~@p", <<>>), P("~:@p", <<>>), P("~p", <<IntV(1)>>), P("~p", <<IntV(2)>>), P("~@p", <<IntV(1)>>), P("~@p", <<IntV(0)>>), P("~p", <<S("s")>>),
           P("~^", <<>>), P("~^", <<IntV(1)>>), P("~0^", <<>>), P("~1^", <<>>), P("~#^", <<>>), P("~a~^~a", <<IntV(1)>>), Lit("tail")}

\* ---- moving through the arguments: ~* and ~P between ~a's, at top level and inside ~{ ----------------------------------
MoveDirs == {"~*", "~0*", "~1*", "~2*", "~3*", "~:*", "~0:*", "~1:*", "~2:*", "~@*", "~0@*", "~1@*", "~2@*", "~3@*", "~#*", "~#:*", "~#@*"}
Abc == <<Sy("a"), Sy("b"), Sy("c")>>
Pre == <<"", "~a", "~a~a", "~a~a~a">>
MovePieces ==
  {P(Pre[i] \o m \o post, Abc) : i \in 1..4, m \in MoveDirs, post \in {"~a", "~a~a", ""}}
  \cup {P(Pre[i] \o "~v" \o mod \o "*~a", SubSeq(Abc, 1, i - 1) \o <<IntV(n), Sy("x"), Sy("y"), Sy("z")>>) : i \in 1..3, mod \in {"", ":", "@"}, n \in 0..2}
  \cup {P(Pre[i] \o "~v" \o mod \o "*~a", SubSeq(Abc, 1, i - 1) \o <<Nil, Sy("x"), Sy("y"), Sy("z")>>) : i \in 1..3, mod \in {"", ":", "@"}}
  \cup {P("~{" \o Pre[i] \o m \o "~a~}", <<L(Abc \o Abc)>>) : i \in 1..3, m \in {"~*", "~0*", "~:*", "~0:*", "~1@*", "~2*"} \ {"~1@*"}}
  \cup {P("~d item~" \o mod \o "p, " \o "~a", <<IntV(n), Sy("x")>>) : mod \in {":", ":@"}, n \in {0, 1, 2, -1, 11}}
  \cup {P("~" \o mod \o "p~a", <<v, Sy("x")>>) : mod \in {"", "@"}, v \in {IntV(0), IntV(1), IntV(2), IntV(-1), S("1"), Nil}}

\* ---- blocks --------------------------------------------------------------------------------------------------------
Bodies == {P("~a", <<IntV(1)>>), P("~a~^, ", <<Sy("e")>>), P("<~a~a>", <<IntV(1), S("b")>>), P("<~a~^~a>", <<IntV(1), S("b")>>), P("~a~:^;", <<IntV(3)>>),
           P("[~d:~a]~^ ", <<IntV(7), S("v")>>), P("~a~^~a~^~a", <<IntV(1), IntV(2), IntV(3)>>), P("x~^y", <<>>), P("~a~*", <<IntV(1), IntV(2)>>), P("~a~#[~; and ~:;, ~]", <<S("w")>>),
           \* bodies whose text depends on the column and on what was written before: every round starts where the last one ended
           P("~&~a", <<Sy("r")>>), P("~&~a~%", <<Sy("r")>>), P("~a~6t|", <<S("ab")>>), P("~a~,4@t|", <<S("abc")>>), P("~a~&", <<IntV(12)>>)}
RECURSIVE Times(_, _)
Times(xs, n) == IF n = 0 THEN <<>> ELSE xs \o Times(xs, n - 1)
Cut(xs, c) == SubSeq(xs, 1, IF Len(xs) > c THEN Len(xs) - c ELSE 0)
MaxPs == {NoP, IntP(0), IntP(1), IntP(2), VInt(1), VNil, Sharp}
IterPieces ==
  \* ~{ : one list with the arguments of all rounds
  {LET open == Directive(<<m>>, colon, at, "{", <<>>)
       all == Cut(Times(b.args, rounds), cut)
       subs == [i \in 1..rounds |-> L(IF i = rounds THEN Cut(b.args, cut) ELSE b.args)]
       args == IF ~colon /\ ~at THEN <<IF all = <<>> THEN Nil ELSE L(all)>>
               ELSE IF colon /\ ~at THEN <<IF rounds = 0 THEN Nil ELSE L(subs)>>
               ELSE IF ~colon /\ at THEN all
               ELSE subs
   IN P(open.txt \o b.txt \o (IF once THEN "~:}" ELSE "~}"), open.args \o args) :
     m \in MaxPs, colon \in BOOLEAN, at \in BOOLEAN, b \in Bodies, rounds \in 0..3, cut \in 0..1, once \in BOOLEAN}
Clauses == {<<Lit("zero"), Lit("one"), Lit("two")>>, <<P("~a", <<S("A")>>), Lit("b")>>, <<Lit("only")>>, <<Lit(""), Lit("x~~"), P("~d~^!", <<IntV(5)>>)>>}
RECURSIVE JoinClauses(_, _)
JoinClauses(cs, dflt) == IF Len(cs) = 1 THEN cs[1].txt ELSE cs[1].txt \o (IF Len(cs) = 2 /\ dflt THEN "~:;" ELSE "~;") \o JoinClauses(Tail(cs), dflt)
CondPieces ==
  {LET sel == IF pick.s = "" THEN <<IntV(idx)>> ELSE IF pick = VNil THEN <<Nil, IntV(idx)>> ELSE pick.a
       chosen == IF pick.s = "" \/ pick = VNil THEN idx ELSE IF pick.s = "#" THEN 0 ELSE pick.n
       used == IF chosen >= 0 /\ chosen < Len(cs) - (IF dflt /\ Len(cs) > 1 THEN 1 ELSE 0) THEN cs[chosen + 1].args
               ELSE IF dflt /\ Len(cs) > 1 THEN cs[Len(cs)].args ELSE <<>>
   IN P("~" \o pick.s \o "[" \o JoinClauses(cs, dflt) \o "~]", sel \o used) :
     cs \in Clauses, dflt \in BOOLEAN, idx \in {-1, 0, 1, 2, 3, 7}, pick \in {NoP, VInt(1), VNil, IntP(0), IntP(2), Sharp}}
  \cup {P("~:[" \o f.txt \o "~;" \o t.txt \o "~]", <<v>> \o (IF v.k = "nil" THEN f.args ELSE t.args)) :
          f \in {Lit("no"), P("~a", <<S("F")>>)}, t \in {Lit("yes"), P("~d", <<IntV(3)>>)}, v \in {Nil, Sy("t"), IntV(0), S("")}}
  \cup {P("~@[" \o t.txt \o "~]", IF v.k = "nil" THEN <<v>> ELSE <<v>> \o t.args) : t \in {P("<~a>", <<>>), P("<~a ~a>", <<IntV(2)>>), Lit("set")}, v \in {Nil, IntV(5), S("s")}}
CaseBodies == {Lit("hello WORLD foo-bar"), Lit("aBC dEF"), P("x ~a y", <<S("The Quick BROWN")>>), P("the ~r cats", <<IntV(21)>>), P("n~d ~(INNER~) z", <<IntV(3)>>),
               P("one~%two three", <<>>), P("a~^b", <<>>), P("ab~10tcd", <<>>), Lit(""),
               \* the first word starts with a digit, or is all digits; punctuation and blanks in front of it
               P("~d CATS and ~d DOGS", <<IntV(3), IntV(4)>>), Lit("1st PLACE"), Lit("(2 of THEM)"), Lit("  -x Y"), P("~a", <<S("42")>>)}
CasePieces == {P("~" \o Mods(colon, at) \o "(" \o b.txt \o "~)", b.args) : colon \in BOOLEAN, at \in BOOLEAN, b \in CaseBodies}
IndirectPieces ==
  {P("~?", <<S(b.txt), IF b.args = <<>> THEN Nil ELSE L(b.args)>>) : b \in Simple \cup Bodies}
  \cup {P("~@?", <<S(b.txt)>> \o b.args) : b \in Simple \cup Bodies}
  \cup {P("~?", <<S("~a ~a"), L(<<IntV(1)>>)>>), P("~?", <<S("~a"), L(<<IntV(1), IntV(2)>>)>>), P("~?~a", <<S("~a~^~a"), L(<<IntV(1)>>), S("after")>>)}
\* blocks inside blocks, the inner one ending directly in front of the end of the outer one (or of a clause separator), and three deep
NestPieces ==
  LET l12 == L(<<L(<<IntV(1), IntV(2)>>), L(<<IntV(3)>>)>>) IN
  {P("~{~{~a~}~}", <<l12>>), P("~{x~{~a~}~}", <<l12>>), P("~{~{~a~}y~}", <<l12>>), P("~{~{~a~}~}|~a", <<l12, S("end")>>),
   P("~:{~{~a~}~}", <<L(<<L(<<l12.v[1]>>), L(<<l12.v[2]>>)>>)>>), P("~{~{~{~a~}~}~}", <<L(<<l12, l12>>)>>),
   P("~@{~{~a~}~}", <<l12.v[1], l12.v[2]>>), P("~{~{~a~}~:}", <<Nil>>), P("~{~{~a~^,~}~^;~}", <<l12>>),
   P("~(~(aB~)~)", <<>>), P("~:(a ~(BC~)~)", <<>>), P("~@(~:(one TWO~)~)x", <<>>), P("~(~{~a~}~)", <<L(<<S("AB"), Sy("c")>>)>>), P("~{~(~a~)~}", <<L(<<S("AB"), S("Cd")>>)>>),
   P("~[~[in0~;in1~]~;out1~]", <<IntV(0), IntV(1)>>), P("~[a~;~[in0~;in1~]~]|", <<IntV(1), IntV(0)>>), P("~:[no~;~:[n2~;y2~]~]", <<Sy("t"), Nil>>),
   P("~@[~@[<~a>~]~]", <<IntV(4)>>), P("~{~:[n~;y~]~}", <<L(<<Nil, Sy("t"), Nil>>)>>), P("~[~{~a~}~]", <<IntV(0), L(<<IntV(5), IntV(6)>>)>>),
   P("~{~[zero~;one~]~}", <<L(<<IntV(1), IntV(0)>>)>>), P("~{~#[~;last ~a~:;~a, ~]~}", <<L(<<IntV(1), IntV(2), IntV(3)>>)>>)}
\* long output (more than 4096 characters) produced inside and outside of blocks: the text does not depend on how the
\* destination takes it
LongS == [k |-> "str", v |-> [i \in 1..4200 |-> IF i % 2 = 1 THEN "A" ELSE "b"]]
LongPieces == {P("~a", <<LongS>>), P("<~(~a~)>", <<LongS>>), P("<~:@(x~a~)>", <<LongS>>), P("a~@{~a-~}z", <<LongS, S("Q")>>),
               P("~@[~a~]", <<LongS>>)}
BlockPieces == IterPieces \cup CondPieces \cup CasePieces \cup IndirectPieces \cup NestPieces \cup LongPieces

Grid == CASE Family = "int" -> IntPieces [] Family = "radix" -> RadixPieces [] Family = "as" -> AsPieces [] Family = "eng" -> EngPieces [] Family = "roman" -> RomanPieces
          [] Family = "misc" -> MiscPieces \cup Simple \cup Movers \cup MovePieces [] Family = "block" -> BlockPieces
          [] OTHER -> IntPieces \cup RadixPieces \cup AsPieces \cup EngPieces \cup RomanPieces \cup MiscPieces \cup Simple \cup Movers \cup MovePieces \cup BlockPieces
\* the pool for compositions: a thinned grid plus everything that moves through the arguments
Pools == {Simple, Movers, MovePieces, IterPieces, CondPieces, CasePieces, IndirectPieces, MiscPieces, Simple \cup Movers, NestPieces}

VARIABLES hist
Init == hist \in {<<p>> : p \in Grid}
\* in simulation mode a walk starts anywhere and appends random pieces
SimInit == hist = <<>>
SimNext == Len(hist) < MaxPieces /\ hist' = Append(hist, RandomElement(RandomElement(Pools)))
Next == UNCHANGED hist
RECURSIVE JoinAll(_)
JoinAll(ps) == IF ps = <<>> THEN P("", <<>>) ELSE Join2(ps[1], JoinAll(Tail(ps)))
Case(h) == LET c == JoinAll(h) IN [ctl |-> c.txt, args |-> c.args]
EmitInit == PrintT(ToJson(Case(hist)))
EmitSim == Len(hist) < 2 \/ PrintT(ToJson(Case(hist)))
=============================================================================
