---------------------------- MODULE FormatTrace ----------------------------
(***************************************************************************)
(* Acceptor for C15: every recorded format call                            *)
(*   [id, ctl, args, outs (destination nil / t / stream), sts, princ,      *)
(*    prin1]                                                               *)
(* is judged against Format.tla: the three destinations give the text the  *)
(* directive definitions give (or all signal when the definitions require  *)
(* an error), and princ-to-string / prin1-to-string of every argument are  *)
(* what ~A / ~S of it print (also under other settings of *print-base*,    *)
(* *print-radix*, *print-case* ..., field agree).  Total: a rejected call is recorded with the  *)
(* text that was expected and the validation goes on.                      *)
(***************************************************************************)
EXTENDS Format, Json
Trace == ndJsonDeserialize("traces.ndjson")
Devs == ndJsonDeserialize("deviations.ndjson")       \* one {"name": ...} per line
Range(f) == {f[i] : i \in DOMAIN f}
VARIABLES l, bad, open
Init == l = 1 /\ bad = <<>> /\ open = 0
RECURSIVE Str(_)
Str(cs) == IF cs = <<>> THEN "" ELSE Head(cs) \o Str(Tail(cs))
\* the deviations listed as open findings (known-findings.jsonl); a call is judged against the definition first
Dev == {d.name : d \in Range(Devs)} \ {"none"}
Judge0(e, dev) ==
  LET exp == Format(Chars(e.ctl), e.args, dev)
      want == Str(exp.out)
      kinds == (IF exp.st = "ok" /\ \E i \in 1..3 : e.sts[i] # "ok" \/ e.outs[i] # want THEN {"text"} ELSE {})
               \cup (IF exp.st = "err" /\ \E i \in 1..3 : e.sts[i] = "ok" THEN {"error-expected"} ELSE {})
               \cup (IF \E i, j \in 1..3 : e.sts[i] # e.sts[j] \/ e.outs[i] # e.outs[j] THEN {"destinations"} ELSE {})
               \cup (IF \E i \in 1..Len(e.args) : e.princ[i] # Str(Princ(e.args[i], dev)) THEN {"princ"} ELSE {})
               \cup (IF \E i \in 1..Len(e.args) : e.prin1[i] # Str(Prin1(e.args[i])) THEN {"prin1"} ELSE {})
               \* ~A / ~S of an argument and princ / prin1 of it under the same setting of the printer variables (a relation)
               \cup (IF \E i \in 1..Len(e.agree) : e.agree[i].a # e.agree[i].princ \/ e.agree[i].s # e.agree[i].prin1 THEN {"agree"} ELSE {})
  IN [kinds |-> kinds, st |-> exp.st, want |-> want, why |-> exp.why]
\* residual: what still disagrees when the definition is altered by the listed deviations (empty: a known finding)
Judge(e) == LET j == Judge0(e, {}) IN
            IF j.kinds = {} \/ Dev = {} THEN j @@ [residual |-> j.kinds]
            ELSE LET k == Judge0(e, Dev) IN j @@ [residual |-> k.kinds]
Next == /\ l <= Len(Trace)
        /\ l' = l + 1
        /\ LET e == Trace[l]  j == Judge(e) IN
           /\ bad' = IF j.kinds = {} THEN bad ELSE Append(bad, [id |-> e.id, kinds |-> j.kinds, st |-> j.st, want |-> j.want, why |-> j.why, residual |-> j.residual])
           /\ open' = IF j.st = "open" THEN open + 1 ELSE open
Done == (l = Len(Trace) + 1) => PrintT("RESULT" \o ToJson([bad |-> bad, checked |-> Len(Trace), open |-> open]))
=============================================================================
