CONSTANTS
 Level = 1
 MaxPieces = 4
 Family = "all"
INIT Init
NEXT Next
INVARIANT EmitInit
CHECK_DEADLOCK FALSE
