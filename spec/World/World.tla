-------------------------------- MODULE World --------------------------------
(***************************************************************************)
(* C19 - a session is a set of definitions; a snapshot of it, loaded into  *)
(* a fresh session, gives the same world, and the snapshot of that session *)
(* is the same text.                                                       *)
(* The items a session can define, with what each needs defined before it  *)
(* (Deps) and the Lisp text the harness evaluates for it (Text), and the   *)
(* probes that observe the world (Probes) with the value each must have    *)
(* given what is defined (Expected).  TLC enumerates sessions: a state is  *)
(* the set of items defined (with which of the two definitions of wf1 and  *)
(* wp1 is current), a transition defines one more item.                    *)
(* The harness runs a session in a fresh process (probes P1, snapshot S1), *)
(* loads S1 into another fresh process (probes P2, snapshot S2) and        *)
(* WorldTrace judges: P1 = Expected, P2 = P1, S2 = S1.                     *)
(***************************************************************************)
EXTENDS Integers, Sequences, FiniteSets, TLC, Json
CONSTANTS MaxOps, EmitFrom
Items == {"wv1", "wp1", "wp1b", "wc1", "wh1", "wf1", "wf1b", "wf2", "wm1", "wfa", "wfam", "wfb", "wfm", "wfc", "wi1", "wca", "wcb", "wg1", "wg1a", "wg1b", "wpk",
          \* flavors whose names sort against their inheritance (the child first, an unrelated one between), a list as the default of
          \* an inherited variable, a generic function with daemons next to its primary method
          "wzb", "wzo", "wac", "wfl", "wfl2", "wg2", "wg2p", "wg2b", "wg2a",
          \* classes without accessors (their load forms can be evaluated, see finding C19-F16) with a generic function of two
          \* required parameters and an :around method, a lambda as the value of a variable
          "wcn", "wcn2", "wg3", "wg3a", "wg3b", "wl1", "wi2"}
Deps(i) == CASE i = "wp1b" -> {"wp1"} [] i = "wf1" -> {"wp1"} [] i = "wf1b" -> {"wf1"} [] i = "wf2" -> {"wf1"}
             [] i = "wfam" -> {"wfa"} [] i = "wfb" -> {"wfa"} [] i = "wi1" -> {"wfb"} [] i = "wi2" -> {"wfa"} [] i = "wfm" -> {"wfa"} [] i = "wfc" -> {"wfm"}
             [] i = "wcb" -> {"wca"} [] i = "wg1a" -> {"wca", "wg1"} [] i = "wg1b" -> {"wcb", "wg1a"}
             [] i = "wac" -> {"wzb"} [] i = "wfl2" -> {"wfl"} [] i = "wg2p" -> {"wg2"} [] i = "wg2b" -> {"wg2p"} [] i = "wg2a" -> {"wg2p"}
             [] i = "wcn2" -> {"wcn"} [] i = "wg3a" -> {"wcn", "wg3"} [] i = "wg3b" -> {"wcn2", "wg3"}
             [] OTHER -> {}
Text(i) == CASE i = "wv1" -> "(defvar wv1 '(1 \"two\" (3 . 4) #\\c sym :kw))"
             [] i = "wp1" -> "(defparameter wp1 12)"
             [] i = "wp1b" -> "(setq wp1 40)"
             [] i = "wc1" -> "(defconstant wc1 \"const\")"
             [] i = "wh1" -> "(progn (defvar wh1 (make-hash-table)) (setf (gethash 'k wh1) 7) (setf (gethash \"s\" wh1) '(1 2)) (setf (gethash 1 wh1) 'one) (setf (gethash :kw wh1) \"v\") (setf (gethash #\\c wh1) 2.5) (setf (gethash 'zz wh1) nil))"
             [] i = "wf1" -> "(defun wf1 (x) (+ x wp1))"
             [] i = "wf1b" -> "(defun wf1 (x &optional (k 3)) \"multiplied\" (let ((y (* x k))) (if (< y 10) y (- y 1))))"
             [] i = "wf2" -> "(defun wf2 (a &optional (b 2) &key (c 3)) (list a b c (wf1 a)))"
             [] i = "wm1" -> "(defmacro wm1 (x) `(* 2 ,x))"
             [] i = "wfa" -> "(defflavor wfa ((a 1) b) () :gettable-instance-variables :settable-instance-variables :initable-instance-variables)"
             [] i = "wfam" -> "(defmethod (wfa :double) () (* 2 a))"
             [] i = "wfb" -> "(defflavor wfb ((c 3)) (wfa) :gettable-instance-variables)"
             [] i = "wfm" -> "(defflavor wfm ((a 2)) (wfa))"
             [] i = "wfc" -> "(defflavor wfc ((a 1) (b 'sym)) (wfm))"      \* a is given again the default of the grandparent
             [] i = "wi1" -> "(defvar wi1 (make-instance 'wfb :a 10))"
             \* an instance that holds another instance in two of its variables (reached along two paths)
             [] i = "wi2" -> "(defvar wi2 (let ((leaf (make-instance 'wfa :a 7))) (make-instance 'wfa :a leaf :b leaf)))"
             [] i = "wca" -> "(defclass wca () ((x :initarg :x :initform 5 :accessor wca-x)))"
             [] i = "wcb" -> "(defclass wcb (wca) ((y :initform \"why\" :reader wcb-y)))"
             [] i = "wg1" -> "(defgeneric wg1 (o))"
             [] i = "wg1a" -> "(defmethod wg1 ((o wca)) (list 'wca (wca-x o)))"
             [] i = "wg1b" -> "(defmethod wg1 ((o wcb)) (list 'wcb (wca-x o) (wcb-y o)))"
             [] i = "wzb" -> "(defflavor wzz-base ((q 1)) () :gettable-instance-variables)"
             [] i = "wzo" -> "(defflavor wzy-other ((r 2)) () :gettable-instance-variables)"
             [] i = "wac" -> "(defflavor waa-child ((s 3)) (wzz-base) :gettable-instance-variables)"
             [] i = "wfl" -> "(defflavor wfl ((lst '(1 2)) (n 0)) () :gettable-instance-variables)"
             [] i = "wfl2" -> "(defflavor wfl2 ((n 5)) (wfl) :gettable-instance-variables)"
             [] i = "wg2" -> "(progn (defvar wg2-trace nil) (defgeneric wg2 (o)))"
             [] i = "wg2p" -> "(defmethod wg2 ((o fixnum)) (list 'p o))"
             [] i = "wg2b" -> "(defmethod wg2 :before ((o fixnum)) (setq wg2-trace (cons 'b wg2-trace)))"
             [] i = "wg2a" -> "(defmethod wg2 :after ((o fixnum)) (setq wg2-trace (cons 'a wg2-trace)))"
             [] i = "wcn" -> "(defclass wcn () ((z :initarg :z :initform 7) (w :initform '(1 2))))"
             [] i = "wcn2" -> "(defclass wcn2 (wcn) ((v :initarg :v :initform \"v\")))"
             [] i = "wg3" -> "(defgeneric wg3 (o p))"
             [] i = "wg3a" -> "(defmethod wg3 ((o wcn) (p fixnum)) (list 'n (slot-value o 'z) p))"
             [] i = "wg3b" -> "(defmethod wg3 :around ((o wcn2) (p t)) (cons 'around (call-next-method o p)))"
             [] i = "wl1" -> "(defvar wl1 (lambda (x) (let ((y 3)) (cond ((< x 0) 0 1) (t (when (< y 0) 5 6) (* x y))))))"
             [] i = "wpk" -> "(progn (defpackage \"wpk\" (:use \"common-lisp\") (:export \"pf\")) (in-package \"wpk\") (defun pf (x) (list 'pf x)) (in-package \"common-lisp-user\"))"
\* the probes: Lisp text, evaluated and printed with prin1 (an error is the text "error")
Probes == <<"wv1", "wp1", "wc1", "(gethash 'k wh1)", "(gethash \"s\" wh1)", "(hash-table-count wh1)", "(wf1 5)", "(wf1 1)", "(wf1 2 4)", "(wf2 1)", "(wf2 1 7 :c 8)", "(wm1 4)",
            "(send (make-instance 'wfa) :a)", "(send (make-instance 'wfa :a 4) :double)", "(send (make-instance 'wfb) :c)", "(send (make-instance 'wfb :a 6) :double)",
            "(send wi1 :a)", "(send wi1 :c)", "(send (send wi2 :a) :a)", "(send (send wi2 :b) :a)", "(send (make-instance 'wfm) :a)", "(send (make-instance 'wfc) :a)", "(send (make-instance 'wfc) :b)", "(wca-x (make-instance 'wca))", "(wca-x (make-instance 'wcb :x 9))", "(wcb-y (make-instance 'wcb))",
            "(wg1 (make-instance 'wca))", "(wg1 (make-instance 'wcb :x 2))", "(wpk:pf 3)",
            "(send (make-instance 'waa-child) :q)", "(send (make-instance 'waa-child) :s)", "(send (make-instance 'wzy-other) :r)",
            "(send (make-instance 'wfl2) :lst)", "(send (make-instance 'wfl2) :n)",
            "(wg2 5)", "(progn (setq wg2-trace nil) (wg2 5) wg2-trace)",
            "(slot-value (make-instance 'wcn) 'z)", "(slot-value (make-instance 'wcn2 :z 1) 'w)", "(slot-value (make-instance 'wcn2) 'v)",
            "(wg3 (make-instance 'wcn) 4)", "(wg3 (make-instance 'wcn2 :z 1) 4)", "(funcall wl1 4)">>
Wp(d) == IF "wp1b" \in d THEN 40 ELSE 12
Wf1(d, x) == IF "wf1b" \in d THEN (IF x * 3 < 10 THEN x * 3 ELSE x * 3 - 1) ELSE x + Wp(d)
Num(n) == IF n = 0 THEN "0" ELSE LET RECURSIVE ds(_)
                                     ds(k) == IF k = 0 THEN "" ELSE ds(k \div 10) \o SubSeq("0123456789", (k % 10) + 1, (k % 10) + 1)
                                 IN ds(n)
\* the value of probe p in a world where the items of d are defined
Expected(d, p) ==
  LET has(i) == i \in d  err == "error" IN
  CASE p = "wv1" -> IF has("wv1") THEN "(1 \"two\" (3 . 4) #\\c sym :kw)" ELSE err
    [] p = "wp1" -> IF has("wp1") THEN Num(Wp(d)) ELSE err
    [] p = "wc1" -> IF has("wc1") THEN "\"const\"" ELSE err
    [] p = "(gethash 'k wh1)" -> IF has("wh1") THEN "7" ELSE err
    [] p = "(gethash \"s\" wh1)" -> IF has("wh1") THEN "(1 2)" ELSE err
    [] p = "(hash-table-count wh1)" -> IF has("wh1") THEN "6" ELSE err
    [] p = "(wf1 5)" -> IF has("wf1") THEN Num(Wf1(d, 5)) ELSE err
    [] p = "(wf1 1)" -> IF has("wf1") THEN Num(Wf1(d, 1)) ELSE err
    [] p = "(wf1 2 4)" -> IF has("wf1b") THEN "8" ELSE err          \* the first definition takes one argument
    [] p = "(send (make-instance 'wfm) :a)" -> IF has("wfm") THEN "2" ELSE err
    [] p = "(send (make-instance 'wfc) :a)" -> IF has("wfc") THEN "1" ELSE err
    [] p = "(send (make-instance 'wfc) :b)" -> IF has("wfc") THEN "sym" ELSE err
    [] p = "(wf2 1)" -> IF has("wf2") THEN "(1 2 3 " \o Num(Wf1(d, 1)) \o ")" ELSE err
    [] p = "(wf2 1 7 :c 8)" -> IF has("wf2") THEN "(1 7 8 " \o Num(Wf1(d, 1)) \o ")" ELSE err
    [] p = "(wm1 4)" -> IF has("wm1") THEN "8" ELSE err
    [] p = "(send (make-instance 'wfa) :a)" -> IF has("wfa") THEN "1" ELSE err
    [] p = "(send (make-instance 'wfa :a 4) :double)" -> IF has("wfam") THEN "8" ELSE err
    [] p = "(send (make-instance 'wfb) :c)" -> IF has("wfb") THEN "3" ELSE err
    [] p = "(send (make-instance 'wfb :a 6) :double)" -> IF has("wfb") /\ has("wfam") THEN "12" ELSE err
    [] p = "(send wi1 :a)" -> IF has("wi1") THEN "10" ELSE err
    [] p = "(send wi1 :c)" -> IF has("wi1") THEN "3" ELSE err
    [] p = "(send (send wi2 :a) :a)" -> IF has("wi2") THEN "7" ELSE err
    [] p = "(send (send wi2 :b) :a)" -> IF has("wi2") THEN "7" ELSE err
    [] p = "(wca-x (make-instance 'wca))" -> IF has("wca") THEN "5" ELSE err
    [] p = "(wca-x (make-instance 'wcb :x 9))" -> IF has("wcb") THEN "9" ELSE err
    [] p = "(wcb-y (make-instance 'wcb))" -> IF has("wcb") THEN "\"why\"" ELSE err
    [] p = "(wg1 (make-instance 'wca))" -> IF has("wg1a") THEN "(wca 5)" ELSE err
    [] p = "(wg1 (make-instance 'wcb :x 2))" -> IF has("wg1b") THEN "(wcb 2 \"why\")" ELSE IF has("wg1a") /\ has("wcb") THEN "(wca 2)" ELSE err
    [] p = "(wpk:pf 3)" -> IF has("wpk") THEN "(pf 3)" ELSE err
    [] p = "(send (make-instance 'waa-child) :q)" -> IF has("wac") THEN "1" ELSE err
    [] p = "(send (make-instance 'waa-child) :s)" -> IF has("wac") THEN "3" ELSE err
    [] p = "(send (make-instance 'wzy-other) :r)" -> IF has("wzo") THEN "2" ELSE err
    [] p = "(send (make-instance 'wfl2) :lst)" -> IF has("wfl2") THEN "(1 2)" ELSE err
    [] p = "(send (make-instance 'wfl2) :n)" -> IF has("wfl2") THEN "5" ELSE err
    [] p = "(slot-value (make-instance 'wcn) 'z)" -> IF has("wcn") THEN "7" ELSE err
    [] p = "(slot-value (make-instance 'wcn2 :z 1) 'w)" -> IF has("wcn2") THEN "(1 2)" ELSE err
    [] p = "(slot-value (make-instance 'wcn2) 'v)" -> IF has("wcn2") THEN "\"v\"" ELSE err
    [] p = "(wg3 (make-instance 'wcn) 4)" -> IF has("wg3a") THEN "(n 7 4)" ELSE err
    \* the :around method of the subclass wraps the primary method of the class; without a primary method there is nothing to call
    [] p = "(wg3 (make-instance 'wcn2 :z 1) 4)" -> IF has("wg3a") /\ has("wcn2") THEN (IF has("wg3b") THEN "(around n 1 4)" ELSE "(n 1 4)") ELSE err
    [] p = "(funcall wl1 4)" -> IF has("wl1") THEN "12" ELSE err
    [] p = "(wg2 5)" -> IF has("wg2p") THEN "(p 5)" ELSE err
    \* the :before daemon runs before and the :after daemon after the primary method: each pushes its mark
    [] p = "(progn (setq wg2-trace nil) (wg2 5) wg2-trace)" ->
         IF ~has("wg2p") THEN err
         ELSE IF has("wg2b") /\ has("wg2a") THEN "(a b)" ELSE IF has("wg2b") THEN "(b)" ELSE IF has("wg2a") THEN "(a)" ELSE "nil"

\* ---- the objects of a session and their load forms ------------------------------------------------------------------------
\* Every definition item belongs to one object that offers a load form (make-load-form): the value of a variable, a
\* function, a macro, a flavor (with its methods), an instance, a class, a generic function (with its methods), a package
\* and the function defined in it.  anchor: the item that creates the object; expr: the Lisp expression whose value is given
\* to make-load-form; the text evaluated in the fresh session is pre \o <pretty-printed load form> \o post.  The sequence is
\* in an order in which the objects can be rebuilt (what an object refers to comes before it).  The world after evaluating
\* the load forms of all objects of a session must answer every probe as the session itself does.
Obj(a, e, pre, post) == [anchor |-> a, expr |-> e, pre |-> pre, post |-> post]
Objs == << Obj("wv1", "'wv1", "(defvar wv1 ", ")"), Obj("wp1", "'wp1", "(defparameter wp1 ", ")"), Obj("wc1", "'wc1", "(defconstant wc1 ", ")"),
           Obj("wh1", "'wh1", "(defvar wh1 ", ")"), Obj("wl1", "'wl1", "(defvar wl1 ", ")"), Obj("wf1", "'wf1", "", ""), Obj("wf2", "'wf2", "", ""), Obj("wm1", "'wm1", "", ""),
           Obj("wfa", "'wfa", "", ""), Obj("wfb", "'wfb", "", ""), Obj("wfm", "'wfm", "", ""), Obj("wfc", "'wfc", "", ""),
           Obj("wzb", "'wzz-base", "", ""), Obj("wzo", "'wzy-other", "", ""), Obj("wac", "'waa-child", "", ""),
           Obj("wfl", "'wfl", "", ""), Obj("wfl2", "'wfl2", "", ""), Obj("wi1", "wi1", "(defvar wi1 ", ")"), Obj("wi2", "wi2", "(defvar wi2 ", ")"),
           Obj("wca", "'wca", "", ""), Obj("wcb", "'wcb", "", ""), Obj("wcn", "'wcn", "", ""), Obj("wcn2", "'wcn2", "", ""),
           Obj("wg1", "'wg1", "", ""), Obj("wg3", "'wg3", "", ""),
           Obj("wg2", "'wg2-trace", "(defvar wg2-trace ", ")"), Obj("wg2", "'wg2", "", ""),
           Obj("wpk", "(find-package \"wpk\")", "", ""), Obj("wpk", "'wpk::pf", "(in-package \"wpk\") ", " (in-package \"common-lisp-user\")") >>
ObjsOf(d) == SelectSeq(Objs, LAMBDA o : o.anchor \in d)
\* every item is carried by an object whose anchor it needs (directly or not): nothing of a session is outside the objects
RECURSIVE Needs(_)
Needs(i) == {i} \cup UNION {Needs(j) : j \in Deps(i)}
ObjsCover == \A i \in Items : \E k \in 1..Len(Objs) : Objs[k].anchor \in Needs(i)

VARIABLES defined, hist
Init == defined = {} /\ hist = <<>>
Define(i) == /\ i \notin defined /\ Deps(i) \subseteq defined
             /\ defined' = defined \cup {i} /\ hist' = Append(hist, i)
Next == Len(hist) < MaxOps /\ \E i \in Items : Define(i)
Case(h) == [items |-> h, forms |-> [k \in 1..Len(h) |-> Text(h[k])], probes |-> Probes, objs |-> ObjsOf({h[k] : k \in 1..Len(h)})]
Emit == Len(hist') < EmitFrom \/ PrintT(ToJson(Case(hist')))
EmitState == Len(hist) < EmitFrom \/ PrintT(ToJson(Case(hist)))
\* directed sessions: every group of items that belong together (a function with its redefinitions, a flavor family, a
\* class hierarchy with its generic function, a generic function with its daemons ...) defined completely, and every two groups
\* one after the other
Groups == {<<"wp1", "wp1b", "wf1", "wf1b", "wf2">>, <<"wfa", "wfam", "wfb", "wi1", "wfm", "wfc", "wi2">>, <<"wzb", "wzo", "wac">>, <<"wfl", "wfl2">>,
           <<"wca", "wcb", "wg1", "wg1a", "wg1b">>, <<"wg2", "wg2p", "wg2b", "wg2a">>, <<"wg2", "wg2p", "wg2a", "wg2b">>,
           <<"wcn", "wcn2", "wg3", "wg3a", "wg3b">>, <<"wcn", "wcn2", "wg3", "wg3b", "wg3a">>,
           <<"wv1", "wc1", "wh1", "wm1", "wpk", "wl1">>}
InS(x, q) == \E j \in 1..Len(q) : q[j] = x
Merge(g, h) == g \o SelectSeq(h, LAMBDA x : ~InS(x, g))
DirectedSessions == Groups \cup {Merge(g, h) : g \in Groups, h \in Groups}
DInit == hist \in DirectedSessions /\ defined = {hist[j] : j \in 1..Len(hist)}
DNext == UNCHANGED <<defined, hist>>
EmitDirected == PrintT(ToJson(Case(hist)))
\* the order of a directed session respects the dependencies
DirectedOK == \A q \in DirectedSessions : \A j \in 1..Len(q) : Deps(q[j]) \subseteq {q[k] : k \in 1..(j - 1)}
View == defined
\* design: whatever is defined, every probe has a value (the table is total), and definitions only add
Total == ObjsCover /\ \A p \in {Probes[k] : k \in 1..Len(Probes)} : Expected(defined, p) # ""
=============================================================================
