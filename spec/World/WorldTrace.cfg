CONSTANTS
 MaxOps = 14
 EmitFrom = 0
INIT InitT
NEXT NextT
INVARIANT DoneT
CHECK_DEADLOCK FALSE
