CONSTANTS
 MaxOps = 3
 EmitFrom = 1
INIT Init
NEXT Next
VIEW View
ACTION_CONSTRAINT Emit
INVARIANT Total
CHECK_DEADLOCK FALSE
