CONSTANTS
 MaxOps = 30
 EmitFrom = 1
INIT DInit
NEXT DNext
INVARIANTS EmitDirected DirectedOK
CHECK_DEADLOCK FALSE
