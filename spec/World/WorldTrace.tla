----------------------------- MODULE WorldTrace -----------------------------
(***************************************************************************)
(* Acceptor for C19 sessions: [id, items, p1 (probe values in the session  *)
(* that made the definitions), st2 (loading the snapshot in a fresh        *)
(* process), p2 (probe values there), same (the second snapshot is the     *)
(* first, the time stamp line aside), lf (per distinct text of the pretty-  *)
(* printed load forms of the session's objects: margins, st and probe      *)
(* values p after evaluating them in a fresh process)].                    *)
(* Records which probes differ.                                            *)
(***************************************************************************)
EXTENDS World
Trace == ndJsonDeserialize("traces.ndjson")
VARIABLES l, bad
Judge(t) == LET d == {t.items[k] : k \in 1..Len(t.items)}
                wrong1 == {k \in 1..Len(Probes) : t.p1[k] # Expected(d, Probes[k])}
                wrong2 == {k \in 1..Len(Probes) : t.p2[k] # t.p1[k]}
                \* the objects rebuilt from their pretty-printed load forms (one entry per distinct text): every form evaluates
                \* and every probe answers as in the defining session
                lfbad == {j \in 1..Len(t.lf) : t.lf[j].st # "ok" \/ \E k \in 1..Len(Probes) : t.lf[j].p[k] # t.p1[k]}
            IN [first |-> wrong1, reload |-> IF t.st2 = "ok" THEN wrong2 ELSE {}, loads |-> t.st2 = "ok", same |-> t.same,
                lf |-> {[margins |-> t.lf[j].margins, st |-> t.lf[j].st,
                         probes |-> {Probes[k] : k \in {k \in 1..Len(Probes) : t.lf[j].p[k] # t.p1[k]}}] : j \in lfbad}]
InitT == l = 1 /\ bad = <<>> /\ defined = {} /\ hist = <<>>
NextT == /\ l <= Len(Trace) /\ l' = l + 1 /\ UNCHANGED <<defined, hist>>
         /\ LET t == Trace[l]  j == Judge(t) IN
            bad' = IF j.first = {} /\ j.reload = {} /\ j.loads /\ j.same /\ j.lf = {} THEN bad
                   ELSE Append(bad, [id |-> t.id, first |-> {Probes[k] : k \in j.first}, reload |-> {Probes[k] : k \in j.reload}, loads |-> j.loads, same |-> j.same, lf |-> j.lf])
DoneT == (l = Len(Trace) + 1) => PrintT("RESULT" \o ToJson([bad |-> bad, checked |-> Len(Trace)]))
=============================================================================
