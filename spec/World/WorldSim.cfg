CONSTANTS
 MaxOps = 14
 EmitFrom = 8
INIT Init
NEXT Next
INVARIANT EmitState
CHECK_DEADLOCK FALSE
