CONSTANTS
 NK = 4
 MaxOps = 4
 EmitFrom = 0
INIT Init
NEXT Next
VIEW View
ACTION_CONSTRAINT Emit
CHECK_DEADLOCK FALSE
