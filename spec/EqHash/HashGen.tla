------------------------------- MODULE HashGen -------------------------------
(***************************************************************************)
(* Operation histories for the hash-table part of C16: every sequence of   *)
(* put / get / rem / clr / map over NK key slots and the values nil, 1, 2  *)
(* up to MaxOps, one per transition of the graph whose state is the table  *)
(* under key identity.  (Which slots hold equivalent keys is decided by    *)
(* the universe the harness instantiates; the acceptor EqHash judges.)     *)
(***************************************************************************)
EXTENDS Integers, Sequences, TLC, FiniteSets, Json
CONSTANTS NK, MaxOps, EmitFrom
Keys == 0..(NK - 1)
Vals == {-1, 1, 2}
VARIABLES tab, hist
Init == tab = {} /\ hist = <<>>
Op(ev, k, v) == [ev |-> ev, k |-> k, v |-> v]
Put(k, v) == tab' = {p \in tab : p[1] # k} \cup {<<k, v>>} /\ hist' = Append(hist, Op("put", k, v))
Get(k) == tab' = tab /\ hist' = Append(hist, Op("get", k, 0))
Rem(k) == tab' = {p \in tab : p[1] # k} /\ hist' = Append(hist, Op("rem", k, 0))
Clr == tab' = {} /\ tab # {} /\ hist' = Append(hist, Op("clr", 0, 0))
Map == tab' = tab /\ hist' = Append(hist, Op("map", 0, 0))
Next == /\ Len(hist) < MaxOps
        /\ \/ \E k \in Keys, v \in Vals : Put(k, v)
           \/ \E k \in Keys : Get(k) \/ Rem(k)
           \/ Clr \/ Map
Emit == Len(hist') < EmitFrom \/ PrintT(ToJson([hist |-> hist']))
EmitState == Len(hist) < EmitFrom \/ PrintT(ToJson([hist |-> hist]))
View == tab
=============================================================================
