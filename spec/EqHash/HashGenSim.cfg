CONSTANTS
 NK = 4
 MaxOps = 12
 EmitFrom = 12
INIT Init
NEXT Next
INVARIANT EmitState
CHECK_DEADLOCK FALSE
