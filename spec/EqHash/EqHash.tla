------------------------------- MODULE EqHash -------------------------------
(***************************************************************************)
(* C16 - equality, hashing and type predicates are mutually coherent.      *)
(* (a) algebraic laws evaluated over relation matrices logged from slip's  *)
(*     own predicates on a generated universe; each law returns the tuples *)
(*     that violate it;                                                    *)
(* (b) a hash table as a finite map modulo slip's own eql: `tab` is a      *)
(*     sequence of [k, v] with pairwise non-equivalent keys.               *)
(***************************************************************************)
EXTENDS Integers, Sequences, TLC, FiniteSets, Json
CONSTANT TraceFile
E == ndJsonDeserialize(TraceFile)
R == E[1]
N == Len(R.univ)
Idx == 1..N
Rel(name) == IF name = "eq" THEN R.eq ELSE IF name = "eql" THEN R.eql ELSE IF name = "equal" THEN R.equal ELSE R.equalp
Refl(m) == {i \in Idx : ~m[i][i]}
Symm(m) == {<<i, j>> \in Idx \X Idx : m[i][j] /\ ~m[j][i]}
Trans(m) == {<<i, j, k>> \in Idx \X Idx \X Idx : m[i][j] /\ m[j][k] /\ ~m[i][k]}
Implies(a, b) == {<<i, j>> \in Idx \X Idx : a[i][j] /\ ~b[i][j]}
HashOK == {<<i, j>> \in Idx \X Idx : R.equal[i][j] /\ R.sxhash[i] # R.sxhash[j]}
Laws == [reflexive |-> [p \in {"eq", "eql", "equal", "equalp"} |-> Refl(Rel(p))],
         symmetric |-> [p \in {"eq", "eql", "equal", "equalp"} |-> Symm(Rel(p))],
         transitive |-> [p \in {"eq", "eql", "equal", "equalp"} |-> Trans(Rel(p))],
         eq_eql |-> Implies(R.eq, R.eql), eql_equal |-> Implies(R.eql, R.equal), equal_equalp |-> Implies(R.equal, R.equalp),
         hash |-> HashOK]
\* hash table as a finite map modulo slip's own eql (indices are 0-based in the log)
Same(a, b) == R.eql[a + 1][b + 1]
VARIABLES l, tab, bad, skip
Init == l = 2 /\ tab = <<>> /\ bad = <<>> /\ skip = FALSE     \* tab: sequence of [k, v] with pairwise non-equivalent keys
Find(t, k) == SelectSeq(t, LAMBDA p : Same(p.k, k))
Without(t, k) == SelectSeq(t, LAMBDA p : ~Same(p.k, k))
Next == /\ l <= Len(E) /\ l' = l + 1
        /\ LET e == E[l]
               t0 == IF e.i = 1 THEN <<>> ELSE tab
               sk == IF e.i = 1 THEN FALSE ELSE skip
               t1 == CASE e.ev = "put" -> Append(Without(t0, e.k), [k |-> e.k, v |-> e.v])
                       [] e.ev = "rem" -> Without(t0, e.k)
                       [] OTHER -> t0
               expGet == IF Find(t0, e.k) = <<>> THEN -1 ELSE Find(t0, e.k)[1].v
               ok == e.ok /\ e.count = Len(t1) /\ (e.ev # "get" \/ e.v = expGet)
           IN /\ tab' = t1
              /\ skip' = (sk \/ ~ok)
              /\ bad' = IF sk \/ ok THEN bad ELSE Append(bad, [l |-> l, t |-> e.t, ev |-> e.ev, k |-> R.univ[e.k + 1]])
LawList == <<[law |-> "transitive", rel |-> "eql", n |-> Cardinality(Trans(R.eql))], [law |-> "transitive", rel |-> "equal", n |-> Cardinality(Trans(R.equal))],
             [law |-> "transitive", rel |-> "equalp", n |-> Cardinality(Trans(R.equalp))], [law |-> "transitive", rel |-> "eq", n |-> Cardinality(Trans(R.eq))],
             [law |-> "symmetric", rel |-> "all", n |-> Cardinality(Symm(R.eq) \cup Symm(R.eql) \cup Symm(R.equal) \cup Symm(R.equalp))],
             [law |-> "reflexive", rel |-> "all", n |-> Cardinality(Refl(R.eq) \cup Refl(R.eql) \cup Refl(R.equal) \cup Refl(R.equalp))],
             [law |-> "chain", rel |-> "eq<=eql<=equal<=equalp", n |-> Cardinality(Implies(R.eq, R.eql) \cup Implies(R.eql, R.equal) \cup Implies(R.equal, R.equalp))],
             [law |-> "sxhash", rel |-> "equal", n |-> Cardinality(HashOK)]>>
Done == (l = Len(E) + 1) => PrintT("RESULT" \o ToJson([bad |-> bad, checked |-> Len(E) - 1, laws |-> LawList,
             transitive |-> [i \in 1..Cardinality(Trans(R.eql)) |-> 0]]))
====
