------------------------------- MODULE EqHash -------------------------------
(***************************************************************************)
(* C16 - equality, hashing and type predicates are mutually coherent.      *)
(*                                                                         *)
(* (a) Laws over relations.  The first event of a trace carries, for a     *)
(*     generated universe of objects, the matrices of slip's own eq, eql,  *)
(*     equal, equalp, the sxhash codes, type-of, typep against a list of   *)
(*     type symbols, subtypep between those symbols and the outcome of     *)
(*     coerce.  The laws of the statement are first-order formulas over    *)
(*     these finite relations; each operator below returns the tuples that *)
(*     violate its law, so a rejection names them.                         *)
(* (b) A hash table is a finite map modulo its test: after any sequence of *)
(*     stores, removals and clears a lookup returns the value last stored  *)
(*     under an equivalent key (also when that value is nil), remhash      *)
(*     tells whether there was an entry, the count is the number of        *)
(*     distinct keys and maphash visits exactly the entries.  "Equivalent" *)
(*     is slip's own predicate of the table's test, from the matrices.     *)
(***************************************************************************)
EXTENDS Integers, Sequences, TLC, FiniteSets, Json
CONSTANT TraceFile
E == ndJsonDeserialize(TraceFile)
R == E[1]
N == Len(R.univ)
Idx == 1..N
NT == Len(R.types)
TIdx == 1..NT
Preds == {"eq", "eql", "equal", "equalp"}
Rel(name) == IF name = "eq" THEN R.eq ELSE IF name = "eql" THEN R.eql ELSE IF name = "equal" THEN R.equal ELSE R.equalp
Refl(m) == {i \in Idx : ~m[i][i]}
Symm(m) == {<<i, j>> \in Idx \X Idx : m[i][j] /\ ~m[j][i]}
Trans(m) == {<<i, j, k>> \in Idx \X Idx \X Idx : m[i][j] /\ m[j][k] /\ ~m[i][k]}
Implies(a, b) == {<<i, j>> \in Idx \X Idx : a[i][j] /\ ~b[i][j]}
HashBad == {<<i, j>> \in Idx \X Idx : R.equal[i][j] /\ R.sxhash[i] # R.sxhash[j]}
\* types: R.typeof[i] = index into R.types of (type-of x_i), 0 when it is not one of the listed symbols
TypeOfBad == {i \in Idx : R.typeof[i] > 0 /\ ~R.typep[i][R.typeof[i]]}
\* subtypep answers [v, sure]; a definite yes must agree with typep on the whole universe
SubDefYes(a, b) == R.subtypep[a][b].v /\ R.subtypep[a][b].sure
SubtypeTypepBad == {<<i, a, b>> \in Idx \X TIdx \X TIdx : R.typep[i][a] /\ SubDefYes(a, b) /\ ~R.typep[i][b]}
\* the property quantifies subtypep over "every type symbol known to the class registry": R.known[a] is what find-class
\* (or the designator t) answers for the a-th type name.  typep is judged for every name in the list.
Known == {a \in TIdx : R.known[a]}
SubReflBad == {a \in Known : ~SubDefYes(a, a)}
SubTransBad == {<<a, b, c>> \in Known \X Known \X Known : SubDefYes(a, b) /\ SubDefYes(b, c) /\ ~SubDefYes(a, c)}
\* a definite no must not be contradicted by ... nothing finite can show that; but an object of a but not of b refutes a definite yes (above)
\* coerce: R.coerce = sequence of [i, t, ok, isT]: coercing x_i to type t succeeded and the result is typep t
CoerceBad == {k \in 1..Len(R.coerce) : R.coerce[k].ok /\ ~R.coerce[k].isT}
\* slip documents make-hash-table's :test as ignored ("eql always used", and every table prints as #<hash-table eql ..>):
\* the test of every table is eql, whatever :test says.  The specification follows that documented reading.
\* a table must treat as one key what its test declares equivalent.  R.ident[i][j]: a key stored as x_i is found again
\* as x_j (probed by the harness on fresh tables); every pair the test relates must be related by it
TableBad(p) == {<<i, j>> \in Idx \X Idx : Rel(p)[i][j] /\ ~R.ident[i][j]}
LawList == <<[law |-> "predicates are total", n |-> Len(R.errors)],
             [law |-> "table key identity covers eq", n |-> Cardinality(TableBad("eq"))],
             [law |-> "table key identity covers eql", n |-> Cardinality(TableBad("eql"))],
             [law |-> "reflexive", n |-> Cardinality(UNION {Refl(Rel(p)) : p \in Preds})],
             [law |-> "symmetric", n |-> Cardinality(UNION {Symm(Rel(p)) : p \in Preds})],
             [law |-> "transitive eq", n |-> Cardinality(Trans(R.eq))], [law |-> "transitive eql", n |-> Cardinality(Trans(R.eql))],
             [law |-> "transitive equal", n |-> Cardinality(Trans(R.equal))], [law |-> "transitive equalp", n |-> Cardinality(Trans(R.equalp))],
             [law |-> "eq => eql => equal => equalp", n |-> Cardinality(Implies(R.eq, R.eql) \cup Implies(R.eql, R.equal) \cup Implies(R.equal, R.equalp))],
             [law |-> "equal => same sxhash", n |-> Cardinality(HashBad)],
             [law |-> "typep of own type-of", n |-> Cardinality(TypeOfBad)],
             [law |-> "typep closed under subtypep", n |-> Cardinality(SubtypeTypepBad)],
             [law |-> "subtypep reflexive", n |-> Cardinality(SubReflBad)],
             [law |-> "subtypep transitive", n |-> Cardinality(SubTransBad)],
             [law |-> "coerce returns the requested type", n |-> Cardinality(CoerceBad)]>>
\* witnesses (object / type indices, 1-based) of every violated law, for the report
Witness == [total |-> R.errors, tableEq |-> TableBad("eq"), tableEql |-> TableBad("eql"),
            symmetric |-> UNION {Symm(Rel(p)) : p \in Preds},
            transitive |-> Trans(R.eql) \cup Trans(R.equal) \cup Trans(R.equalp),
            chain |-> Implies(R.eq, R.eql) \cup Implies(R.eql, R.equal) \cup Implies(R.equal, R.equalp),
            hash |-> HashBad, typeof |-> TypeOfBad, subtypeTypep |-> SubtypeTypepBad, subRefl |-> SubReflBad,
            subTrans |-> SubTransBad, coerce |-> CoerceBad, reflexive |-> UNION {Refl(Rel(p)) : p \in Preds}]

\* ---- the hash table as a finite map modulo the table's test (key indices are 0-based in the log) --------
\* The mechanics of the table (store, replace, remove, clear, count, nil values, maphash) are judged modulo the key
\* identity the table actually implements (R.ident); that this identity is the one of the table's test is the
\* separate law above, so that one incoherence does not hide every other defect.
Same(test, a, b) == R.ident[a + 1][b + 1]
VARIABLES l, tab, bad, skip
Init == l = 2 /\ tab = <<>> /\ bad = <<>> /\ skip = FALSE     \* tab: sequence of [k, v] with pairwise non-equivalent keys
Find(t, test, k) == SelectSeq(t, LAMBDA p : Same(test, p.k, k))
Without(t, test, k) == SelectSeq(t, LAMBDA p : ~Same(test, p.k, k))
\* values: small integers; -1 stands for nil (a stored nil is an entry like any other)
Next == /\ l <= Len(E) /\ l' = l + 1
        /\ LET e == E[l]
               t0 == IF e.i = 1 THEN <<>> ELSE tab
               sk == IF e.i = 1 THEN FALSE ELSE skip
               hit == Find(t0, e.test, e.k)
               t1 == CASE e.ev = "put" -> Append(Without(t0, e.test, e.k), [k |-> e.k, v |-> e.v])
                       [] e.ev = "rem" -> Without(t0, e.test, e.k)
                       [] e.ev = "clr" -> <<>>
                       [] OTHER -> t0
               ok == /\ e.ok /\ e.count = Len(t1)
                     /\ (e.ev = "get" => (e.present = (hit # <<>>) /\ (hit # <<>> => e.v = hit[1].v)))
                     /\ (e.ev = "rem" => e.present = (hit # <<>>))
                     \* maphash: exactly one visit per entry, with the stored value, for keys equivalent to the stored ones
                     /\ (e.ev = "map" => /\ Len(e.seen) = Len(t0)
                                         /\ \A p \in {t0[j] : j \in 1..Len(t0)} :
                                              \E j \in 1..Len(e.seen) : Same(e.test, e.seen[j].k, p.k) /\ e.seen[j].v = p.v)
           IN /\ tab' = t1
              /\ skip' = (sk \/ ~ok)
              /\ bad' = IF sk \/ ok THEN bad ELSE Append(bad, [l |-> l, t |-> e.t, i |-> e.i, ev |-> e.ev, k |-> e.k, test |-> e.test])
Done == (l = Len(E) + 1) => PrintT("RESULT" \o ToJson([bad |-> bad, checked |-> Len(E) - 1, laws |-> LawList, witness |-> Witness]))
=============================================================================
