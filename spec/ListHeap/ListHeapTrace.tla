---------------------------- MODULE ListHeapTrace ----------------------------
(***************************************************************************)
(* C06 - lists keep value semantics although they are stored as shared     *)
(* slices.                                                                 *)
(*                                                                         *)
(* Permissive reference.  Per variable: the contents as last determined    *)
(* (`val`) and the set of abstract allocation identities the value may     *)
(* share structure with *by the language rules* (`ids`, a cons-cell        *)
(* reading at the granularity of whole allocations).                       *)
(*  - a function not documented as destructive returns the value the       *)
(*    language defines (computed from the current contents of its          *)
(*    arguments) and changes no variable;                                  *)
(*  - a destructive function returns the defined value and changes no      *)
(*    variable whose ids are disjoint from those of the list it works on;  *)
(*    variables that may share are havocked: the observation is adopted    *)
(*    and the id sets are joined.                                          *)
(* Whether the implementation shares more or less than a cons-cell Lisp    *)
(* is deliberately not constrained.  Only the first rejection of a trace   *)
(* is reported.                                                            *)
(***************************************************************************)
EXTENDS Integers, Sequences, TLC, FiniteSets, Json
CONSTANT TraceFile
Trace == ndJsonDeserialize(TraceFile)
Vars == {"lx", "ly", "lz"}
VarSeq == <<"lx", "ly", "lz">>
VARIABLES l, val, ids, nextId, bad, failed, seen

Fresh       == {"copy-list", "subseq", "reverse", "butlast", "mapcar", "list", "append0", "append3", "reduce-key",
                "mvlist", "copy-tree", "maprest"}
Destructive == {"setcar", "setnth", "setelt", "rplaca", "rplacd", "nconc", "nreverse", "sort", "delete", "delete-fe", "add"}
Setters     == {"setcar", "setnth", "setelt", "rplaca"}
\* push, pop and addf change the place (the variable) they are given and nothing else
PlaceOps    == {"push", "pop", "addf"}

Rev(s) == [i \in 1..Len(s) |-> s[Len(s) + 1 - i]]
Remove(a, s) == SelectSeq(s, LAMBDA e : e # a)
RemoveOdd(s) == SelectSeq(s, LAMBDA e : e % 2 = 0)
RECURSIVE Insert(_, _)
Insert(e, s) == IF s = <<>> THEN <<e>> ELSE IF e <= s[1] THEN <<e>> \o s ELSE <<s[1]>> \o Insert(e, Tail(s))
RECURSIVE Sort(_)
Sort(s) == IF s = <<>> THEN <<>> ELSE Insert(s[1], Sort(Tail(s)))
RECURSIVE MemberTail(_, _)
MemberTail(a, s) == IF s = <<>> THEN <<>> ELSE IF s[1] = a THEN s ELSE MemberTail(a, Tail(s))
Drop(k, s) == IF k >= Len(s) THEN <<>> ELSE SubSeq(s, k + 1, Len(s))
Idx(s) == [i \in 1..Len(s) |-> i]
Pick(s, keep) == [j \in 1..Len(keep) |-> s[keep[j]]]
\* (remove a s :count 1) drops the first occurrence, with :from-end t the last one
RemoveFirst(a, s) == LET h == SelectSeq(Idx(s), LAMBDA i : s[i] = a) IN IF h = <<>> THEN s ELSE Pick(s, SelectSeq(Idx(s), LAMBDA i : i # h[1]))
RemoveLast(a, s) == LET h == SelectSeq(Idx(s), LAMBDA i : s[i] = a) IN IF h = <<>> THEN s ELSE Pick(s, SelectSeq(Idx(s), LAMBDA i : i # h[Len(h)]))
\* remove-duplicates keeps the last of equal elements; union / set-difference are compared as sets (Judge)
RemoveDup(s) == Pick(s, SelectSeq(Idx(s), LAMBDA i : \A j \in (i + 1)..Len(s) : s[j] # s[i]))
RECURSIVE SumInc(_)
SumInc(s) == IF s = <<>> THEN 0 ELSE s[1] + 1 + SumInc(Tail(s))
Rng(s) == {s[i] : i \in 1..Len(s)}
SetOps == {"union", "set-difference"}

\* the value the language defines for the call, from the current contents
Expect(e, v) ==
  LET s == v[e.src] IN
  CASE e.op \in {"copy-list", "mapcar", "alias", "rest0", "mvlist", "copy-tree", "liststar0"} -> s
    [] e.op = "liststar"              -> <<e.a>> \o s                       \* (list* a src): a consed in front of src
    [] e.op = "subst"                 -> [i \in 1..Len(s) |-> IF s[i] = e.a THEN 9 ELSE s[i]]
    [] e.op = "maprest"               -> LET t == v[e.src2]  n == IF Len(s) < Len(t) THEN Len(s) ELSE Len(t) IN
                                         [i \in 1..2 * n |-> IF i % 2 = 1 THEN s[(i + 1) \div 2] ELSE t[i \div 2]]
    [] e.op = "append0"               -> s \o <<e.a>>                       \* (append '() src (list a))
    [] e.op = "append3"               -> s \o v[e.src2] \o <<e.a>>          \* (append src src2 (list a))
    [] e.op = "add"                   -> s \o <<e.a>>
    [] e.op = "remove-if"             -> RemoveOdd(s)
    [] e.op = "rest"                  -> Drop(1, s)
    [] e.op = "subseq"                -> SubSeq(s, 1, e.k)
    [] e.op \in {"reverse", "nreverse"} -> Rev(s)
    [] e.op = "butlast"               -> IF Len(s) <= 1 THEN <<>> ELSE SubSeq(s, 1, Len(s) - 1)
    [] e.op \in {"append", "nconc"}   -> s \o v[e.src2]
    [] e.op \in {"remove", "delete", "remove-fe", "delete-fe"}  -> Remove(e.a, s)
    [] e.op = "remove-cnt"            -> RemoveFirst(e.a, s)
    [] e.op = "remove-fecnt"          -> RemoveLast(e.a, s)
    [] e.op = "substitute"            -> [i \in 1..Len(s) |-> IF s[i] = e.a THEN 9 ELSE s[i]]
    [] e.op = "remove-dup"            -> RemoveDup(s)
    [] e.op = "reduce-key"            -> <<e.a + SumInc(s)>>                \* (list (reduce #'+ src :key #'1+ :initial-value a))
    [] e.op = "cons"                  -> <<e.a>> \o s
    [] e.op = "cdr"                   -> Drop(1, s)
    [] e.op = "nthcdr"                -> Drop(e.k, s)
    [] e.op = "last"                  -> IF s = <<>> THEN <<>> ELSE <<s[Len(s)]>>
    [] e.op = "member"                -> MemberTail(e.a, s)
    [] e.op = "sort"                  -> Sort(s)
    [] e.op = "list"                  -> <<e.a, e.k + 1>>
    [] OTHER                          -> <<>>

ResultIds(e, id, n) ==
  CASE e.op \in Fresh   -> {n}
    [] e.op = "append"  -> {n} \cup id[e.src2]
    [] e.op \in SetOps  -> {n} \cup id[e.src] \cup id[e.src2]
    [] e.op = "nconc"   -> {n} \cup id[e.src] \cup id[e.src2]
    [] OTHER            -> {n} \cup id[e.src]

Why(e, v, kind) == [t |-> e.t, i |-> e.i, form |-> e.form, var |-> v, kind |-> kind]
Changed(e, v0, free) == SelectSeq(VarSeq, LAMBDA x : free[x] /\ e.vars[x] # v0[x])

\* one event -> [val, ids, nextId, why (sequence of reasons, empty when accepted)]
Judge(e, v0, id0, n0) ==
  IF e.op = "init" THEN
    [val |-> [x \in Vars |-> e.vars[x]],
     ids |-> [x \in Vars |-> {IF x = "lx" THEN n0 ELSE IF x = "ly" THEN n0 + 1 ELSE n0 + 2}],
     nextId |-> n0 + 3, why |-> <<>>]
  ELSE IF e.st # "ok" THEN          \* the call failed: not a C06 matter, but nothing may have changed
    LET ch == Changed(e, v0, [x \in Vars |-> TRUE]) IN
    [val |-> [x \in Vars |-> e.vars[x]], ids |-> id0, nextId |-> n0,
     why |-> [i \in 1..Len(ch) |-> Why(e, ch[i], "changed-by-failed-call")]]
  ELSE IF e.op \in PlaceOps THEN
    \* (push a place) / (pop place): the variable is rebound, every other variable keeps its contents
    LET newsrc == IF e.op = "push" THEN <<e.a>> \o v0[e.src] ELSE IF e.op = "addf" THEN v0[e.src] \o <<e.a>> ELSE Drop(1, v0[e.src])
        wantret == IF e.op \in {"push", "addf"} THEN newsrc ELSE IF v0[e.src] = <<>> THEN <<>> ELSE <<v0[e.src][1]>>
        free   == [x \in Vars |-> x # e.src]
        ch     == Changed(e, v0, free)
    IN [val |-> [x \in Vars |-> IF x = e.src THEN newsrc ELSE v0[x]],
        ids |-> [x \in Vars |-> IF x = e.src /\ e.op \in {"push", "addf"} THEN id0[x] \cup {n0} ELSE id0[x]],
        nextId |-> n0 + 1,
        why |-> (IF e.vars[e.src] # newsrc THEN <<Why(e, e.src, "place-effect")>> ELSE <<>>)
                \o (IF e.ret # wantret THEN <<Why(e, e.src, "wrong-result")>> ELSE <<>>)
                \o [i \in 1..Len(ch) |-> Why(e, ch[i], "changed-by-place-operation")]]
  ELSE IF e.op \in Setters THEN
    LET k      == IF e.op \in {"setnth", "setelt"} THEN e.k + 1 ELSE 1
        newsrc == [v0[e.src] EXCEPT ![k] = e.a]
        free   == [x \in Vars |-> x # e.src /\ id0[x] \cap id0[e.src] = {}]
        ch     == Changed(e, v0, free)
    IN [val |-> [x \in Vars |-> IF x = e.src THEN newsrc ELSE IF free[x] THEN v0[x] ELSE e.vars[x]],
        ids |-> [x \in Vars |-> IF x # e.src /\ ~free[x] THEN id0[x] \cup id0[e.src] ELSE id0[x]],
        nextId |-> n0,
        why |-> (IF e.vars[e.src] # newsrc THEN <<Why(e, e.src, "setter-effect")>> ELSE <<>>)
                \o [i \in 1..Len(ch) |-> Why(e, ch[i], "independent-list-changed")]]
  ELSE
    LET exp   == Expect(e, v0)
        destr == e.op \in Destructive
        free  == [x \in Vars |-> x # e.dst /\ (~destr \/ id0[x] \cap id0[e.src] = {})]
        ch    == Changed(e, v0, free)
    IN [val |-> [x \in Vars |-> IF x = e.dst THEN e.ret ELSE IF free[x] THEN v0[x] ELSE e.vars[x]],
        ids |-> [x \in Vars |-> IF x = e.dst THEN ResultIds(e, id0, n0)
                                ELSE IF free[x] THEN id0[x] ELSE id0[x] \cup id0[e.src]],
        nextId |-> n0 + 1,
        why |-> (IF e.op \in SetOps
                 THEN (IF Rng(e.ret) # (IF e.op = "union" THEN Rng(v0[e.src]) \cup Rng(v0[e.src2]) ELSE Rng(v0[e.src]) \ Rng(v0[e.src2]))
                       THEN <<Why(e, e.dst, "wrong-result")>> ELSE <<>>)
                 ELSE IF e.op # "rplacd" /\ e.ret # exp THEN <<Why(e, e.dst, "wrong-result")>> ELSE <<>>)
                \o (IF e.vars[e.dst] # e.ret THEN <<Why(e, e.dst, "dst-not-result")>> ELSE <<>>)
                \o [i \in 1..Len(ch) |-> Why(e, ch[i], IF destr THEN "independent-list-changed"
                                                                 ELSE "changed-by-nondestructive")]]

Init == /\ l = 1 /\ val = [v \in Vars |-> <<>>] /\ ids = [v \in Vars |-> {}] /\ nextId = 1
        /\ bad = <<>> /\ failed = FALSE /\ seen = 0
Next ==
  /\ l <= Len(Trace) /\ l' = l + 1
  /\ LET e  == Trace[l]
         f0 == IF e.op = "init" THEN FALSE ELSE failed
         j  == Judge(e, val, ids, nextId)
     IN IF f0 THEN UNCHANGED <<val, ids, nextId, bad, seen>> /\ failed' = TRUE
        ELSE /\ val' = j.val /\ ids' = j.ids /\ nextId' = j.nextId
             /\ seen' = seen + 1
             /\ failed' = (j.why # <<>>)
             /\ bad' = IF j.why = <<>> THEN bad ELSE Append(bad, [l |-> l] @@ j.why[1])
Done == (l = Len(Trace) + 1) => PrintT("RESULT" \o ToJson([bad |-> bad, checked |-> seen]))
=============================================================================
