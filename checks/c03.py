"""C03 - printing then reading gives back an equal object of the same type."""
import json, os, subprocess
from concurrent.futures import ThreadPoolExecutor

from lib import common, gen

PROP = "C03"
SPEC = os.path.join(common.VERIF, "spec", "PrintRead")


def leafkinds(o, acc=None):
    """Kinds (with sub-kinds) of every node of a generated object."""
    acc = set() if acc is None else acc
    k = o["k"]
    if k == "float":
        acc.add("float-" + o["fmt"])
    elif k == "sym":
        acc.add("keyword" if o.get("kw") else "sym")
    else:
        acc.add(k)
    for e in o["v"] if k in ("list", "dotted", "vec", "array") else []:
        leafkinds(e, acc)
    if k == "dotted":
        leafkinds(o["tail"], acc)
    return acc


def known_shape(ev, b, findings):
    """Open finding whose recorded shape this rejected event has, or None (everything else is a violation)."""
    kinds = leafkinds(ev["obj"])
    for f in findings:
        sh = f.get("shape")
        if not sh:
            continue
        if not set(b["laws"]) <= set(sh["laws"]):
            continue
        if "has_kind" in sh and not (set(sh["has_kind"]) & kinds):
            continue
        if "readably" in sh and ev["cfg"]["readably"] != sh["readably"]:
            continue
        if "top_kind" in sh and ev["obj"]["k"] not in sh["top_kind"]:
            continue
        if "text_contains" in sh and not any(t in ev["text"] for t in sh["text_contains"]):
            continue
        if "sym_names" in sh:
            names = set()

            def walk(o):
                if o["k"] == "sym":
                    names.add(o["v"])
                for e in o["v"] if o["k"] in ("list", "dotted", "vec", "array") else []:
                    walk(e)
                if o["k"] == "dotted":
                    walk(o["tail"])
            walk(ev["obj"])
            if not (names & set(sh["sym_names"])):
                continue
        if sh.get("array_shape") == "rank0-or-empty":
            found = []

            def walk_a(o):
                if o["k"] == "array" and (not o["dims"] or 0 in o["dims"]):
                    found.append(o)
                for e in o["v"] if o["k"] in ("list", "dotted", "vec", "array") else []:
                    walk_a(e)
                if o["k"] == "dotted":
                    walk_a(o["tail"])
            walk_a(ev["obj"])
            if not found:
                continue
        if "st_contains" in sh and sh["st_contains"] not in ev["st"]:
            continue
        return f["feature"]
    return None


def run(tier, seed):
    rep = common.Report(PROP, tier, seed)
    vdrive = common.build_harness()
    quick = tier == "quick"
    level = 1 if quick else 2
    rows, g1 = gen.bfs(SPEC, "ObjGen", "ObjGen.cfg", {"Level": level, "Family": '"leaf"', "MaxDepth": 0}, timeout=3000)
    rows2, g2 = gen.bfs(SPEC, "ObjGen", "ObjGen.cfg", {"Level": level, "Family": '"struct"', "MaxDepth": 1 if quick else 2}, timeout=3000)
    stimuli = []
    for r in rows + [r for r in rows2 if r["depth"] > 0]:
        grid = r["grid"]
        if r["depth"] >= 2:      # the full margin sweep on the small structures, a ladder of margins on the larger ones
            grid = dict(grid, margins=[m for m in grid["margins"] if m <= 40 or m % 20 == 0], bases=[10, 16], cases=["downcase", "upcase"])
        stimuli.append({"id": len(stimuli) + 1, "obj": r["obj"], "grid": grid})
    size = max(20, (len(stimuli) + common.CORES * 3 - 1) // (common.CORES * 3))
    chunks = [stimuli[i:i + size] for i in range(0, len(stimuli), size)]

    def one(ch):
        inp = "\n".join(json.dumps(c, separators=(",", ":")) for c in ch) + "\n"
        p = subprocess.run([vdrive, "c03"], input=inp.encode(), capture_output=True, cwd=common.scratch(), timeout=3000)
        if p.returncode != 0:
            raise common.Infra(f"vdrive c03 exited {p.returncode}: {p.stderr.decode(errors='replace')[-2000:]}")
        events = [json.loads(l) for l in p.stdout.decode().split("\n") if l.strip()]
        if {e["id"] for e in events} != {c["id"] for c in ch}:
            raise common.Infra("vdrive c03 did not answer every stimulus")
        bad, checked, states = [], 0, 0
        for i in range(0, len(events), 6000):     # bounded acceptor runs (TLC keeps the whole trace in memory)
            part = events[i:i + 6000]
            r = common.run_tlc_with_files(SPEC, "PrintRead", "PrintRead.cfg", {"traces.ndjson": part}, timeout=3000, heap="3g")
            found = list(common.emitted(r["out"], prefix="RESULT"))
            if not found:
                raise common.Infra(f"acceptor PrintRead produced no RESULT ({r['errors'][:2]}) {common._tail(r['out'], 1500)}")
            for b in found[-1]["bad"]:
                b["event"] = part[b["l"] - 1]
                bad.append(b)
            checked += found[-1]["checked"]
            states += r["generated"]
        return {"bad": bad, "checked": checked, "states": states, "prints": sum(e["count"] for e in events)}

    bad, checked, states, prints = [], 0, 0, 0
    with ThreadPoolExecutor(max_workers=common.CORES) as ex:
        for res in ex.map(one, chunks):
            bad += res["bad"]
            checked += res["checked"]
            states += res["states"]
            prints += res["prints"]
    findings = [f for f in common.load_findings(PROP) if f.get("status") == "open"]
    hit = {}
    for b in bad:
        ev = b["event"]
        feat = known_shape(ev, b, findings)
        if feat:
            hit.setdefault(feat, []).append(ev["id"])
            continue
        rep.violation({"property": PROP, "laws": b["laws"], "expected_text": b["want"], "event": ev},
                      f"{'/'.join(sorted(b['laws']))}: object {json.dumps(ev['obj'])[:150]} under {json.dumps(ev['cfg'])} printed as "
                      f"{json.dumps(ev['text'])[:120]} ({ev['st'][:80]}) read back as {json.dumps(ev['back'])[:150]} nread={ev['nread']} {ev['readst'][:80]}"
                      + (f" expected text {json.dumps(b['want'])}" if "text" in b["laws"] else ""))
    for f in findings:
        if f["feature"] in hit:
            rep.known.append(f["summary"] + f" ({len(hit[f['feature']])} events)")
    rep.cov.update({"states": g1["distinct"] + g2["distinct"] + states, "transitions": g1["generated"] + g2["generated"] + checked,
                    "traces_validated_against_impl": len(stimuli), "evaluations": prints, "distinct_nontrivial": checked, "exhaustive": True,
                    "rule": f"objects: every state of ObjGen's graph (level {level}: {len(rows)} leaves of every kind incl. boundary integers, all float formats, "
                            f"strings / characters over a code point ladder, symbols that need quoting; {len(stimuli) - len(rows)} structures up to depth "
                            f"{1 if quick else 2}) x the printer grid of each (*print-base* 2..36 with radix, base 10 with and without, *print-case*, "
                            "*print-pretty* x *print-right-margin* 1..200, *print-readably*, arrays printed): evaluations = print calls; one event per "
                            "distinct text, each read back and judged by PrintRead.tla under TLC (distinct_nontrivial = judged events)",
                    "samples": [stimuli[0], stimuli[-1]], "gen": [g1, g2], "probes": {k: len(v) for k, v in hit.items()}})
    return rep.finish()
