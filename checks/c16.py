"""C16 - equality, hashing and type predicates are mutually coherent."""
import json, os

from lib import common, gen, pipeline

PROP = "C16"
SPEC = os.path.join(common.VERIF, "spec", "EqHash")
UNIV = ["1", "(+ 0 1)", "1.0", "1.0s0", "2", "2.5", "0", "0.0", "-3", "-3.0",
        "1180591620717411303424", "(* 2 590295810358705651712)", "1/2", "(/ 2 4)",
        '"abc"', '(copy-seq "abc")', '"ABC"', "'sym", "'sym", ":kw", "#\\a", "#\\A",
        "(list 1 2)", "(list 1 2)", "(list 1 2.0)", "(vector 1 2)", "(vector 1 2)", "nil", "t", '""',
        '(list "a" (list 1))', '(list "A" (list 1.0))', "9007199254740993", "9007199254740992.0d0", "9007199254740992",
        # (appended: the indices above are used by KEYSETS / COERCE) complex numbers without an imaginary part, a ratio and the float next to it
        "5", "#C(5 0)", "5.0", "#C(5.0 0.0)", "1/3", "(/ 1.0d0 3)", "0.5", "(list 5 1/2)", "(list #C(5 0) 0.5)",
        # vectors with a fill pointer over the same storage, and the plain vector of their active elements
        "(make-array 4 :fill-pointer 2 :initial-contents '(1 2 3 4))", "(make-array 4 :fill-pointer 3 :initial-contents '(1 2 3 4))",
        "(make-array 2 :initial-contents '(1 2))", "(make-array 4 :fill-pointer 2 :initial-contents '(1 2 9 9))",
        # an instance of a flavor that was asked about (typep) and then redefined with another ancestry, and one of a flavor defined once
        "(progn (defflavor c16fa () ()) (defflavor c16fc () ()) (defflavor c16fb () (c16fa)) (typep (make-instance 'c16fb) 'c16fa) "
        "(typep (make-instance 'c16fb) 'c16fc) (undefflavor 'c16fb) (defflavor c16fb () (c16fc)) (make-instance 'c16fb))",
        "(make-instance 'c16fa)"]
TYPES = ["t", "number", "real", "rational", "integer", "fixnum", "bignum", "ratio", "float", "single-float", "double-float", "string",
         "symbol", "keyword", "character", "list", "cons", "null", "sequence", "vector", "array", "atom", "c16fa", "c16fb", "c16fc"]
# every object of the universe coerced to every type name (most coercions are errors: the law is about the ones that succeed)
COERCE = [[i, t] for i in range(len(UNIV)) for t in TYPES]
KEYSETS = {"numbers": [0, 1, 2, 4], "strings": [14, 15, 16, 17], "chars-symbols": [20, 21, 17, 19], "zero-negative": [6, 7, 8, 9],
           "big-ratio": [10, 11, 12, 13], "lists": [22, 23, 24, 14], "vectors": [25, 26, 14, 0]}
TESTS = ["eql", "equal", "equalp", "eq"]
# law -> (finding feature, witness key, kind of index in the witness tuples)
LAW_INFO = {"predicates are total": ("predicate-signals", "total", "s"),
            "table key identity covers eq": ("table-key-not-eql", "tableEq", "u"), "table key identity covers eql": ("table-key-not-eql", "tableEql", "u"),
            "transitive eql": ("numeric-equality-through-float64", "transitive", "u"), "transitive equal": ("numeric-equality-through-float64", "transitive", "u"),
            "transitive equalp": ("numeric-equality-through-float64", "transitive", "u"), "equal => same sxhash": ("sxhash-of-equal-objects", "hash", "u"),
            "typep of own type-of": ("type-of-not-typep", "typeof", "u1"), "subtypep reflexive": ("subtypep-not-reflexive", "subRefl", "t1"),
            "subtypep transitive": ("subtypep-not-transitive", "subTrans", "t"), "typep closed under subtypep": ("typep-subtypep-disagree", "subtypeTypep", "utt"),
            "symmetric": ("", "symmetric", "u"), "reflexive": ("", "reflexive", "u1"), "eq => eql => equal => equalp": ("", "chain", "u"),
            "transitive eq": ("", "transitive", "u"), "coerce returns the requested type": ("", "coerce", "c")}


def readable(kind, tup):
    """Witness tuple (1-based indices) -> expressions / type names, the form recorded in known-findings.jsonl."""
    if kind == "s":
        return [tup]
    if kind == "u1":
        return [UNIV[tup - 1]]
    if kind == "t1":
        return [TYPES[tup - 1]]
    if kind == "u":
        return [UNIV[i - 1] for i in tup]
    if kind == "t":
        return [TYPES[i - 1] for i in tup]
    if kind == "utt":
        return [UNIV[tup[0] - 1], TYPES[tup[1] - 1], TYPES[tup[2] - 1]]
    return [COERCE[tup - 1]]


def key_feature(ev):
    """Open finding whose shape the rejected hash event has, or None: an access with a list as the key that signals."""
    if ev["ev"] in ("put", "get", "rem") and not ev["ok"] and UNIV[ev["k"]].startswith("(list"):
        return "list-keys-unhashable"
    return None


def run(tier, seed):
    rep = common.Report(PROP, tier, seed)
    vdrive = common.build_harness()
    quick = tier == "quick"
    rows, g = gen.bfs(SPEC, "HashGen", "HashGen.cfg", {"MaxOps": 4 if quick else 5}, timeout=3000)
    rows2, g2 = gen.sim(SPEC, "HashGen", "HashGenSim.cfg", {}, num=100 if quick else 2000, depth=16, seed=seed, timeout=3000)
    hists = [r["hist"] for r in rows] + [r["hist"] for r in rows2]
    stimuli = []
    # every history on the number keys under every test; the other key sets and tests share the histories round-robin
    combos = [(ks, t) for ks in KEYSETS for t in TESTS]
    for i, hist in enumerate(hists):
        for ks, t in ([("numbers", "eql"), ("strings", "equal")] if i < len(rows) else []) + [combos[i % len(combos)]]:
            stimuli.append({"id": len(stimuli) + 1, "test": t, "keyset": ks, "keys": KEYSETS[ks], "ops": hist})
    findings = {f["feature"]: f for f in common.load_findings(PROP) if f.get("status") == "open"}
    head = {"univ": UNIV, "types": TYPES, "coerce": COERCE}
    by_id = {s["id"]: s for s in stimuli}
    # one worker process per chunk: each needs the universe first
    chunks = [stimuli[i:i + 400] for i in range(0, len(stimuli), 400)]
    bad, laws, witness, checked, states = [], None, None, 0, 0
    import subprocess
    from concurrent.futures import ThreadPoolExecutor

    def one(ch):
        inp = "\n".join(json.dumps(x, separators=(",", ":")) for x in [head] + [{k: s[k] for k in ("id", "test", "keys", "ops")} for s in ch]) + "\n"
        p = subprocess.run([vdrive, "c16"], input=inp.encode(), capture_output=True, cwd=common.scratch(), timeout=900)
        if p.returncode != 0:
            raise common.Infra(f"vdrive c16 exited {p.returncode}: {p.stderr.decode(errors='replace')[-2000:]}")
        events = [json.loads(l) for l in p.stdout.decode().splitlines() if l.strip()]
        r = common.run_tlc_with_files(SPEC, "EqHash", "EqHash.cfg", {"traces.ndjson": events}, timeout=1500)
        found = list(common.emitted(r["out"], prefix="RESULT"))
        if not found:
            raise common.Infra(f"acceptor EqHash produced no RESULT ({r['errors'][:2]}) {common._tail(r['out'], 1500)}")
        res = found[-1]
        for b in res["bad"]:
            b["event"] = events[b["l"] - 1]
        res["states"] = r["generated"]
        return res

    with ThreadPoolExecutor(max_workers=common.CORES) as ex:
        for res in ex.map(one, chunks):
            bad += res["bad"]
            checked += res["checked"]
            states += res["states"]
            laws, witness = res["laws"], res["witness"]      # the relation event is the same in every chunk
    hit = {}
    for law in laws:
        if law["n"] == 0:
            continue
        _, wkey, kind = LAW_INFO[law["law"]]
        tuples = [readable(kind, t) for t in witness[wkey]]
        # a violating tuple is known only when an open finding lists exactly that tuple for exactly this law
        owner = {}
        for f in findings.values():
            if law["law"] in f.get("laws", []):
                for w in f.get("tuples", []):
                    owner[json.dumps(w)] = f["feature"]
        new_t = [t for t in tuples if json.dumps(t) not in owner]
        for t in tuples:
            if json.dumps(t) in owner:
                hit.setdefault(owner[json.dumps(t)], []).append(t)
        if new_t:
            rep.violation({"property": PROP, "law": law, "violating_tuples": new_t[:200], "all_violating_tuples": len(tuples)},
                          f"law '{law['law']}' violated by {len(new_t)} tuples not listed in any finding, e.g. {json.dumps(new_t[:3])}")
    for b in bad:
        s = by_id[b["t"]]
        feat = key_feature(b["event"])
        if feat in findings:
            hit.setdefault(feat, []).append(b["t"])
        else:
            rep.violation({"property": PROP, "stimulus": s, "rejected_event": b["event"]},
                          f"hash table :test {s['test']} keys {[UNIV[k] for k in s['keys']]} ops {json.dumps([[o['ev'], o['k'], o['v']] for o in s['ops']])}: "
                          f"step {b['i']} {b['ev']} not what the finite map gives: {json.dumps({k: b['event'][k] for k in ('v', 'present', 'count', 'ok', 'seen')})}")
    for feat, f in findings.items():
        if feat in hit:
            rep.known.append(f["summary"] + f" ({len(hit[feat])} observations)")
    rep.cov.update({"states": g["distinct"] + states, "transitions": g["generated"] + checked, "traces_validated_against_impl": len(stimuli),
                    "evaluations": checked + len(UNIV) ** 2 * 4, "distinct_nontrivial": len({json.dumps([s["test"], s["keyset"], s["ops"]]) for s in stimuli}),
                    "exhaustive": True,
                    "rule": f"relations: universe of {len(UNIV)} objects (equal numbers in different representations, zero and negatives, bignums and ratios "
                            f"built twice, strings / characters differing in case, symbols, nested lists, vectors) x eq/eql/equal/equalp/sxhash, {len(TYPES)} type "
                            f"symbols for typep / subtypep / type-of, {len(COERCE)} coercions; 13 laws evaluated by TLC over the logged matrices. Hash tables: "
                            f"every put/get/rem/clr/maphash history <= {4 if quick else 5} operations over 4 key slots and the values nil/1/2 (complete graph of the "
                            "table state) + random walks of 12, instantiated on 7 key sets x 4 tests, judged by the finite-map acceptor EqHash modulo "
                            "slip's own predicate. distinct = distinct (test, key set, history)",
                    "samples": [stimuli[0], stimuli[len(stimuli) // 2]], "laws": laws, "gen": [g, g2], "probes": {k: len(v) for k, v in hit.items()}})
    return rep.finish()
