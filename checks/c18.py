"""C18 - JSON data survives the trip through bags and through the Go data bridge."""
import json, os, subprocess
from concurrent.futures import ThreadPoolExecutor

from lib import common, gen

PROP = "C18"
SPEC = os.path.join(common.VERIF, "spec", "Bag")


def doc_has(d, pred):
    if pred(d):
        return True
    if d["k"] == "arr":
        return any(doc_has(e, pred) for e in d["v"])
    if d["k"] == "obj":
        return any(doc_has(e[1], pred) for e in d["v"])
    return False


def known_shape(stim, b, findings):
    """Open finding whose recorded shape this rejected trace has, or None (everything else is a violation)."""
    for f in findings:
        sh = f.get("shape")
        if not sh:
            continue
        if "why" in sh and b["why"] not in sh["why"]:
            continue
        if "op" in sh:
            if b["at"] < 1 or stim["hist"][b["at"] - 1]["op"] not in sh["op"]:
                continue
        if "frag" in sh:
            if b["at"] < 1 or not any(fr["t"] == sh["frag"] for fr in stim["hist"][b["at"] - 1]["p"]):
                continue
        if sh.get("doc_scalar") and b["want"]["k"] in ("arr", "obj"):
            continue
        if "path_len" in sh and (b["at"] < 1 or len(stim["hist"][b["at"] - 1]["p"]) != sh["path_len"]):
            continue
        if sh.get("want_has") == "empty-container" and not doc_has(b["want"], lambda d: d["k"] in ("arr", "obj") and not d["v"]):
            continue
        if sh.get("want_has") == "big" and not (doc_has(b["want"], lambda d: d["k"] == "big") or doc_has(stim["start"], lambda d: d["k"] == "big")):
            continue
        if sh.get("want_has") == "keyword-string" and not doc_has(b["want"], lambda d: d["k"] == "str" and d["v"] in ("true", "false", "null")):
            continue
        if sh.get("want_has") == "false" and not doc_has(b["want"], lambda d: d["k"] == "bool" and d["v"] is False):
            continue
        return f["feature"]
    return None


def run(tier, seed):
    rep = common.Report(PROP, tier, seed)
    vdrive = common.build_harness()
    quick = tier == "quick"
    level = 1 if quick else 2
    docs, g0 = gen.bfs(SPEC, "Bag", "BagGen.cfg", {"Level": level, "MaxOps": 0}, timeout=3000, subst={"ACTION_CONSTRAINT Emit": "INVARIANT EmitDoc"})
    rows, g1 = gen.bfs(SPEC, "Bag", "BagGen.cfg", {"Level": level, "MaxOps": 1}, timeout=3000)
    # has / walk over the paths with a descent fragment ("..")
    rows_d, gd = gen.bfs(SPEC, "Bag", "BagGen.cfg", {"Level": level, "MaxOps": 1}, timeout=3000, subst={"NEXT Next": "NEXT NextDesc"})
    rows += rows_d
    shards = 4 if quick else 12

    def walk(k):
        return gen.sim(SPEC, "Bag", "BagSim.cfg", {"Level": level, "MaxOps": 6}, num=(80 if quick else 1200) // shards, depth=7, seed=seed * 100 + k, timeout=3000)

    gens = [g0, g1, gd]
    with ThreadPoolExecutor(max_workers=shards) as ex:
        for r2, g in ex.map(walk, range(shards)):
            rows += r2
            gens.append(g)
    seen, stimuli = set(), []
    for r in docs + rows:
        k = json.dumps(r, sort_keys=True)
        if k not in seen:
            seen.add(k)
            r["id"] = len(stimuli) + 1
            stimuli.append(r)
    by_id = {s["id"]: s for s in stimuli}
    size = max(100, (len(stimuli) + common.CORES * 2 - 1) // (common.CORES * 2))
    chunks = [stimuli[i:i + size] for i in range(0, len(stimuli), size)]

    def one(ch):
        inp = "\n".join(json.dumps(c, separators=(",", ":")) for c in ch) + "\n"
        p = subprocess.run([vdrive, "c18"], input=inp.encode(), capture_output=True, cwd=common.scratch(), timeout=3000)
        if p.returncode != 0:
            raise common.Infra(f"vdrive c18 exited {p.returncode}: {p.stderr.decode(errors='replace')[-2000:]}")
        events = [json.loads(l) for l in p.stdout.decode().split("\n") if l.strip()]
        if len(events) != len(ch):
            raise common.Infra(f"vdrive c18 answered {len(events)} of {len(ch)} histories")
        d = gen._prepare(SPEC, "BagTrace.cfg", {"Level": level})
        r = common.run_tlc_with_files(d, "BagTrace", "BagTrace.cfg", {"traces.ndjson": events}, timeout=3000, heap="3g")
        found = list(common.emitted(r["out"], prefix="RESULT"))
        if not found:
            raise common.Infra(f"acceptor BagTrace produced no RESULT ({r['errors'][:2]}) {common._tail(r['out'], 1500)}")
        res = found[-1]
        ev = {e["id"]: e for e in events}
        for b in res["bad"]:
            b["event"] = ev[b["id"]]
        res["generated"] = r["generated"]
        return res

    bad, checked, trans = [], 0, 0
    with ThreadPoolExecutor(max_workers=common.CORES) as ex:
        for res in ex.map(one, chunks):
            bad += res["bad"]
            checked += res["checked"]
            trans += res["generated"]
    findings = [f for f in common.load_findings(PROP) if f.get("status") == "open"]
    hit = {}
    for b in bad:
        s = by_id[b["id"]]
        feat = known_shape(s, b, findings)
        if feat:
            hit.setdefault(feat, []).append(b["id"])
            continue
        step = b["event"]["steps"][b["at"] - 1] if b["at"] >= 1 else b["event"]["rt"]
        rep.violation({"property": PROP, "stimulus": s, "at": b["at"], "why": b["why"], "expected": b["want"], "event": b["event"]},
                      f"bag {json.dumps(s['start'])[:120]} history {json.dumps([[o['op'], step_path(o)] for o in s['hist']])[:160]}: "
                      f"{b['why']} at step {b['at']}: expected {json.dumps(b['want'])[:160]} observed {json.dumps(step)[:260]}")
    for f in findings:
        if f["feature"] in hit:
            rep.known.append(f["summary"] + f" ({len(hit[f['feature']])} histories)")
    rep.cov.update({"states": sum(g.get("distinct", 0) for g in gens), "transitions": sum(g["generated"] for g in gens) + trans,
                    "traces_validated_against_impl": len(stimuli), "evaluations": sum(len(s["hist"]) + 5 for s in stimuli), "distinct_nontrivial": len(stimuli),
                    "exhaustive": True,
                    "rule": f"level {level}: every document of Bag.tla's pool ({len(docs)}: all scalar kinds, empty and nested containers to depth 4) x every single "
                            "get / has / set / remove with every path of the fragment pool (keys incl. one that needs quoting, indices incl. negative and outside, "
                            "wildcard; length <= 2, at level 2 <= 3), one row per transition of the bounded graph, plus random histories of 6 operations; after each "
                            "history the five round trips (SEN, JSON, pretty, native data, SimpleObject / Simplify); judged by BagTrace.tla under TLC",
                    "samples": [stimuli[0], stimuli[-1]], "gen": gens, "probes": {k: len(v) for k, v in hit.items()}})
    return rep.finish()


def step_path(o):
    out = "$"
    for f in o["p"]:
        out += "." + f["k"] if f["t"] == "key" else (f"[{f['i']}]" if f["t"] == "idx" else (".." if f["t"] == "desc" else "[*]"))
    return out
