"""C01 - core evaluation follows the language rules (order, binding, control), against the Core abstract machine."""
import json, os, subprocess

from lib import common, pipeline

PROP = "C01"
SPEC = os.path.join(common.VERIF, "spec", "Core")
FORMS = {"core": "literal/variable/setq/progn/prog1/if/when/unless/cond (incl. test-only clauses)/case/and/or/let/let*/lambda with captured and "
                 "updated variables/funcall/apply/#'name/named and recursive functions/mapcar/dolist/dotimes/do/do*/values/multiple-value-bind/"
                 "list/car",
         "ctl": "the C01 forms plus block/return-from/return from loops, tagbody/go (forward and backward), unwind-protect with cleanup "
                "marks, error and ignore-errors; exits placed in body positions and in function argument positions"}


def run(tier, seed, prop=PROP, profile="core"):
    rep = common.Report(prop, tier, seed)
    vdrive = common.build_harness()
    n, depth = (2500, 5) if tier == "quick" else (40000, 6)
    stimuli = []
    for k, (cnt, dep) in enumerate(((n, depth), (n // 5, depth + 1))):
        p = subprocess.run([vdrive, "c01", "gen", str(seed * 10 + k), str(cnt), str(dep), profile], capture_output=True, cwd=common.scratch(), timeout=900)
        if p.returncode != 0:
            raise common.Infra("c01 gen failed: " + p.stderr.decode(errors="replace")[-1000:])
        for l in p.stdout.decode().splitlines():
            if l.strip():
                s = json.loads(l)
                s["id"] = len(stimuli) + 1
                stimuli.append(s)
    events = pipeline.drive(vdrive, "c01", stimuli, chunk=150, timeout=900)
    res = pipeline.accept(SPEC, "CoreTrace", "CoreTrace.cfg", events, timeout=3000)
    by_id = {s["id"]: s for s in stimuli}
    for b in res["bad"]:
        s = by_id[b["t"]]
        rep.violation({"property": prop, "program": s["src"], "definitions": s["defsrc"], "rejected": b["event"], "why": b["why"],
                       "machine_expected": b.get("exp"), "profile": profile, "stimulus": s},
                      f"program {s['src'][:300]} ... rejected at {b['why']} {b['i']}: observed {json.dumps(b['event'].get('v'))[:200]}, "
                      f"the machine's next event is {json.dumps(b.get('exp'))[:200]}")
    kinds = set()
    for s in stimuli:
        kinds.update(x.split('"')[0] for x in json.dumps(s["ast"]).split('"k": "')[1:])
    rep.cov.update({"states": res["states"], "transitions": res["lines"], "traces_validated_against_impl": len(stimuli),
                    "evaluations": res["checked"], "distinct_nontrivial": len({s["src"] for s in stimuli}),
                    "rule": f"{len(stimuli)} seeded programs of depth {depth}/{depth + 1} over {FORMS[profile]}; (vmark id value) around every "
                            "evaluated position; let variables from a 3-name pool so that shadowing is the norm; every mark event and the final "
                            "values / condition class are compared, event by event, with the next observable step of the abstract machine "
                            "Core.tla run by TLC (CoreTrace); distinct = distinct program texts",
                    "node_kinds": sorted(kinds),
                    "samples": [{"program": s["src"], "definitions": s["defsrc"]} for s in stimuli[:2]], "exhaustive": False})
    rep.assumptions = ["closures and named functions use parameter names that are unique across call boundaries (a caller's variable of the "
                       "same name would shadow the closure's: recorded deviation of the implementation, outside the generated sublanguage)",
                       "return-from / go only to targets inside the same function body"]
    return rep.finish()


def replay(path, prop=PROP):
    """Run the program of a replay file again and judge it with the machine."""
    payload = json.load(open(path))
    vdrive = common.build_harness()
    s = payload["stimulus"]
    events = pipeline.drive(vdrive, "c01", [s], chunk=1)
    res = pipeline.accept(SPEC, "CoreTrace", "CoreTrace.cfg", events, shards=1)
    for e in events:
        if e.get("ev") != "start":
            print(json.dumps({k: v for k, v in e.items() if k not in ("src",)})[:300])
    if res["bad"]:
        b = res["bad"][0]
        print(f"VIOLATION property={payload.get('property', prop)} replay={path}")
        print(f"  rejected at {b['why']} {b['i']}: observed {json.dumps(b['event'].get('v'))[:200]}, the machine's next event is {json.dumps(b.get('exp'))[:300]}")
        return 1
    print("accepted")
    return 0
