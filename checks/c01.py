"""C01 - core evaluation follows the language rules (order, binding, control), against the Core abstract machine."""
import json, os, subprocess

from lib import common, pipeline

PROP = "C01"
SPEC = os.path.join(common.VERIF, "spec", "Core")
FORMS = {"core": "literal/variable/setq/progn/prog1/if/when/unless/cond (incl. test-only clauses)/case/and/or/let/let*/lambda with captured and "
                 "updated variables/funcall/apply/#'name/named and recursive functions/mapcar/dolist/dotimes/do/do*/values/multiple-value-bind/"
                 "list/car",
         "ctl": "the C01 forms plus block/return-from/return from loops, tagbody/go (forward and backward), unwind-protect with cleanup "
                "marks, error and ignore-errors; exits placed in body positions and in function argument positions"}


def judge(events, stim_of, findings, hit):
    """Judge the traces with the machine. A rejected trace of a program that has the feature of an open finding with a named
    deviation of the machine (C01-F4 / C07-F11 "dynscope", C01-F5 "psetq-value", C07-F10 "exit-as-value") is judged a second time by the machine run with the deviations of those findings: if the whole
    trace is then accepted it is an observation of the finding, otherwise it stays a violation (with the lexical verdict)."""
    res = pipeline.accept(SPEC, "CoreTrace", "CoreTrace.cfg", events, timeout=3000)
    devs = [f for f in findings if f.get("deviation")]

    def applies(t):
        return [f for f in devs if set(f["features"]) & set(stim_of(t).get("features", []))]

    again = {b["t"] for b in res["bad"] if applies(b["t"])}
    if again:
        ev2 = [dict(e, dev=sorted(f["deviation"] for f in applies(e["t"]))) if e.get("ev") == "start" else e for e in events if e["t"] in again]
        res2 = pipeline.accept(SPEC, "CoreTrace", "CoreTrace.cfg", ev2, timeout=3000)
        still = {b["t"] for b in res2["bad"]}
        for t in again - still:
            for f in applies(t):
                hit.setdefault(f["feature"], []).append(t)
        res["bad"] = [b for b in res["bad"] if b["t"] not in again - still]
        res["states"] += res2["states"]
    return res


def run(tier, seed, prop=PROP, profile="core"):
    rep = common.Report(prop, tier, seed)
    vdrive = common.build_harness()
    n, depth = (2500, 5) if tier == "quick" else (25000, 6)      # (the python side holds every event of the run: 40000 programs of depth 6 needed 17 GB)
    stimuli = []
    for k, (cnt, dep) in enumerate(((n, depth), (n // 5, depth + 1))):
        p = subprocess.run([vdrive, "c01", "gen", str(seed * 10 + k), str(cnt), str(dep), profile], capture_output=True, cwd=common.scratch(), timeout=900)
        if p.returncode != 0:
            raise common.Infra("c01 gen failed: " + p.stderr.decode(errors="replace")[-1000:])
        for l in p.stdout.decode().splitlines():
            if l.strip():
                s = json.loads(l)
                s["id"] = len(stimuli) + 1
                stimuli.append(s)
    events = pipeline.drive(vdrive, "c01", stimuli, chunk=150, timeout=900)
    by_id = {s["id"]: s for s in stimuli}
    findings = [f for p in ("C01", "C07") for f in common.load_findings(p) if f.get("status") == "open"]
    hit = {}
    res = judge(events, lambda t: by_id[t], findings, hit)
    for f in findings:
        if f["feature"] in hit:
            rep.known.append(f["summary"] + f" ({len(hit[f['feature']])} programs)")
    for b in res["bad"]:
        s = by_id[b["t"]]
        rep.violation({"property": prop, "program": s["src"], "definitions": s["defsrc"], "rejected": b["event"], "why": b["why"],
                       "machine_expected": b.get("exp"), "profile": profile, "stimulus": s},
                      f"program {s['src'][:300]} ... rejected at {b['why']} {b['i']}: observed {json.dumps(b['event'].get('v'))[:200]}, "
                      f"the machine's next event is {json.dumps(b.get('exp'))[:200]}")
    kinds = set()
    for s in stimuli:
        kinds.update(x.split('"')[0] for x in json.dumps(s["ast"]).split('"k": "')[1:])
    rep.cov.update({"states": res["states"], "transitions": res["lines"], "traces_validated_against_impl": len(stimuli),
                    "evaluations": res["checked"], "distinct_nontrivial": len({s["src"] for s in stimuli}),
                    "rule": f"{len(stimuli)} seeded programs of depth {depth}/{depth + 1} over {FORMS[profile]}; (vmark id value) around every "
                            "evaluated position; let variables from a 3-name pool so that shadowing is the norm; every mark event and the final "
                            "values / condition class are compared, event by event, with the next observable step of the abstract machine "
                            "Core.tla run by TLC (CoreTrace); distinct = distinct program texts",
                    "node_kinds": sorted(kinds),
                    "samples": [{"program": s["src"], "definitions": s["defsrc"]} for s in stimuli[:2]], "exhaustive": False})
    rep.cov["probes"] = {k: len(v) for k, v in hit.items()}
    rep.assumptions = ["return-from / go only to targets inside the same function body"]
    return rep.finish()


def replay(path, prop=PROP):
    """Run the program of a replay file again and judge it with the machine."""
    payload = json.load(open(path))
    vdrive = common.build_harness()
    s = payload["stimulus"]
    events = pipeline.drive(vdrive, "c01", [s], chunk=1)
    res = pipeline.accept(SPEC, "CoreTrace", "CoreTrace.cfg", events, shards=1)
    for e in events:
        if e.get("ev") != "start":
            print(json.dumps({k: v for k, v in e.items() if k not in ("src",)})[:300])
    if res["bad"]:
        b = res["bad"][0]
        print(f"VIOLATION property={payload.get('property', prop)} replay={path}")
        print(f"  rejected at {b['why']} {b['i']}: observed {json.dumps(b['event'].get('v'))[:200]}, the machine's next event is {json.dumps(b.get('exp'))[:300]}")
        return 1
    print("accepted")
    return 0
