"""C01 / C07 - core evaluation and non-local exits against the Core abstract machine (draft: seeded programs)."""
import json, os, subprocess

from lib import common, pipeline

PROP = "C01"
SPEC = os.path.join(common.VERIF, "spec", "Core")


def run(tier, seed, prop=PROP):
    rep = common.Report(prop, tier, seed)
    vdrive = common.build_harness()
    n, depth = (1500, 5) if tier == "quick" else (30000, 6)
    p = subprocess.run([vdrive, "c01", "gen", str(seed), str(n), str(depth)], capture_output=True, timeout=600)
    if p.returncode != 0:
        raise common.Infra("c01 gen failed: " + p.stderr.decode(errors="replace")[-1000:])
    stimuli = [json.loads(l) for l in p.stdout.decode().splitlines() if l.strip()]
    events = pipeline.drive(vdrive, "c01", stimuli, chunk=200)
    res = pipeline.accept(SPEC, "CoreTrace", "CoreTrace.cfg", events, timeout=1500)
    by_id = {s["id"]: s for s in stimuli}
    for b in res["bad"]:
        s = by_id[b["t"]]
        rep.violation({"property": prop, "program": s["src"], "definitions": s["defsrc"], "rejected": b["event"], "why": b["why"]},
                      f"program {s['src'][:160]} ... rejected at {b['why']} {b['i']}")
    rep.cov.update({"states": res["states"], "transitions": res["lines"], "traces_validated_against_impl": len(stimuli),
                    "evaluations": res["checked"], "distinct_nontrivial": len({s["src"] for s in stimuli}),
                    "rule": f"{n} seeded programs of depth {depth} over literal/variable/setq/let/let*/if/and/or/lambda+funcall/named calls/"
                            "block/return-from/unwind-protect with (vmark id value) around every evaluated position; shadowing by a 3-name pool; "
                            "exits only in body-context positions; distinct = distinct program texts",
                    "samples": [{"program": s["src"]} for s in stimuli[:2]], "exhaustive": False})
    return rep.finish()
