"""C13 - package visibility is coherent with the use/export graph after any history."""
import json, os, random

from lib import common, pipeline

PROP = "C13"
SPEC = os.path.join(common.VERIF, "spec", "Packages")
PKGS, NAMES = ["pa", "pb", "pc"], ["n1", "n2"]


def _cfg(name, depth):
    """Write a generator config with the tier's depth."""
    src = open(os.path.join(SPEC, "PackagesGen.cfg")).read()
    import re
    return re.sub(r"MaxDepth = \d+", f"MaxDepth = {depth}", src)


def generate(depth):
    work = os.path.join(common.scratch(), "gen-c13")
    os.makedirs(work, exist_ok=True)
    r = common.run_tlc_with_files(SPEC, "PackagesGen", "PackagesGen.cfg", {}, timeout=1200)
    return r


def gen_stimuli(depth, module="PackagesGen"):
    # rewrite the cfg in a private copy of the spec directory
    import shutil, tempfile
    d = tempfile.mkdtemp(prefix="spec-c13-", dir=common.scratch())
    for f in os.listdir(SPEC):
        shutil.copy(os.path.join(SPEC, f), d)
    cfg = module + ".cfg"
    import re
    text = re.sub(r"MaxDepth = \d+", f"MaxDepth = {depth}", open(os.path.join(SPEC, cfg)).read())
    open(os.path.join(d, cfg), "w").write(text)
    r = common.run_tlc_with_files(d, module, cfg, {}, timeout=1500)
    if r["errors"]:
        raise common.Infra(module + ": " + "; ".join(r["errors"][:3]))
    stimuli = []
    for row in common.emitted(r["out"]):
        stimuli.append({"id": len(stimuli) + 1, "every": False, "ops": row["ops"], "feat": sorted(row["feat"])})
    return stimuli, r


def random_histories(rng, n, steps, first_id):
    """Seeded-random long histories; enabledness is not known here, so operations that the
    reference does not enable are simply skipped by the acceptor-side model (the driver
    executes them anyway and they must then be no-ops or errors: not generated)."""
    out = []
    for k in range(n):
        ops = []
        # a light mirror of enabledness keeps the histories meaningful; the verdict never
        # depends on it (the acceptor recomputes everything)
        cur, uses, exported = "pa", {p: [] for p in PKGS}, {p: set() for p in PKGS}
        for _ in range(steps):
            c = rng.randrange(7)
            if c == 0:
                q = rng.choice([p for p in PKGS if p != cur])
                if q in uses[cur]:
                    continue
                uses[cur].append(q)
                ops.append({"op": "use", "a": q, "b": "", "c": 0})
            elif c == 1 and uses[cur]:
                q = rng.choice(uses[cur])
                uses[cur].remove(q)
                ops.append({"op": "unuse", "a": q, "b": "", "c": 0})
            elif c == 2:
                q = rng.choice([p for p in PKGS if p != cur])
                cur = q
                ops.append({"op": "inpkg", "a": q, "b": "", "c": 0})
            elif c == 3:
                n_ = rng.choice(NAMES)
                if n_ in exported[cur]:
                    exported[cur].discard(n_)
                    ops.append({"op": "unexport", "a": n_, "b": "", "c": 0})
                else:
                    exported[cur].add(n_)
                    ops.append({"op": "export", "a": n_, "b": "", "c": 0})
            elif c in (4, 5):
                ops.append({"op": "def", "a": rng.choice(["var", "fn"]), "b": rng.choice(NAMES), "c": rng.choice([1, 2])})
        out.append({"id": first_id + k, "every": True, "ops": ops, "feat": []})
    return out


def run(tier, seed):
    rep = common.Report(PROP, tier, seed)
    depth = int(os.environ.get("VERIF_DEPTH", 5 if tier == "quick" else 6))
    vdrive = common.build_harness()
    stimuli, g = gen_stimuli(depth)
    rep.cov["states"] = g["distinct"]
    rep.cov["transitions"] = g["generated"]
    # the implementation-shaped twin distinguishes histories by the residue they leave in the
    # denormalised tables; its transition cover is added (duplicates of the abstract cover dropped)
    twin, gt = gen_stimuli(depth, module="PackagesImpl")
    have = {json.dumps(s["ops"], sort_keys=True) for s in stimuli}
    for s in twin:
        key = json.dumps(s["ops"], sort_keys=True)
        if key not in have:
            have.add(key)
            s["id"] = len(stimuli) + 1
            stimuli.append(s)
    rep.cov["twin"] = {"spec": "PackagesImpl", "distinct": gt["distinct"], "generated": gt["generated"]}
    rep.cov["states"] += gt["distinct"]
    rep.cov["transitions"] += gt["generated"]
    # long random histories through the same Next relation (tlc -simulate): observed after every operation
    from lib import gen
    walks, wdepth = (400, 10) if tier == "quick" else (6000, 14)
    rows, gs = gen.sim(SPEC, "PackagesGen", "PackagesSim.cfg", {"MaxDepth": wdepth}, num=walks, depth=wdepth + 2, seed=seed, timeout=1500)
    for row in rows:
        key = json.dumps(row["ops"], sort_keys=True)
        if key not in have:
            have.add(key)
            stimuli.append({"id": len(stimuli) + 1, "every": True, "ops": row["ops"], "feat": sorted(row["feat"])})
    rep.cov["walks"] = gs
    # directed histories: two providers of one name, one of them withdrawn or changed (ConflictHistories)
    rows, gd = gen.bfs(SPEC, "PackagesGen", "PackagesDirected.cfg", {}, timeout=600)
    for row in rows:
        key = json.dumps(row["ops"], sort_keys=True)
        if key not in have:
            have.add(key)
            stimuli.append({"id": len(stimuli) + 1, "every": True, "ops": row["ops"], "feat": sorted(row["feat"])})
    rep.cov["directed"] = gd
    # histories with one operation that asks for what already holds (use-package twice, export twice, the same value
    # again ...): PackagesGen!RNext, the redundant operation is a ghost in the view; one name, depth 6
    rcons = {"MaxDepth": 6, "N": '{"n1"}', "P": '{"pa", "pb"}' if tier == "quick" else '{"pa", "pb", "pc"}'}
    rows, gr = gen.bfs(SPEC, "PackagesGen", "PackagesRedundant.cfg", rcons, timeout=1500, workers=4)
    for row in rows:
        key = json.dumps(row["ops"], sort_keys=True)
        if key not in have:
            have.add(key)
            stimuli.append({"id": len(stimuli) + 1, "every": False, "ops": row["ops"], "feat": sorted(row["feat"])})
    rep.cov["redundant"] = gr
    rep.cov["states"] += gr["distinct"]
    rep.cov["transitions"] += gr["generated"]
    findings = [f for f in common.load_findings(PROP) if f.get("status") == "open"]
    open_feats = {f["feature"]: f for f in findings}
    events = pipeline.drive(vdrive, "c13", stimuli)
    res = pipeline.accept(SPEC, "PackagesTrace", "PackagesTrace.cfg", events)
    by_id = {s["id"]: s for s in stimuli}
    hit = {}
    for b in res["bad"]:
        feats = set(b.get("feat", []))
        known = [f for f in feats if f in open_feats]
        stim = by_id.get(b["t"])
        if known:
            for f in known:
                hit.setdefault(f, []).append(b)
        else:
            rep.violation({"property": PROP, "stimulus": stim, "rejected_event": b["event"], "features": sorted(feats)},
                          f"history {json.dumps(stim['ops'])} rejected at step {b['i']}")
    for feat, f in open_feats.items():
        if feat in hit:
            rep.known.append(f["summary"] + f" ({len(hit[feat])} probes rejected)")
    rep.cov["traces_validated_against_impl"] = len(stimuli)
    rep.cov["evaluations"] = len(stimuli)
    rep.cov["distinct_nontrivial"] = g["distinct"]
    rep.cov["rule"] = (f"one history per transition of PackagesGen (3 packages, 2 names x var/fn, depth<={depth}, VIEW on the "
                       f"reference state) and of the implementation-shaped twin, plus {walks} random walks of {wdepth} operations through the same Next relation "
                       "(observed after every operation), directed provider-conflict histories, and one history per transition of the exploration that "
                       "allows one redundant operation (use-package of a package already used, export of an exported name, the same value again, "
                       "unuse / unexport of what is not used / exported; the redundant operation is a ghost in the view; one name, depth 6, " + ("2" if tier == "quick" else "3") + " packages); distinct = distinct reference states reached; every history executed against slip "
                       "with fresh packages, observation = full resolution matrix + qualified access")
    rep.cov["samples"] = [{"stimulus": s["ops"], "features": s["feat"]} for s in stimuli[:: max(1, len(stimuli) // 5)][:5]]
    rep.cov["exhaustive"] = True
    rep.cov["accept"] = {"events": res["lines"], "observations_checked": res["checked"], "rejected": len(res["bad"]),
                         "probes": {k: len(v) for k, v in hit.items()}}
    rep.assumptions = ["functions are observed with (apply 'name nil); any failure to call counts as undefined",
                       "values are the small integers 1 and 2; 0 stands for unbound/undefined"]
    return rep.finish()


def replay(path):
    payload = json.load(open(path))
    vdrive = common.build_harness()
    stim = dict(payload["stimulus"], every=True)
    events = pipeline.drive(vdrive, "c13", [stim])
    res = pipeline.accept(SPEC, "PackagesTrace", "PackagesTrace.cfg", events, shards=1)
    for e in events:
        print(json.dumps(e))
    if res["bad"]:
        print(f"VIOLATION property={PROP} replay={path}")
        return 1
    print("accepted")
    return 0
