"""C05 - integer arithmetic is exact and comparisons agree with mathematics (integer part)."""
import json, os, random

from lib import common, pipeline

PROP = "C05"
SPEC = os.path.join(common.VERIF, "spec", "Numeric")
OPS = ["+", "-", "*", "floor", "ceiling", "truncate", "mod", "rem", "<", "<=", ">", "=", "max", "min", "gcd", "abs"]


def grid():
    g = [0]
    for x in [1, 2, 7, 2**31, 2**32, 2**62, 2**63 - 1, 2**63, 2**64, 2**64 + 1, 2**64 - 1, 2**130 + 12345]:
        g += [x, -x]
    return g


def features(op, a, b, r=None):
    """Tags of inputs on which the pinned tree is known to be wrong (open findings only)."""
    f = set()
    big = lambda x: not (-2**63 <= x < 2**63)
    exact = {"+": a + b, "-": a - b, "*": a * b}.get(op)
    if op in ("+", "-", "*") and exact is not None and big(exact) and not big(a) and not big(b):
        f.add("fixnum-overflow")
    if op == "-" and (big(a) or big(b)):
        f.add("bignum-subtract-in-place")
    if op in ("floor", "mod") and b < 0:
        f.add("floor-negative-divisor")
    if op in ("ceiling",) :
        f.add("ceiling")
    if op in ("gcd",) and (big(a) or big(b)):
        f.add("gcd-bignum")
    if op == "abs" and a == -2**63:
        f.add("fixnum-overflow")
    if op in ("floor", "ceiling", "truncate", "mod", "rem") and a == -2**63 and b == -1:
        f.add("fixnum-overflow")          # the quotient 2^63 does not fit a fixnum
    if op == "gcd" and -2**63 in (a, b):
        f.add("fixnum-overflow")          # |−2^63| does not fit a fixnum
    if (big(a) or big(b)) and op in ("+", "-", "*", "floor", "ceiling", "truncate", "mod", "rem", "max", "min", "abs"):
        f.add("bignum-result-not-demoted")
    return f


def run(tier, seed):
    rep = common.Report(PROP, tier, seed)
    vdrive = common.build_harness()
    rng = random.Random(seed)
    g = grid()
    stimuli = []
    for a in g:
        for b in g:
            for op in OPS:
                if op in ("floor", "ceiling", "truncate", "mod", "rem") and b == 0:
                    continue
                stimuli.append({"id": len(stimuli) + 1, "op": op, "a": str(a), "b": str(b)})
    extra = 2000 if tier == "quick" else 100000
    for _ in range(extra):
        bits = rng.choice([8, 31, 62, 63, 64, 65, 128, 200])
        a = rng.getrandbits(bits) * rng.choice([1, -1])
        b = rng.getrandbits(rng.choice([8, 31, 63, 64, 128])) * rng.choice([1, -1])
        op = rng.choice(OPS)
        if op in ("floor", "ceiling", "truncate", "mod", "rem") and b == 0:
            b = 3
        stimuli.append({"id": len(stimuli) + 1, "op": op, "a": str(a), "b": str(b)})
    open_feats = {f["feature"]: f for f in common.load_findings(PROP) if f.get("status") == "open"}
    events = pipeline.drive(vdrive, "c05", stimuli, chunk=5000)
    res = pipeline.accept(SPEC, "NumericTrace", "NumericTrace.cfg", events)
    by_id = {s["id"]: s for s in stimuli}
    hit = {}
    for b in res["bad"]:
        s = by_id[b["t"]]
        feats = features(s["op"], int(s["a"]), int(s["b"]))
        known = [f for f in feats if f in open_feats]
        if known:
            for f in known:
                hit.setdefault(f, []).append(b)
        else:
            rep.violation({"property": PROP, "stimulus": s, "rejected": {k: b[k] for k in ("why", "op")}, "event": b["event"]},
                          f"({s['op']} {s['a']} {s['b']}): {b['why']}")
    for feat, f in open_feats.items():
        if feat in hit:
            rep.known.append(f["summary"] + f" ({len(hit[feat])} events)")
    rep.cov.update({"states": res["states"], "transitions": res["lines"], "traces_validated_against_impl": len(stimuli),
                    "evaluations": len(stimuli), "distinct_nontrivial": len({(s["op"], s["a"], s["b"]) for s in stimuli}),
                    "rule": f"all pairs of a 25-value boundary grid x {len(OPS)} operators (exhaustive) + {extra} seeded operands up to 200 bits; "
                            "operands are re-read after every call; results checked by defining relations on limb arithmetic",
                    "samples": stimuli[:2] + stimuli[-2:], "exhaustive": False, "probes": {k: len(v) for k, v in hit.items()}})
    return rep.finish()
