"""C05 - integer and rational arithmetic is exact and comparisons agree with mathematics."""
import json, os, random
from fractions import Fraction

from lib import common, pipeline

PROP = "C05"
SPEC = os.path.join(common.VERIF, "spec", "Numeric")
ARITH = ["+", "-", "*", "/", "max", "min"]
CMP = ["<", "<=", ">", ">=", "=", "/="]
INT2 = ["floor", "ceiling", "truncate", "round", "mod", "rem", "gcd", "lcm", "logand", "logior", "logxor"]
UNARY = ["abs", "1+", "1-", "zerop", "plusp", "minusp"]
MIN, MAX = -2**63, 2**63 - 1


def grid():
    g = [0]
    for x in [1, 2, 7, 2**31, 2**32, 2**62, 2**63 - 1, 2**63, 2**64, 2**64 + 1, 2**64 - 1, 2**130 + 12345]:
        g += [x, -x]
    # factors whose product lies next to the fixnum boundary: 2^k and 2^(63-k) with their neighbours, the integers around the square
    # root of 2^63, 2^32 - 1 (bit lengths 32 + 32, product above 2^63)
    for x in [2**16, 2**21, 2**31 - 1, 2**31 + 1, 2**32 - 1, 2**32 + 1, 2**42, 2**47, 3037000499, 3037000500, 2**62 - 1, 2**62 + 1]:
        g += [x, -x]
    return g


def big(x):
    return not (MIN <= x <= MAX)


def wrap(x):
    return (x - MIN) % 2**64 + MIN


def lit(x):
    return str(x) if isinstance(x, int) or x.denominator == 1 else f"{x.numerator}/{x.denominator}"


def known_shape(s, b, ev):
    """Maps a rejection to the open finding whose recorded shape it has, or None.
    Every test is on the observed event, not merely on the inputs."""
    op, why = s["op"], b["why"]
    try:
        a, bb = Fraction(s["a"]), (Fraction(s["b"]) if not s.get("fb") and s.get("b") else Fraction(0))
    except (ValueError, ZeroDivisionError):
        return None
    ints = a.denominator == 1 and bb.denominator == 1
    ai, bi = int(a), int(bb)
    if why == "not-canonical" and ev["ty"] == "bignum":
        return "bignum-result-not-demoted"
    if why == "not-canonical" and ev["ty"] == "ratio":
        return "integer-valued-ratio-not-converted"
    if why == "wrong-vs-float":
        return "integer-float-comparison-through-float64"
    if why.startswith("failed:nonrational") and op in ("+", "-", "*", "/") and (a.denominator != 1 or bb.denominator != 1) \
            and (big(a.numerator) or big(a.denominator) or big(bb.numerator) or big(bb.denominator)):
        return "bignum-ratio-mix-goes-float"
    if op in ("gcd", "lcm") and why.startswith("failed:err") and (big(ai) or big(bi)) and ints:
        return "gcd-bignum"
    if op in ("floor", "mod") and ints and bi < 0 and why == "wrong":
        return "floor-negative-divisor"
    if ints and op in ("abs", "1+", "1-", "gcd", "lcm", "floor", "ceiling", "truncate", "round", "mod", "rem", "expt", "ash", "isqrt", "/"):
        # the exact result (or an intermediate) leaves the fixnum range and the fixnum path wrapped / fell back to floats
        if MIN in (ai, bi) or (op == "1+" and ai == MAX) or (op == "1-" and ai == MIN) or op in ("expt", "ash", "lcm") \
                or (op == "round" and abs(bi) > 2**62):     # round doubles the remainder in machine arithmetic
            return "fixnum-overflow-other-operators"
    return None


def run(tier, seed):
    rep = common.Report(PROP, tier, seed)
    vdrive = common.build_harness()
    # design check: the specification's own operators against TLC's integers and against each other
    laws = common.run_tlc_with_files(SPEC, "NumericLaws", "NumericLaws.cfg", {}, timeout=900)
    if laws["errors"] or laws["rc"] != 0:
        raise common.Infra("NumericLaws: " + "; ".join(laws["errors"][:3]))
    rng = random.Random(seed)
    g = grid()
    stimuli = []

    def add(op, a, b="", k=0, fb=False, c=None):
        stimuli.append({"id": len(stimuli) + 1, "op": op, "a": lit(a) if not isinstance(a, str) else a,
                        "b": b if isinstance(b, str) else lit(b), "k": k, "fb": fb, "c": "" if c is None else lit(c)})

    # (1) the boundary grid, all pairs x every binary operator; unary operators on the grid
    for a in g:
        for op in UNARY:
            add(op, a)
        for k in (0, 1, 2, 15, 31, 62, 63, 64, 65, -1, -2, -31, -63, -64, -65, -200):
            add("ash", a, k=k)
        for k in (0, 1, 2, 3, 5, 16):
            if abs(a) < 2**65:
                add("expt", a, k=k)
        if a >= 0:
            add("isqrt", a)
        for b in g:
            for op in ARITH + CMP + INT2:
                if b == 0 and op in ("/", "floor", "ceiling", "truncate", "round", "mod", "rem"):
                    continue
                add(op, a, b)
    # (1b) every pair of small integers through the division family (ties of round with odd and even divisors, signs) and the rest
    for a in range(-12, 13):
        for b in range(-12, 13):
            for op in INT2 + ["/", "*"]:
                if b == 0 and op in ("/", "floor", "ceiling", "truncate", "round", "mod", "rem"):
                    continue
                add(op, a, b)
    # (2) ratios of grid values
    small = [x for x in g if abs(x) in (1, 2, 7, 2**31, 2**63, 2**64 + 1)]
    rats = [Fraction(n, d) for n in small for d in small if d > 0][:80]
    for x in rats[::3]:
        for y in rats[::5]:
            for op in ARITH + CMP:
                if y == 0 and op == "/":
                    continue
                add(op, x, y)
        for op in UNARY:
            add(op, x)
    # (3) comparisons against the double floats adjacent to the boundary integers
    for a in g:
        for f in (float(a),):
            for fl in {f, f * (1 + 2**-52), f * (1 - 2**-52)} if f not in (0.0,) else {0.0, 5e-324, -5e-324}:
                for op in CMP:
                    add(op, a, repr(fl).replace("e", "d") if "e" in repr(fl) else repr(fl) + "d0", fb=True)
    # (5) isqrt next to perfect squares: k*k - 1, k*k, k*k + 1 for roots where a float64 square root rounds the wrong way
    # (k*k just below 2^53, just above, at the fixnum boundary) and seeded roots of 27 .. 40 bits
    roots = [2**26, 2**26 + 1, 67108865, 94906265, 94906266, 94906267, 2**31 - 1, 2**31, 2**31 + 1, 3037000499, 3037000500, 2**32 + 1, 2**40 + 3, 2**64 + 1]
    roots += [rng.randrange(2**26 + 1, 94906266) for _ in range(40)] + [rng.getrandbits(rng.choice([27, 31, 33, 40])) + 2 for _ in range(40)]
    for k in roots:
        for n in (k * k - 1, k * k, k * k + 1):
            add("isqrt", n)
    # (6) comparisons of three arguments, also integers (and ratios) that differ but have the same float64 value, in every order
    trip = [(2**53 + 1, 1, 2**53), (2**53, 2**53 + 1, 2**53 + 2), (2**64 + 1, 2**64, 2**64 + 2), (-(2**63) - 1, -(2**63), 0), (1, 2, 3), (3, 3, 3),
            (2, 2, 3), (10**30 + 1, 7, 10**30), (Fraction(1, 3), 0, Fraction(6004799503160661, 18014398509481984)), (Fraction(1, 2), Fraction(2, 4), 1)]
    trip += [tuple(rng.choice(g) for _ in range(3)) for _ in range(60)]
    import itertools
    for t3 in trip:
        for x, y, z in set(itertools.permutations(t3)):
            for op in CMP + ["max", "min"]:
                add(op, x, y, c=z)
    # (4) seeded operands up to 200 bits
    extra = 3000 if tier == "quick" else 150000
    for _ in range(extra):
        a = rng.getrandbits(rng.choice([8, 31, 62, 63, 64, 65, 128, 200])) * rng.choice([1, -1])
        b = rng.getrandbits(rng.choice([8, 31, 63, 64, 128])) * rng.choice([1, -1])
        op = rng.choice(ARITH + CMP + INT2 + ["ash", "isqrt", "expt"] + UNARY)
        if op == "ash":
            add(op, a, k=rng.randint(-130, 130))
        elif op == "expt":
            add(op, rng.getrandbits(rng.choice([4, 16, 33])) * rng.choice([1, -1]), k=rng.randint(0, 24))
        elif op == "isqrt":
            add(op, abs(a))
        elif op in UNARY:
            add(op, a)
        else:
            if b == 0 and op in ("/", "floor", "ceiling", "truncate", "round", "mod", "rem"):
                b = 3
            if op in ARITH + CMP and rng.random() < 0.3:
                add(op, Fraction(a, abs(b) + 1), Fraction(b, rng.getrandbits(40) + 1))
            else:
                add(op, a, b)
    open_feats = {f["feature"]: f for f in common.load_findings(PROP) if f.get("status") == "open"}
    events = pipeline.drive(vdrive, "c05", stimuli, chunk=4000)
    res = pipeline.accept(SPEC, "NumericTrace", "NumericTrace.cfg", events, timeout=2400)
    by_id = {s["id"]: s for s in stimuli}
    hit = {}
    for b in res["bad"]:
        s = by_id[b["t"]]
        feat = known_shape(s, b, b["event"])
        if feat in open_feats:
            hit.setdefault(feat, []).append(b)
        else:
            rep.violation({"property": PROP, "stimulus": s, "rejected": {k: b[k] for k in ("why", "op")}, "event": b["event"]},
                          f"{b['event']['src']}: {b['why']}")
    for feat, f in open_feats.items():
        if feat in hit:
            rep.known.append(f["summary"] + f" ({len(hit[feat])} events)")
    rep.cov.update({"states": res["states"], "transitions": res["lines"], "traces_validated_against_impl": len(stimuli),
                    "evaluations": len(stimuli), "distinct_nontrivial": len({(s["op"], s["a"], s["b"], s["k"]) for s in stimuli}),
                    "rule": f"all pairs of a {len(g)}-value boundary grid (0, +-1, +-2, +-7, +-2^31, +-2^32, +-2^62, 2^63-1, -2^63, +-2^63, +-2^64, "
                            f"+-(2^64+-1), +-(2^130+12345), factor pairs around the fixnum boundary: +-2^16, 2^21, 2^31+-1, 2^32+-1, 2^42, 2^47, 3037000499/500, 2^62+-1) x {len(ARITH + CMP + INT2)} binary operators, unary operators, ash / expt / isqrt (also k*k-1, k*k, k*k+1 for roots around 2^26 .. 2^32), comparisons of three arguments (values with equal float64 images in every order), every pair of integers -12..12 through the integer division family, / and *, ratios of "
                            f"grid values, comparisons against adjacent double floats (exhaustive over the grid) + {extra} seeded operands up to "
                            "200 bits; operands are stored in variables and re-read after every call; every event is judged under TLC by the "
                            "acceptor NumericTrace: defining relations on limb arithmetic with verified certificates, lowest terms, "
                            "canonical representation type, operands unchanged",
                    "design_check": "NumericLaws.tla: limb arithmetic = TLC integers on a grid straddling the limb base; floor certificate unique; bit operations incl. negatives (De Morgan, and + or = sum); rational laws - invariant holds",
                    "samples": stimuli[:2] + stimuli[-2:], "exhaustive": False, "probes": {k: len(v) for k, v in hit.items()}})
    return rep.finish()
