"""C20 - REPL history, stash and settings persist intact across restarts and crashes (history part)."""
import json, os

from lib import common, gen, pipeline

PROP = "C20"
SPEC = os.path.join(common.VERIF, "spec", "ReplStore")


def to_stimuli(rows, limit):
    return [{"limit": limit, "ops": r["hist"]} for r in rows]


def run(tier, seed):
    rep = common.Report(PROP, tier, seed)
    vdrive = common.build_harness()
    quick = tier == "quick"
    stimuli, gens = [], []
    # design check + transition cover of the implementation-shaped model (crash at every file-system step, torn writes)
    for limit, depth in ((2, 8 if quick else 11), (3, 8 if quick else 11)):
        rows, g = gen.bfs(SPEC, "ReplStore", "ReplStore.cfg", {"Limit": limit, "MaxOps": depth}, timeout=3000)
        stimuli += to_stimuli(rows, limit)
        gens.append(g)
    n_bfs = len(stimuli)
    # random walks with the limit at which compaction happens with 10 % slack (limit 10: at the 11th form)
    rows, g = gen.sim(SPEC, "ReplStore", "ReplStoreSim.cfg", {}, num=150 if quick else 3000, depth=120, seed=seed, timeout=3000)
    stimuli += to_stimuli(rows, 10)
    gens.append(g)
    # directed histories: the limit lowered from 20 to 10 below the number of forms held, 0-3 more forms, restart, 0-2 forms, restart
    rows, g = gen.bfs(SPEC, "ReplStore", "ReplStoreScript.cfg", {}, timeout=3000)
    stimuli += to_stimuli(rows, 20)
    gens.append(g)
    # the histories with a clear that the process survives, once more with the clear made the way the function (clear-history)
    # makes it (through the stash embedded in the history object)
    extra = []
    for st in stimuli:
        ops = st["ops"]
        idx = [i for i, o in enumerate(ops) if o["op"] == "clear" and not (i + 1 < len(ops) and ops[i + 1]["op"] == "crash")]
        if idx and any(o["op"] == "add" for o in ops[idx[0] + 1:]):
            extra.append(dict(st, ops=[dict(o, lisp=True) if i in idx else o for i, o in enumerate(ops)]))
    stimuli += extra
    # probes for the recorded findings about forms the history file cannot represent
    findings = {f["feature"]: f for f in common.load_findings(PROP) if f.get("status") == "open"}
    probes = {"tab-inside-form": 101, "blanks-around-form": 102}
    probe_ids = {}
    for feat, f in probes.items():
        stimuli.append({"limit": 5, "ops": [{"op": "add", "f": f, "a": 0, "b": 0}, {"op": "add", "f": 1, "a": 0, "b": 0}, {"op": "restart", "f": 0, "a": 0, "b": 0}]})
        probe_ids[len(stimuli)] = feat
    # the stash file: the same model without a limit (no compaction): add / clear / restart / death at every step
    n_hist = len(stimuli)
    rows, g = gen.bfs(SPEC, "ReplStore", "ReplStore.cfg", {"Limit": 1000, "Limits": "{1000}", "MaxOps": 7 if quick else 9}, timeout=3000)
    stimuli += [dict(s, kind="stash") for s in to_stimuli(rows, 1000)]
    gens.append(g)
    # the graph merges the states after a torn and after a clean death (the model removes the fragment): what happens
    # *after* a torn write is reached by random walks
    rows, g = gen.sim(SPEC, "ReplStore", "ReplStoreSim.cfg", {"Limit": 1000, "Limits": "{1000}", "MaxOps": 14, "EmitFrom": 6}, num=300 if quick else 4000, depth=60, seed=seed + 7, timeout=3000)
    stimuli += [dict(s, kind="stash") for s in to_stimuli(rows, 1000)]
    gens.append(g)
    for i, s in enumerate(stimuli):
        s["id"] = i + 1
    env_dir = os.path.join(common.scratch(), "c20-dirs")
    os.makedirs(env_dir, exist_ok=True)
    os.environ["VERIF_SCRATCH_DIR"] = env_dir
    events = pipeline.drive(vdrive, "c20", stimuli, chunk=300)
    # the replay must have died where the model says the process dies: an operation that is followed by a crash record and ran to
    # its end means that the implementation has no such step any more - the binding between model and code is broken (exit 2)
    ops_of = {s["id"]: s["ops"] for s in stimuli}
    unreached, infra = {}, None
    for e in events:
        ops = ops_of[e["t"]]
        if e["op"] in ("add", "clear") and e["i"] + 1 < len(ops) and ops[e["i"] + 1]["op"] == "crash" and not e["crashed"]:
            unreached.setdefault(e["t"], e["i"])
    if unreached:
        # Either the implementation has no such file-system step any more (the binding between model and code is broken: exit 2)
        # or it holds other forms than the reference at that moment (fewer forms to write): decided by the implementation's
        # own behaviour - the same history up to that operation, followed by a clean restart, judged by the acceptor
        by0 = {s["id"]: s for s in stimuli}
        again = []
        for t, i in list(unreached.items())[:200]:
            st = dict(by0[t], ops=by0[t]["ops"][:i + 1] + [{"op": "restart", "f": 0, "a": 0, "b": 0}], id=len(stimuli) + len(again) + 1, of=t)
            again.append(st)
        ev2 = pipeline.drive(vdrive, "c20", again, chunk=300)
        res2 = pipeline.accept(SPEC, "ReplStoreTrace", "ReplStoreTrace.cfg", ev2, timeout=3000)
        if not res2["bad"]:
            t, i = next(iter(unreached.items()))
            ops = ops_of[t]
            # (raised only if the other histories show no violation either: a defect of loading shows in the clean restarts)
            infra = common.Infra(f"the crash point {ops[i + 1]['point']} (occurrence {ops[i + 1]['nth']}) of the model was not reached by "
                               f"{ops[i]['op']} in history {json.dumps(ops)[:400]}: the implementation does not perform that file-system step")
        ag = {s["id"]: s for s in again}
        for b in res2["bad"]:
            st = ag[b["t"]]
            rep.violation({"property": PROP, "stimulus": {k: st[k] for k in st if k != "of"}, "rejected_event": b["event"],
                           "why": {k: b[k] for k in ("op", "want", "got", "i")}},
                          f"{st.get('kind', 'history')} limit {st['limit']} {json.dumps([[o['op'], o.get('f'), o.get('a'), o.get('b')] for o in st['ops']])}: "
                          f"step {b['i']} {b['op']} loaded {b['got']} entries, the reference has {b['want']} (the process holds other forms than "
                          "the reference: a file-system step the model dies at was never reached)")
        events = [e for e in events if e["t"] not in unreached]
    res = pipeline.accept(SPEC, "ReplStoreTrace", "ReplStoreTrace.cfg", events, timeout=3000)
    by_id = {s["id"]: s for s in stimuli}
    hit_stash = False
    for b in res["bad"]:
        s = by_id[b["t"]]
        feat = probe_ids.get(b["t"])
        if s.get("kind") == "stash" and any(o["op"] == "crash" and o.get("f") == 1 and o.get("point") == "append.write" for o in s["ops"]) and "stash-torn-add" in findings:
            hit_stash = True
            continue
        if feat in findings:
            rep.known.append(findings[feat]["summary"])
            continue
        rep.violation({"property": PROP, "stimulus": s, "rejected_event": b["event"], "why": {k: b[k] for k in ("op", "want", "got", "i")}},
                      f"{s.get('kind', 'history')} limit {s['limit']} {json.dumps([[o['op'], o.get('f'), o.get('a'), o.get('b'), o.get('point', ''), o.get('nth', '')] for o in s['ops']])}: "
                      f"step {b['i']} {b['op']} loaded {b['got']} entries, the reference has {b['want']}")
    if hit_stash:
        rep.known.append(findings["stash-torn-add"]["summary"])
    if infra is not None and not rep.violations:
        raise infra
    # ---- settings: every session a process of its own --------------------------------------------------------
    rows, gs = gen.bfs(SPEC, "ReplSettings", "ReplSettings.cfg", {"MaxOps": 7 if quick else 9}, timeout=3000)
    cfg_stim = [{"id": i + 1, "ops": r["hist"]} for i, r in enumerate(rows)]
    cfg_events = pipeline.drive(vdrive, "c20cfg", [{"id": s["id"], "ops": [{k: o[k] for k in ("op", "v", "x")} for o in s["ops"]]} for s in cfg_stim], chunk=8)
    cfg_by = {e["t"]: e for e in cfg_events}
    nsess = 0
    for s in cfg_stim:
        sessions = cfg_by[s["id"]]["sessions"]
        restarts = [o for o in s["ops"] if o["op"] == "restart"]
        defaults = sessions[0]["start"]
        why = ""
        for k, (rs, sess) in enumerate(zip(restarts, sessions[1:])):
            nsess += 1
            if sess["st"]:
                why = f"session {k + 2} did not start: {sess['st']}"
                break
            for v, x in rs["exp"].items():
                want = defaults.get(v) if x == 0 else str(x)
                if sess["start"].get(v) != want:
                    why = f"session {k + 2} starts with {v} = {sess['start'].get(v)}, the value last set is {want}"
                    break
            if why:
                break
        if sessions[0]["st"]:
            why = "first session did not start: " + sessions[0]["st"]
        if why:
            rep.violation({"property": PROP, "stimulus": s, "observed": sessions, "reason": why},
                          f"settings {json.dumps([[o['op'], o['v'], o['x']] for o in s['ops']])}: {why}")
    gens.append(gs)
    crashes = sum(1 for s in stimuli for o in s["ops"] if o["op"] == "crash")
    rep.cov.update({"states": sum(g.get("distinct", 0) for g in gens), "transitions": sum(g["generated"] for g in gens),
                    "traces_validated_against_impl": len(stimuli) + len(cfg_stim), "evaluations": res["checked"] + nsess,
                    "distinct_nontrivial": len({json.dumps(s["ops"]) for s in stimuli}), "exhaustive": True,
                    "rule": "one operation history per transition of ReplStore.tla (History.Add incl. repeated forms, Clear of every range, SetLimit, restart, "
                            "process death before every file-system step - open, each write, rename - and in the middle of a write; limits 2 and 3, "
                            f"<= {8 if quick else 11} operations; VIEW = memory + files + program counter) on which TLC also checks the four invariants; plus the "
                            "final states of random walks with limits 10 / 12 / 20 changed on the way (compaction with slack), and directed histories that lower the limit from 20 to 10 "
                            "below the number of forms held and restart after 0-3 more forms. Each history is replayed into a real repl.History "
                            "with the crash hooks of the verif build; the loaded history after every restart / crash is judged by the acceptor "
                            "ReplStoreTrace (restart: equal to the reference; crash: prefix or suffix of the reference before or after the operation). "
                            "Settings: one history of setq / restart per transition of ReplSettings.tla (3 tracked variables, 2 values), every session "
                            f"a process of its own ({nsess} sessions); after each restart the variables must have the values last set. "
                            "distinct = distinct histories; evaluations = restarts and crashes judged",
                    "samples": [stimuli[n_bfs // 2], stimuli[-1]], "gen": gens, "crash_points_exercised": crashes})
    rep.assumptions = ["a process death is simulated by panicking out of the hook in front of the file-system call (and, for a torn write, by writing "
                       "half of the pending bytes first); the operating system is assumed to make completed writes and renames durable",
                       "the stash file is replayed with the histories of the same model without a limit; settings are limited to *print-...* variables (see finding C20-F4)"]
    return rep.finish()
