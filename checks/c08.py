"""C08 - meaning does not depend on definition order, compilation, or re-evaluation."""
import json, os, subprocess

from lib import common, pipeline
from checks import c01

PROP = "C08"
SPEC = os.path.join(common.VERIF, "spec", "Core")
VARIANTS = {0: "given order, main read and evaluated", 1: "definitions in reverse order (callers first)", 2: "main wrapped in a function defined before everything it calls",
            3: "one text, Code.Compile, then evaluated", 4: "every form through (eval (quote form))", 5: "(load file), callers first",
            6: "same code object, 2nd evaluation", 7: "same code object, 3rd evaluation", 8: "same code object, 4th evaluation",
            9: "every definition evaluated twice", 10: "a function redefined to something else and back",
            11: "every function first a stub, main evaluated once against the stubs, then the real definitions callers first, same code object of main",
            12: "every function defined three times: two stubs, then the real definition inside a let, callers first",
            13: "the real definitions, every function redefined as a stub, the real definitions again"}


def run(tier, seed):
    rep = common.Report(PROP, tier, seed)
    vdrive = common.build_harness()
    n, depth = (400, 4) if tier == "quick" else (3000, 5)
    stimuli = []
    for k, (cnt, dep) in enumerate(((n, depth), (n // 4, depth + 1))):
        p = subprocess.run([vdrive, "c01", "gen", str(seed * 10 + k), str(cnt), str(dep), "defs"], capture_output=True, cwd=common.scratch(), timeout=900)
        if p.returncode != 0:
            raise common.Infra("c01 gen failed: " + p.stderr.decode(errors="replace")[-1000:])
        for l in p.stdout.decode().splitlines():
            if l.strip():
                s = json.loads(l)
                s["id"] = len(stimuli) + 1
                stimuli.append(s)
    events = pipeline.drive(vdrive, "c08", stimuli, chunk=60, timeout=1800)
    by_id = {s["id"]: s for s in stimuli}
    findings = [f for f in common.load_findings(PROP) if f.get("status") == "open"]
    hit = {}
    f01 = [f for p in ("C01", "C07") for f in common.load_findings(p) if f.get("status") == "open"]
    res = c01.judge(events, lambda t: by_id[t // 100], f01, hit)
    traces = {e["t"] for e in events if e.get("ev") == "start"}
    for b in res["bad"]:
        s = by_id[b["t"] // 100]
        variant = b["t"] % 100
        f = next((f for f in findings if variant in f.get("variants", []) and (not f.get("msg") or f["msg"] in json.dumps(b["event"]))), None)
        if f:
            hit.setdefault(f["feature"], []).append(b["t"])
            continue
        rep.violation({"property": PROP, "variant": VARIANTS[variant], "program": s["src"], "definitions": s["defsrc"], "rejected": b["event"], "why": b["why"]},
                      f"variant '{VARIANTS[variant]}' of program {s['src'][:200]} with {len(s['defsrc'])} definitions: rejected at {b['why']} {b['i']}: "
                      f"observed {json.dumps(b['event'].get('v'))[:160]} {b['event'].get('msg', '')[:120]}")
    for f in findings + f01:
        if f["feature"] in hit:
            rep.known.append(f["summary"] + f" ({len(hit[f['feature']])} traces)")
    rep.cov.update({"states": res["states"], "transitions": res["lines"], "traces_validated_against_impl": len(traces),
                    "evaluations": res["checked"], "distinct_nontrivial": len({s["src"] + "".join(s["defsrc"]) for s in stimuli}),
                    "rule": f"{len(stimuli)} seeded programs (the C01 forms; 2-5 named functions calling each other, a recursive one, a mutually recursive pair, "
                            f"a closure maker) x {len(VARIANTS)} variants of definition order and evaluation mode ({'; '.join(VARIANTS.values())}); every variant "
                            "defines its own copy of the functions and is one trace (marks + final values) judged by the abstract machine Core.tla under TLC",
                    "samples": [{"program": s["src"], "definitions": s["defsrc"]} for s in stimuli[:2]], "exhaustive": False,
                    "probes": {k: len(v) for k, v in hit.items()}})
    return rep.finish()
