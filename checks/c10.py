"""C10 - generic dispatch equals the specification and is unaffected by its cache (sequential part)."""
import json, os, re, shutil, tempfile

from lib import common, pipeline

PROP = "C10"
SPEC = os.path.join(common.VERIF, "spec", "Generic")


def gen(max_ops, arity):
    d = tempfile.mkdtemp(prefix="spec-c10-", dir=common.scratch())
    for f in os.listdir(SPEC):
        shutil.copy(os.path.join(SPEC, f), d)
    cfg = open(os.path.join(SPEC, "Generic.cfg")).read()
    cfg = re.sub(r"MaxOps = \d+", f"MaxOps = {max_ops}", cfg)
    cfg = re.sub(r"Arity = \d+", f"Arity = {arity}", cfg)
    open(os.path.join(d, "Generic.cfg"), "w").write(cfg)
    r = common.run_tlc_with_files(d, "Generic", "Generic.cfg", {}, timeout=1500)
    if r["errors"]:
        raise common.Infra("Generic: " + "; ".join(r["errors"][:3]))
    out = []
    for row in common.emitted(r["out"]):
        out.append({"arity": arity, "ops": row["hist"], "feat": sorted(row["feat"])})
    return out, r


def judge(stim, ev):
    """Only the last operation is judged (every prefix is a stimulus of its own)."""
    i = len(stim["ops"]) - 1
    op, ob = stim["ops"][i], ev["steps"][i]
    if op["op"] != "call":
        return "" if not ob["st"] else f"{op['op']} failed: {ob['st']}"
    if not op["app"]:
        return "" if ob["st"] else f"call with no applicable method returned, trace {ob['trace']}"
    if not op["prim"]:
        return ""     # no applicable primary: the statement leaves the outcome open
    if ob["st"] or ob["trace"] != op["exp"]:
        return f"call {op['s']}: trace {ob['trace']} {ob['st']} want {op['exp']}"
    return ""


def run(tier, seed):
    rep = common.Report(PROP, tier, seed)
    vdrive = common.build_harness()
    d1 = int(os.environ.get("VERIF_DEPTH", 4 if tier == "quick" else 5))
    s1, g1 = gen(d1, 1)
    s2, g2 = gen(3 if tier == "quick" else 4, 2)
    stimuli = s1 + s2
    for i, s in enumerate(stimuli):
        s["id"] = i + 1
    rep.cov["states"], rep.cov["transitions"] = g1["distinct"] + g2["distinct"], g1["generated"] + g2["generated"]
    open_feats = {f["feature"]: f for f in common.load_findings(PROP) if f.get("status") == "open"}
    send = [{"id": s["id"], "arity": s["arity"], "ops": [{"op": o["op"], "q": o["q"], "s": o["s"]} for o in s["ops"]]} for s in stimuli]
    events = pipeline.drive(vdrive, "c10", send, chunk=500)
    by_t = {e["t"]: e for e in events}
    hit = {}
    for s in stimuli:
        why = judge(s, by_t[s["id"]])
        if not why:
            continue
        known = [f for f in s["feat"] if f in open_feats]
        if known:
            for f in known:
                hit.setdefault(f, []).append(s["id"])
        else:
            rep.violation({"property": PROP, "stimulus": s, "observed": by_t[s["id"]], "reason": why}, f"{json.dumps(s['ops'])}: {why}")
    for feat, f in open_feats.items():
        if feat in hit:
            rep.known.append(f["summary"] + f" ({len(hit[feat])} probes rejected)")
    rep.cov.update({"traces_validated_against_impl": len(stimuli), "evaluations": len(stimuli),
                    "distinct_nontrivial": g1["distinct"] + g2["distinct"], "exhaustive": True,
                    "rule": f"one history of defmethod/remove-method/call per transition of Generic (1 argument depth<={d1}, 2 arguments "
                            "depth<=3/4; VIEW = method table + set of argument class tuples already called, i.e. the cache)",
                    "samples": [{"stimulus": s["ops"]} for s in stimuli[:: max(1, len(stimuli) // 4)][:4]],
                    "probes": {k: len(v) for k, v in hit.items()}})
    return rep.finish()
