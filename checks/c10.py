"""C10 - generic dispatch equals the specification and is unaffected by its cache (sequential histories + held calls)."""
import json, os

from lib import common, gen, pipeline

PROP = "C10"
SPEC = os.path.join(common.VERIF, "spec", "Generic")


def judge(stim, ev):
    """Every step is judged against what TLC computed from the reference."""
    for i, (op, ob) in enumerate(zip(stim["ops"], ev["steps"])):
        if ob.get("fault"):
            return f"step {i + 1} {op['op']}: internal fault {ob['st']}"
        if op["op"] != "call":
            if ob["st"]:
                return f"step {i + 1} {op['op']} {op['q']} {op['s']} failed: {ob['st']}"
            continue
        if not op["app"]:
            if not ob["st"]:
                return f"step {i + 1}: call {op['s']} with no applicable method returned, trace {ob['trace']}"
            continue
        if not op["det"]:
            continue     # no applicable primary and no :around that stops: the statement leaves the outcome open
        if stim["univ"] == "retry":
            # bodies of the retry profile (Generic!EffectiveRetry): the trace, and an error exactly when the primary fails
            if ob["trace"] != op["exp2"] or bool(ob["st"]) == op["ok2"]:
                return f"step {i + 1}: call {op['s']} ran {ob['trace']} {ob['st']} want {op['exp2']}{'' if op['ok2'] else ' and an error'}"
            continue
        if ob["st"] or ob["trace"] != op["exp"]:
            return f"step {i + 1}: call {op['s']} ran {ob['trace']} {ob['st']} want {op['exp']}"
    return ""


def run(tier, seed):
    rep = common.Report(PROP, tier, seed)
    vdrive = common.build_harness()
    quick = tier == "quick"
    d1 = int(os.environ.get("VERIF_DEPTH", 4 if quick else 5))
    d2 = 3 if quick else 3
    walks = int(os.environ.get("VERIF_WALKS", 150 if quick else 1500))
    stimuli, gens = [], []
    rows, g = gen.bfs(SPEC, "Generic", "Generic.cfg", {"MaxOps": d1, "Arity": 1}, timeout=3000)
    stimuli += [{"arity": 1, "univ": "user", "ops": r["hist"]} for r in rows]
    # the same histories with the method bodies of the retry profile (call-next-method again after the first call was left
    # through an error): those that have an :around method
    stimuli += [{"arity": 1, "univ": "retry", "ops": r["hist"]} for r in rows if any(o["q"] == "around" for o in r["hist"])]
    gens.append(g)
    # the same histories against built-in classes (fixnum < integer < real < t): one level less
    rows, g = gen.bfs(SPEC, "Generic", "Generic.cfg", {"MaxOps": d1 - 1, "Arity": 1}, timeout=3000)
    stimuli += [{"arity": 1, "univ": "builtin", "ops": r["hist"]} for r in rows]
    # ... against cons < list < sequence (a dotted pair and a proper list are of one Go type and of different classes)
    stimuli += [{"arity": 1, "univ": "lists", "ops": r["hist"]} for r in rows]
    gens.append(g)
    rows, g = gen.bfs(SPEC, "Generic", "Generic.cfg", {"MaxOps": d2, "Arity": 2}, timeout=3000)
    stimuli += [{"arity": 2, "univ": "user", "ops": r["hist"]} for r in rows]
    gens.append(g)
    n_bfs = len(stimuli)
    for k, (ar, mo) in enumerate(((2, 12), (1, 16))):
        rows, g = gen.sim(SPEC, "Generic", "GenericSim.cfg", {"Arity": ar, "MaxOps": mo, "EmitFrom": mo}, num=walks, depth=mo + 4,
                          seed=seed * 10 + k, timeout=3000)
        stimuli += [{"arity": ar, "univ": "user" if k == 0 else "builtin", "ops": r["hist"]} for r in rows]
        gens.append(g)
    for i, s in enumerate(stimuli):
        s["id"] = i + 1
    send = [{"id": s["id"], "arity": s["arity"], "univ": s["univ"],
             "ops": [{"op": o["op"], "q": o["q"], "s": o["s"], "v": o["v"]} for o in s["ops"]]} for s in stimuli]
    events = pipeline.drive(vdrive, "c10", send, chunk=500)
    by_t = {e["t"]: e for e in events}
    shapes = set()
    for s in stimuli:
        shapes.add(json.dumps([o["exp"] for o in s["ops"] if o["op"] == "call"]))
        why = judge(s, by_t[s["id"]])
        if why:
            rep.violation({"property": PROP, "stimulus": s, "observed": by_t[s["id"]], "reason": why},
                          f"{json.dumps([[o['op'], o['q'], o['s'], o['v']] for o in s['ops']])}: {why}")
    # "adding, replacing or removing a method after earlier calls takes effect on the very next call" also when the
    # redefinition arrives while a call is inside the generic function: the held-call histories of GenCache.tla (spec/Conc),
    # with the call held at the yield hook and by the class hierarchy of its own argument
    import subprocess
    held = [{"id": i + 1, "kind": k, "n": 2, "m": 1, "cap": 0} for i, k in enumerate(["gencache", "gencache2"] * (2 if quick else 10))]
    p = subprocess.run([vdrive, "c17stress"], input=("\n".join(json.dumps(x) for x in held) + "\n").encode(), capture_output=True,
                       cwd=common.scratch(), timeout=600)
    hev = [json.loads(l) for l in p.stdout.decode().split("\n") if l.strip()]
    if p.returncode != 0 or len(hev) != len(held):
        raise common.Infra(f"vdrive c17stress (held calls) exited {p.returncode}: {p.stderr.decode(errors='replace')[-1500:]}")
    for i, e in enumerate(hev):
        e["id"] = i + 1
    r = common.run_tlc_with_files(os.path.join(common.VERIF, "spec", "Conc"), "ConcStress", "ConcStress.cfg", {"traces.ndjson": hev}, timeout=600)
    found = list(common.emitted(r["out"], prefix="RESULT"))
    if not found:
        raise common.Infra(f"acceptor ConcStress produced no RESULT ({r['errors'][:2]})")
    for bd in found[-1]["bad"]:
        e = hev[bd["id"] - 1]
        rep.violation({"property": PROP, "held_call": e, "law": bd["law"]},
                      f"a method redefined while a call was held inside the generic function ({e['kind']}): status {e['st'][:100]} observed {e.get('gen')}; "
                      "the redefinition must wait for the call and the next call must run the new method (GenCache.tla)")
    rep.cov["held_calls"] = len(hev)
    rep.cov.update({"states": sum(g.get("distinct", 0) for g in gens), "transitions": sum(g["generated"] for g in gens),
                    "traces_validated_against_impl": len(stimuli), "evaluations": len(stimuli),
                    "distinct_nontrivial": len(shapes), "exhaustive": True,
                    "rule": f"one history of defmethod (new or replacing) / remove-method / call per transition of Generic.tla: 1 argument depth<={d1} "
                            f"on a defclass chain and depth<={d1 - 1} on fixnum<integer<real, on cons<list<sequence and with the bodies of the retry profile (Generic!EffectiveRetry), 2 arguments depth<={d2}; VIEW = method table + "
                            f"what each argument class tuple ran when last called (ghost of the cache) - exhaustive; plus the final states of {walks} "
                            "random walks each for 2 arguments x 12 operations and 1 argument x 16 operations through the same Next relation. "
                            "Every call step of every history is compared with the effective-method trace TLC computed from the reference; "
                            "distinct_nontrivial = distinct sequences of expected call traces",
                    "samples": [{"stimulus": [[o["op"], o["q"], o["s"], o["v"]] for o in s["ops"]],
                                 "expected_last": s["ops"][-1]["exp"]} for s in (stimuli[n_bfs // 3], stimuli[-1])],
                    "gen": gens})
    rep.assumptions = ["method bodies announce themselves through a harness function (vmark); :around version 1 calls call-next-method with the same arguments, version 2 does not",
                       "when no primary method is applicable and no :around stops, the outcome is not constrained (statement silent)"]
    return rep.finish()


def replay(path):
    payload = json.load(open(path))
    vdrive = common.build_harness()
    s = payload["stimulus"]
    send = {"id": s["id"], "arity": s["arity"], "univ": s["univ"], "ops": [{"op": o["op"], "q": o["q"], "s": o["s"], "v": o["v"]} for o in s["ops"]]}
    ev = pipeline.drive(vdrive, "c10", [send])[0]
    why = judge(s, ev)
    print(json.dumps(ev))
    if why:
        print(f"VIOLATION property={PROP} replay={path}\n  {why}")
        return 1
    print("accepted")
    return 0
