"""C17 - channels, mutexes and synchronized objects hold up under concurrency."""
import json, os, subprocess
from concurrent.futures import ThreadPoolExecutor

from lib import common, gen

PROP = "C17"
SPEC = os.path.join(common.VERIF, "spec", "Conc")
KEYS = ("NProd", "NCons", "Items", "Incs", "Cap", "Sel")


def consts(c, **more):
    c = tuple(c) + (("FALSE",) if len(c) == 5 else ())
    d = {k: c[i] for i, k in enumerate(KEYS)}
    d.update(more)
    return d


def race_tops(report):
    """The innermost slip function of each of the two accesses of a race report (the detector cannot always restore the
    stack of the earlier access: then '?')."""
    import re
    tops, cur = [], None
    for line in report.splitlines():
        if re.match(r"^(Read|Write|Previous read|Previous write|Atomic|Previous atomic)", line.strip()) and " at 0x" in line:
            if cur is not None:
                tops.append(cur or "?")
            cur = ""
        elif line.startswith(("Goroutine", "Location")):
            if cur is not None:
                tops.append(cur or "?")
                cur = None
        elif cur == "" and "github.com/ohler55/slip" in line:
            cur = line.strip().rstrip("()").split("github.com/ohler55/")[-1]
    if cur is not None:
        tops.append(cur or "?")
    return tops[:2]


def run(tier, seed):
    rep = common.Report(PROP, tier, seed)
    vdrive = common.build_harness()
    quick = tier == "quick"
    # 1. the design: every interleaving of small configurations, all properties incl. termination; and the control:
    #    without the mutex the model must lose updates (a model that cannot fail checks nothing)
    designs = [(2, 2, 2, 1, 0), (2, 2, 2, 1, 1), (2, 1, 2, 1, 2)] + ([] if quick else [(2, 2, 2, 2, 1), (3, 3, 1, 1, 1), (3, 1, 2, 1, 0)])
    states = trans = 0
    design_stats = []

    def design(c):
        d = gen._prepare(SPEC, "ConcDesign.cfg", consts(c))
        r = common.run_tlc_with_files(d, "Conc", "ConcDesign.cfg", {}, timeout=3000, workers=2, heap="6g")
        return c, r

    with ThreadPoolExecutor(max_workers=4) as ex:
        for c, r in ex.map(design, designs):
            tail = common._tail(r["out"], 6000)
            if "No error has been found" not in tail:
                rep.violation({"property": PROP, "model": "Conc.tla", "config": consts(c), "tlc": tail[-3000:]},
                              f"TLC found the design properties violated in Conc.tla for {consts(c)} (see the counterexample in the replay file)")
            states += r["distinct"]
            trans += r["generated"]
            design_stats.append({"config": consts(c), "distinct": r["distinct"], "generated": r["generated"]})
    for atomic, want in (("TRUE", "No error has been found"), ("FALSE", "Invariant CacheCoherent is violated")):
        d = gen._prepare(SPEC, "GenCache.cfg", {"Atomic": atomic})
        r = common.run_tlc_with_files(d, "GenCache", "GenCache.cfg", {}, timeout=600, heap="2g")
        if want not in common._tail(r["out"], 20000):
            if atomic == "TRUE":
                rep.violation({"property": PROP, "model": "GenCache.tla", "tlc": common._tail(r["out"], 3000)}, "TLC found the generic cache model incoherent")
            else:
                raise common.Infra("control failed: the non-atomic generic cache model must produce a stale cache entry")
        states += r["distinct"]
        trans += r["generated"]
    d = gen._prepare(SPEC, "ConcDesign.cfg", consts((2, 2, 2, 1, 1), Guarded="FALSE"))
    r = common.run_tlc_with_files(d, "Conc", "ConcDesign.cfg", {}, timeout=3000, workers=2, heap="6g")
    if "Invariant EndState is violated" not in common._tail(r["out"], 20000):
        raise common.Infra("control failed: without the mutex Conc.tla must lose an update, and TLC did not say so")
    # 2. schedules: every complete interleaving of tiny configurations, random walks of larger ones
    tiny = [(1, 1, 2, 1, 0), (1, 1, 2, 1, 1), (1, 1, 2, 1, 2), (2, 1, 1, 1, 0), (1, 2, 2, 0, 1, "TRUE")] + ([] if quick else [(2, 1, 1, 1, 1), (1, 2, 2, 1, 1), (1, 2, 2, 0, 0, "TRUE")])
    large = [(2, 2, 2, 1, 0), (2, 2, 3, 2, 1), (3, 3, 2, 1, 2), (4, 4, 2, 1, 1), (2, 4, 4, 1, 0), (2, 3, 3, 1, 1, "TRUE"), (4, 4, 2, 0, 0, "TRUE")] + (
        [] if quick else [(4, 4, 3, 2, 3), (1, 7, 7, 1, 1), (7, 1, 2, 2, 0), (4, 2, 5, 3, 2), (2, 6, 6, 1, 2, "TRUE")])
    groups, gens = {}, []

    def bfs(c):
        return c, gen.bfs(SPEC, "Conc", "ConcGen.cfg", consts(c), timeout=3000)

    def walk(c):
        steps = (c[0] * c[2] * 3 + (c[0] + c[1]) * c[3] * 4) * 2
        return c, gen.sim(SPEC, "Conc", "ConcSim.cfg", consts(c, EmitFrom=1), num=60 if quick else 600, depth=steps + 2, seed=seed, timeout=3000)

    with ThreadPoolExecutor(max_workers=8) as ex:
        for c, (rows, g) in list(ex.map(bfs, tiny)) + list(ex.map(walk, large)):
            gens.append(g)
            seen = set()
            for r in rows:
                k = json.dumps(r["sched"])
                if k not in seen:
                    seen.add(k)
                    groups.setdefault(c, []).append(r)
    stimuli = []
    for c, rows in groups.items():
        if len(rows) > (400 if quick else 4000):
            rows = rows[::len(rows) // (400 if quick else 4000) + 1]
            groups[c] = rows
        for r in rows:
            r["sel"] = len(c) > 5 and c[5] == "TRUE"
            r["id"] = len(stimuli) + 1
            stimuli.append(r)
    by_id = {s["id"]: s for s in stimuli}

    def replay(item):
        c, rows = item
        out = []
        for i in range(0, len(rows), 100):
            part = rows[i:i + 100]
            inp = "\n".join(json.dumps(x, separators=(",", ":")) for x in part) + "\n"
            p = subprocess.run([vdrive, "c17"], input=inp.encode(), capture_output=True, cwd=common.scratch(), timeout=3000)
            if p.returncode != 0:
                raise common.Infra(f"vdrive c17 exited {p.returncode}: {p.stderr.decode(errors='replace')[-2000:]}")
            out += [json.loads(l) for l in p.stdout.decode().split("\n") if l.strip()]
        if len(out) != len(rows):
            raise common.Infra(f"vdrive c17 answered {len(out)} of {len(rows)} schedules")
        d = gen._prepare(SPEC, "ConcTrace.cfg", consts(c))
        r = common.run_tlc_with_files(d, "ConcTrace", "ConcTrace.cfg", {"traces.ndjson": out}, timeout=3000, heap="3g")
        found = list(common.emitted(r["out"], prefix="RESULT"))
        if not found:
            raise common.Infra(f"acceptor ConcTrace produced no RESULT ({r['errors'][:2]}) {common._tail(r['out'], 1500)}")
        res = found[-1]
        ev = {e["id"]: e for e in out}
        for b in res["bad"]:
            b["event"] = ev[b["id"]]
        res["generated"] = r["generated"]
        return res

    checked = 0
    with ThreadPoolExecutor(max_workers=common.CORES // 2) as ex:
        for res in ex.map(replay, list(groups.items())):
            checked += res["checked"]
            trans += res["generated"]
            for b in res["bad"]:
                s = by_id[b["id"]]
                step = b["event"]["steps"][b["at"] - 1] if 0 < b["at"] <= len(b["event"]["steps"]) else None
                rep.violation({"property": PROP, "schedule": s, "at_step": b["at"], "why": b["why"], "event": b["event"]},
                              f"{s['nprod']} producers x {s['items']} items, {s['ncons']} consumers, {s['incs']} locked increments each, channel of {s['cap']}: "
                              f"schedule {json.dumps(s['sched'])[:120]} leaves the model at step {b['at']} ({b['why']}): observed {json.dumps(step)[:200]} "
                              f"final {json.dumps(b['event']['final'])}")
    # 3. free running programs under the race detector, GOMAXPROCS 1..16
    race = common.build_harness(race=True)
    kinds = [("chan", 0), ("chan", 1), ("chan", 8), ("select", 0), ("select", 4), ("selectfn", 2), ("mutex", 0), ("mutexnest", 0), ("syncinst", 0), ("syncmethod", 0), ("withslots", 0), ("rangehandoff", 0), ("tables", 0)]
    sizes = [(2, 20), (4, 50)] if quick else [(2, 20), (4, 50), (8, 200), (3, 101)]
    stress = []
    for k, cap in kinds:
        for n, m in sizes:
            if k == "tables":
                m = min(m, 40)
            if k == "mutexnest":
                m = min(m, 15)      # every critical section sleeps 1 ms
            stress.append({"id": len(stress) + 1, "kind": k, "n": n, "m": m, "cap": cap})
    for _ in range(3):
        stress.append({"id": len(stress) + 1, "kind": "gencache", "n": 2, "m": 1, "cap": 0})
        stress.append({"id": len(stress) + 1, "kind": "gencache2", "n": 2, "m": 1, "cap": 0})
    procs = [1, 2, 16] if quick else [1, 2, 3, 4, 8, 16]
    findings = [f for f in common.load_findings(PROP) if f.get("status") == "open"]
    hit = {}

    def stress_run(gmp):
        import re, tempfile
        logdir = tempfile.mkdtemp(prefix="race-", dir=common.scratch())
        env = dict(os.environ, GOMAXPROCS=str(gmp), GORACE=f"halt_on_error=0 exitcode=0 log_path={logdir}/race")
        inp = "\n".join(json.dumps(x, separators=(",", ":")) for x in stress) + "\n"
        p = subprocess.run([race, "c17stress"], input=inp.encode(), capture_output=True, cwd=common.scratch(), timeout=3000, env=env)
        events = [json.loads(l) for l in p.stdout.decode().split("\n") if l.strip()]
        reports = []
        for f in os.listdir(logdir):
            txt = open(os.path.join(logdir, f), errors="replace").read()
            reports += [b for b in txt.split("==================") if "DATA RACE" in b]
        err = p.stderr.decode(errors="replace")
        return gmp, p.returncode, err[:1500] + "\n...\n" + err[-1500:] if len(err) > 3000 else err, events, reports

    stress_events = []
    races = {}
    with ThreadPoolExecutor(max_workers=3) as ex:
        for gmp, rc, err, events, reports in ex.map(stress_run, procs):
            if rc != 0 or len(events) != len(stress):
                # the process died: a fatal error of the runtime ("concurrent map writes") is a violation, anything else infrastructure
                # the process died while running a program of the supported shape: a fatal error or panic of the Go runtime in
                # slip's frames (concurrent map writes, unlock of an unlocked mutex ...) is a violation; a kill from outside is not
                if rc < 0 or "signal: killed" in err:
                    raise common.Infra(f"vdrive c17stress was killed ({rc}) after {len(events)} of {len(stress)} programs")
                lines = [x for x in err.splitlines() if x.startswith(("fatal error", "panic:", "sync:"))] or err.strip().splitlines()[:1]
                prog = stress[len(events)] if len(events) < len(stress) else None
                rep.violation({"property": PROP, "gomaxprocs": gmp, "program": prog, "stderr": err},
                              f"the interpreter died under concurrency (GOMAXPROCS={gmp}, program {json.dumps(prog)}): {lines[0] if lines else rc}")
            for e in events:
                e["gomaxprocs"] = gmp
                e["id"] = len(stress_events) + 1
                stress_events.append(e)
            for r in reports:
                tops = race_tops(r)
                key = " / ".join(tops) if tops else "no slip frame"
                races.setdefault(key, []).append((gmp, r))
    r = common.run_tlc_with_files(SPEC, "ConcStress", "ConcStress.cfg", {"traces.ndjson": stress_events}, timeout=3000, heap="3g")
    found = list(common.emitted(r["out"], prefix="RESULT"))
    if not found:
        raise common.Infra(f"acceptor ConcStress produced no RESULT ({r['errors'][:2]}) {common._tail(r['out'], 1500)}")
    sev = {e["id"]: e for e in stress_events}
    for b in found[-1]["bad"]:
        e = sev[b["id"]]
        rep.violation({"property": PROP, "law": b["law"], "event": e},
                      f"free running {e['kind']} program ({e['n']} routines x {e['m']} operations, channel of {e['cap']}, GOMAXPROCS={e['gomaxprocs']}): {b['law']} wrong: "
                      f"status {e['st'][:100]} x={e['x']} slots={e['slots']} bad={e['bad'][:3]} gen={e.get('gen')}")
    for key, lst in races.items():
        if key == "no slip frame":
            continue
        # known: the innermost slip function of one of the two accesses is one a finding names
        tops = key.split(" / ")
        f = next((f for f in findings if f.get("race_tops") and any(t in f["race_tops"] for t in tops)), None)
        if f:
            hit.setdefault(f["feature"], []).append(key)
        else:
            rep.violation({"property": PROP, "race": key, "gomaxprocs": lst[0][0], "report": lst[0][1][:6000], "reports": len(lst), },
                          f"data race reported by the Go race detector in slip's own frames: {key} ({len(lst)} reports, first with GOMAXPROCS={lst[0][0]})")
    for f in findings:
        if f["feature"] in hit:
            rep.known.append(f["summary"] + f" ({len(hit[f['feature']])} race reports)")
    rep.cov["stress"] = {"programs": len(stress), "gomaxprocs": procs, "runs": len(stress_events), "race_reports": {k: len(v) for k, v in races.items()}}
    rep.cov.update({"states": states, "transitions": trans, "traces_validated_against_impl": checked + len(stress_events), "evaluations": sum(len(s["sched"]) for s in stimuli),
                    "distinct_nontrivial": len(stimuli), "exhaustive": True,
                    "rule": f"design: TLC on Conc.tla, every interleaving of {len(designs)} configurations (<= 6 routines), invariants AtMostOnce ProducerOrder "
                            "MutualExclusion EndState NoDeadlock and the liveness property Termination, plus the unguarded control; replay: every complete "
                            f"interleaving of {len(tiny)} tiny configurations (2-3 routines, unbuffered and buffered) and random schedules of {len(large)} larger ones "
                            "(up to 8 routines), each replayed through per-operation gates and judged step by step by ConcTrace.tla "
                            "(evaluations = replayed steps); free running: the program shapes of ConcStress.tla with 2..8 routines x 20..200 operations under the "
                            "Go race detector with GOMAXPROCS 1..16, outcomes judged by ConcStress.tla, race reports in slip frames are violations",
                    "samples": [stimuli[0], stimuli[-1]], "gen": gens, "design": design_stats})
    return rep.finish()
