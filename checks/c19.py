"""C19 - definitions and data saved as source code reload to an equal world."""
import json, os, subprocess
from concurrent.futures import ThreadPoolExecutor

from lib import common, gen

PROP = "C19"
WORLD = os.path.join(common.VERIF, "spec", "World")
PR = os.path.join(common.VERIF, "spec", "PrintRead")


def kinds(o, acc=None):
    acc = set() if acc is None else acc
    acc.add("float-" + o["fmt"] if o["k"] == "float" else o["k"])
    if o["k"] == "hash":
        for kv in o["v"]:
            kinds(kv[0], acc)
            kinds(kv[1], acc)
    else:
        for e in o["v"] if o["k"] in ("list", "dotted", "vec", "array") else []:
            kinds(e, acc)
    if o["k"] == "dotted":
        kinds(o["tail"], acc)
    return acc


def degenerate(o):
    """An array of rank 0 or with a dimension of 0 somewhere in the object."""
    if o["k"] == "array" and (not o["dims"] or 0 in o["dims"]):
        return True
    if o["k"] == "hash":
        return any(degenerate(k) or degenerate(v) for k, v in o["v"])
    return any(degenerate(e) for e in o["v"]) if o["k"] in ("list", "dotted", "vec", "array") else False


def explains(f, items, probe=None):
    """An open finding explains a difference of a session when one of its alternatives (the items it needs, the probes it names) applies."""
    for a in [f] + f.get("alts", []):
        if "needs" in a and set(a["needs"]) <= set(items) and (probe is None or probe in a.get("probes", [])):
            return True
    return False


ENVS = [[], ["(setq *print-base* 16)"], ["(setq *print-prec* 4)"], ["(setq *print-length* 2)", "(setq *print-base* 2)"], ["(setq *print-radix* t)", "(setq *print-level* 1)"]]


def run(tier, seed):
    rep = common.Report(PROP, tier, seed)
    vdrive = common.build_harness()
    quick = tier == "quick"
    findings = [f for f in common.load_findings(PROP) if f.get("status") == "open"]
    hit = {}
    # ---- values: load form, pretty-printed under every margin, evaluated again -------------------------------------------
    level = 1 if quick else 2
    rows, g1 = gen.bfs(PR, "ObjGen", "ObjGen.cfg", {"Level": level, "Family": '"leaf"', "MaxDepth": 0}, timeout=3000)
    rows2, g2 = gen.bfs(PR, "ObjGen", "ObjGen.cfg", {"Level": level, "Family": '"hash"', "MaxDepth": 1 if quick else 2}, timeout=3000)
    # a symbol on its own is not a form to evaluate (the pretty printer shows the function a symbol names): symbols are covered inside data
    objs = [{"id": i + 1, "obj": r["obj"]} for i, r in enumerate([r for r in rows if r["obj"]["k"] != "sym"] + [r for r in rows2 if r["depth"] > 0])]
    if not quick and len(objs) > 9000:
        objs = objs[::len(objs) // 9000 + 1]
    size = max(50, (len(objs) + common.CORES * 2 - 1) // (common.CORES * 2))

    # function call objects (a text read and compiled): special operators whose later arguments are not evaluated
    CALLS = ["(let ((x 2)) (setq x (* x 3)) (+ x 1))", "(cond ((> 1 2) 'a) ((< 1 2) 'c) (t 'b))", "(case (+ 1 1) (1 'one) (2 'two) (t 'many))",
             "(let ((n 0)) (dotimes (i 3) (setq n (+ n i)) (setq n (* n 2))) n)", "(funcall (lambda (x y) (setq x (+ x y)) (list x y)) 1 2)",
             "(when (< 1 2) 'a '(1 2))", "(unless nil 1 '(b . c))", "(typecase 5 (string 1) (fixnum 2) (t 3))", "(and 1 (car '(2)) '(1))", "(or nil nil '(3) 4)",
             "(do ((i 0 (1+ i)) (a 0 (+ a i))) ((> i 3) a) (setq a (+ a 1)))", "(let* ((x 1) (y (+ x 1))) (list x y) (* x y 7))", "(prog1 '(1) 2 3)",
             "(if (> 2 1) '(a \"s\") '(b c))", "(progn 1 '(2 3))", "(block b (return-from b '(x)) 2)", "(dolist (el '(1 2) 'done) (list el))",
             "(multiple-value-bind (q r) (floor 7 2) (list q r) (+ q r))", "(car '(1 2))", "(+ 1 (* 2 3))"]
    objs = objs + [{"id": len(objs) + 1 + i, "call": c} for i, c in enumerate(CALLS)]

    def values(ch):
        inp = "\n".join(json.dumps(c, separators=(",", ":")) for c in ch) + "\n"
        p = subprocess.run([vdrive, "c19lf"], input=inp.encode(), capture_output=True, cwd=common.scratch(), timeout=3000)
        if p.returncode != 0:
            raise common.Infra(f"vdrive c19lf exited {p.returncode}: {p.stderr.decode(errors='replace')[-2000:]}")
        events = [json.loads(l) for l in p.stdout.decode().split("\n") if l.strip()]
        r = common.run_tlc_with_files(PR, "LoadForm", "LoadForm.cfg", {"traces.ndjson": events}, timeout=3000, heap="3g")
        found = list(common.emitted(r["out"], prefix="RESULT"))
        if not found:
            raise common.Infra(f"acceptor LoadForm produced no RESULT ({r['errors'][:2]}) {common._tail(r['out'], 1500)}")
        for b in found[-1]["bad"]:
            b["event"] = events[b["l"] - 1]
        return found[-1], len(events), sum(e["count"] for e in events), sum(e["st"] == "no load form" for e in events)

    vbad, vchecked, prints, noform = [], 0, 0, 0
    with ThreadPoolExecutor(max_workers=common.CORES) as ex:
        for res, n, pr, nf in ex.map(values, [objs[i:i + size] for i in range(0, len(objs), size)]):
            vbad += res["bad"]
            vchecked += n
            prints += pr
            noform += nf
    for b in vbad:
        ev = b["event"]
        ks = kinds(ev["obj"])
        f = next((f for f in findings if f.get("value_kinds") and set(f["value_kinds"]) & ks and set(b["laws"]) <= set(f.get("laws", b["laws"]))
                  and (not f.get("degenerate_array") or degenerate(ev["obj"]))), None)
        if f:
            hit.setdefault(f["feature"], []).append(ev["id"])
            continue
        rep.violation({"property": PROP, "part": "values", "laws": b["laws"], "event": ev},
                      f"load form of {json.dumps(ev['obj'])[:160]} at margin {ev['margin']}: {'/'.join(b['laws'])}: text {json.dumps(ev['text'])[:200]} "
                      f"({ev['st'][:120]}) evaluated to {json.dumps(ev['back'])[:160]}")
    # ---- sessions: snapshot, fresh process, load, snapshot ---------------------------------------------------------------------
    srows, g3 = gen.bfs(WORLD, "World", "WorldGen.cfg", {"MaxOps": 2 if quick else 3, "EmitFrom": 1}, timeout=3000)
    drows, g4 = gen.bfs(WORLD, "World", "WorldDirected.cfg", {}, timeout=600)      # groups of items that belong together, and pairs of groups
    srows += drows
    shards = 4
    gens = [g1, g2, g3, g4]

    def walk(k):
        return gen.sim(WORLD, "World", "WorldSim.cfg", {"MaxOps": 19, "EmitFrom": 6}, num=(24 if quick else 240) // shards, depth=20, seed=seed * 100 + k, timeout=3000)

    with ThreadPoolExecutor(max_workers=shards) as ex:
        for r2, g in ex.map(walk, range(shards)):
            srows += r2
            gens.append(g)
    seen, sessions = set(), []
    cap = len(srows) - sum(g["emitted"] for g in gens[4:]) + (500 if quick else 6000)      # the random sessions are capped, the enumerated ones never
    for r in srows[:cap]:
        k = json.dumps(r["items"])
        if k not in seen:
            seen.add(k)
            r["id"] = len(sessions) + 1
            # global printer settings in force when the load forms are printed and the snapshot is taken (what is saved does not
            # depend on them): four of five sessions run under one of these
            r["env"] = ENVS[r["id"] % len(ENVS)]
            sessions.append(r)
    by_id = {s["id"]: s for s in sessions}
    ssize = max(10, (len(sessions) + common.CORES - 1) // common.CORES)

    def sess(ch):
        inp = "\n".join(json.dumps(c, separators=(",", ":")) for c in ch) + "\n"
        p = subprocess.run([vdrive, "c19"], input=inp.encode(), capture_output=True, cwd=common.scratch(), timeout=3000)
        if p.returncode != 0:
            raise common.Infra(f"vdrive c19 exited {p.returncode}: {p.stderr.decode(errors='replace')[-2000:]}")
        events = [json.loads(l) for l in p.stdout.decode().split("\n") if l.strip()]
        if len(events) != len(ch):
            raise common.Infra(f"vdrive c19 answered {len(events)} of {len(ch)} sessions")
        bad_first = [e for e in events if e["st1"] != "ok"]
        r = common.run_tlc_with_files(WORLD, "WorldTrace", "WorldTrace.cfg", {"traces.ndjson": events}, timeout=3000, heap="3g")
        found = list(common.emitted(r["out"], prefix="RESULT"))
        if not found:
            raise common.Infra(f"acceptor WorldTrace produced no RESULT ({r['errors'][:2]}) {common._tail(r['out'], 1500)}")
        ev = {e["id"]: e for e in events}
        for b in found[-1]["bad"]:
            b["event"] = ev[b["id"]]
        return found[-1], bad_first

    schecked = 0
    with ThreadPoolExecutor(max_workers=common.CORES) as ex:
        for res, bad_first in ex.map(sess, [sessions[i:i + ssize] for i in range(0, len(sessions), ssize)]):
            schecked += res["checked"]
            for e in bad_first:
                rep.violation({"property": PROP, "part": "sessions", "session": by_id[e["id"]], "event": e}, f"session {by_id[e['id']]['items']}: a definition form failed: {e['st1'][:200]}")
            for b in res["bad"]:
                s, ev = by_id[b["id"]], b["event"]
                # every difference must be explained by an open finding: a probe by the item it needs, the load and the fixed point by name
                left = []
                for p in b["first"]:
                    left.append(f"in the defining session {p} is {ev['p1'][s['probes'].index(p)]!r}")
                for p in b["reload"]:
                    f = next((f for f in findings if explains(f, s["items"], p)), None)
                    if f:
                        hit.setdefault(f["feature"], []).append(b["id"])
                    else:
                        i = s["probes"].index(p)
                        left.append(f"after loading the snapshot {p} is {ev['p2'][i]!r}, it was {ev['p1'][i]!r}")
                if not b["loads"]:
                    f = next((f for f in findings if f.get("load_error") and f["load_error"] in ev["st2"]), None)
                    if f:
                        hit.setdefault(f["feature"], []).append(b["id"])
                    else:
                        left.append(f"loading the snapshot failed: {ev['st2'][:200]}")
                elif not b["same"]:
                    f = next((f for f in findings if f.get("fixed_point") and explains(f, s["items"])), None)
                    if f:
                        hit.setdefault(f["feature"], []).append(b["id"])
                    else:
                        left.append("the snapshot of the reloaded session differs from the first snapshot")
                # the objects of the session rebuilt from their pretty-printed load forms
                for t in b.get("lf", []):
                    where = f"after evaluating the load forms of the session's objects (right margin {t['margins'][0]})"
                    excused = set()
                    if t["st"] != "ok":
                        # a form that cannot be evaluated: explained only by an open finding about that form; the probes that finding
                        # names are excused, every other probe is still judged
                        for x in [x for x in t["st"].split(" ;; ") if x]:
                            f = next((f for f in findings if f.get("lf_error") and any(m in x for m in f["lf_error"]) and set(f.get("needs_any", [])) & set(s["items"])), None)
                            if f:
                                hit.setdefault(f["feature"], []).append(b["id"])
                                excused |= set(f.get("probes", []))
                            else:
                                left.append(f"{where}: {x[:300]}")
                    for p in [p for p in t["probes"] if p not in excused]:
                        f = next((f for f in findings if f.get("lf_probes") and explains(f, s["items"], p)), None)
                        if f:
                            hit.setdefault(f["feature"], []).append(b["id"])
                        else:
                            i = s["probes"].index(p)
                            got = next((x["p"][i] for x in ev["lf"] if x["margins"] == t["margins"]), "?")
                            left.append(f"{where} {p} is {got!r}, it was {ev['p1'][i]!r}")
                if left:
                    rep.violation({"property": PROP, "part": "sessions", "session": s["items"], "differences": left, "event": ev},
                                  f"session {s['items']}: " + "; ".join(left)[:600])
    for f in findings:
        if f["feature"] in hit:
            rep.known.append(f["summary"] + f" ({len(hit[f['feature']])} observations)")
    rep.cov.update({"states": sum(g.get("distinct", 0) for g in gens), "transitions": sum(g["generated"] for g in gens) + vchecked + schecked,
                    "traces_validated_against_impl": len(objs) + len(sessions), "evaluations": prints + len(sessions) * 2 * len(sessions[0]["probes"]),
                    "distinct_nontrivial": vchecked + len(sessions), "exhaustive": True, "no_load_form": noform,
                    "rule": f"values: {len(objs)} objects of ObjGen (all leaves, hash tables and the structures around them) x right margins 20..120, one event per "
                            f"distinct text of the pretty-printed load form, judged by LoadForm.tla; sessions: every session of World.tla up to {2 if quick else 3} "
                            "definitions (one per transition of the graph of defined sets), the directed sessions of World.tla (every group of related items completely, every two groups one after the other) and at most {500 if quick else 6000} random sessions of 6..19 definitions out of 36 items (variables, "
                            "parameter changed later, constant, hash table, functions incl. a redefinition and optional / key parameters, macro, flavors with "
                            "a method, inheritance and an instance, flavors whose names sort against their inheritance, an inherited list default, classes with and without accessors, generic functions with methods, daemons and an :around method, a lambda as a value, package with export), each run in a "
                            "fresh process, snapshot loaded in another fresh process, {len(sessions[0]['probes'])} probes compared and the snapshot fixed point; the load form (make-load-form) of every object of the session "
                            "(values of variables, functions, macro, flavors, instance, classes, generic functions, package and its function: World.tla Objs) pretty-printed under right margins 20 / 28 / 40 / 56 / 80 / 120 and "
                            "evaluated in a third fresh process per distinct text, same probes compared; judged by WorldTrace.tla",
                    "samples": [objs[0], sessions[-1]["items"]], "gen": gens, "probes": {k: len(v) for k, v in hit.items()}})
    return rep.finish()
