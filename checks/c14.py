"""C14 - sequence functions honour their keyword arguments on lists, vectors and strings (find/position/count/remove/substitute family)."""
import json, os, re, shutil, tempfile

from lib import common, pipeline

PROP = "C14"
SPEC = os.path.join(common.VERIF, "spec", "SeqFuns")
CH = "abcdefghij"


def shown(kind, v):
    parts = [CH[x] if kind == "string" else str(x) for x in v]
    if kind == "list":
        return "(" + " ".join(parts) + ")" if parts else "nil"
    if kind == "vector":
        return "#(" + " ".join(parts) + ")"
    return '"' + "".join(parts) + '"'


def elem(kind, x):
    if x < 0:
        return "nil"
    return "#\\" + CH[x] if kind == "string" else str(x)


def features(c):
    f = set()
    if c["cnt"] >= 0:
        f.add("substitute-with-count")
    return f


def run(tier, seed):
    rep = common.Report(PROP, tier, seed)
    vdrive = common.build_harness()
    d = tempfile.mkdtemp(prefix="spec-c14-", dir=common.scratch())
    for f in os.listdir(SPEC):
        shutil.copy(os.path.join(SPEC, f), d)
    maxlen = 3 if tier == "quick" else 4
    open(os.path.join(d, "SeqFuns.cfg"), "w").write(re.sub(r"MaxLen = \d+", f"MaxLen = {maxlen}", open(os.path.join(SPEC, "SeqFuns.cfg")).read()))
    r = common.run_tlc_with_files(d, "SeqFuns", "SeqFuns.cfg", {}, timeout=1500)
    if r["errors"]:
        raise common.Infra("SeqFuns: " + "; ".join(r["errors"][:3]))
    cases = []
    for row in common.emitted(r["out"]):
        row["id"] = len(cases) + 1
        cases.append(row)
    open_feats = {f["feature"]: f for f in common.load_findings(PROP) if f.get("status") == "open"}
    events = pipeline.drive(vdrive, "c14", [{k: c[k] for k in ("id", "s", "item", "st", "en", "fe", "cnt", "key", "test")} for c in cases], chunk=2000)
    by_t = {e["t"]: e for e in events}
    hit, calls = {}, 0
    for c in cases:
        for kind, got in by_t[c["id"]]["res"].items():
            want = {"find": elem(kind, c["find"]), "position": "nil" if c["position"] < 0 else str(c["position"]),
                    "count": str(c["count"]), "remove": shown(kind, c["remove"]), "substitute": shown(kind, c["substitute"])}
            for fn, w in want.items():
                calls += 1
                if got[fn] == w:
                    continue
                feats = features(c) if fn == "substitute" else set()
                known = [f for f in feats if f in open_feats]
                if known:
                    for f in known:
                        hit.setdefault(f, []).append(c["id"])
                else:
                    rep.violation({"property": PROP, "case": c, "kind": kind, "function": fn, "got": got[fn], "want": w, "keywords": got["kw"]},
                                  f"({fn} ... {shown(kind, c['s'])}{got['kw']}) => {got[fn]}, want {w}")
    for feat, f in open_feats.items():
        if feat in hit:
            rep.known.append(f["summary"] + f" ({len(hit[feat])} calls)")
    rep.cov.update({"states": r["generated"], "transitions": len(cases), "traces_validated_against_impl": calls, "evaluations": calls,
                    "distinct_nontrivial": len(cases), "exhaustive": True,
                    "rule": f"every sequence of length 0..{maxlen} over 3 elements x every in-range :start/:end x :from-end x :count in "
                            "{none,0,1,2} x :key in {none,1+} x :test in {eql,<}; five functions on lists, vectors and strings; expected "
                            "results computed by TLC from the transcribed definitions",
                    "samples": cases[:: max(1, len(cases) // 3)][:3], "probes": {k: len(v) for k, v in hit.items()}})
    return rep.finish()
