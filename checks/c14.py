"""C14 - sequence functions honour their keyword arguments on lists, vectors and strings."""
import json, os

from lib import common, gen, pipeline

PROP = "C14"
SPEC = os.path.join(common.VERIF, "spec", "SeqFuns")


TWO = ("search", "mismatch", "replace", "concatenate", "map+", "append", "union", "intersection", "set-difference", "subsetp", "merge")


DESTRUCTIVE = ("delete", "delete-if", "delete-if-not", "nreverse", "fill", "replace", "sort", "stable-sort", "merge")


def norm(v, kind_t):
    """Projected slip value -> python value of the row's result type (or ('?', v) when it has another shape)."""
    k = v.get("k")
    if kind_t in ("seq", "sorted", "set"):
        if k == "nil":
            r = []
        elif k in ("list", "vec"):
            r = []
            for e in v["v"]:
                if e.get("k") == "int":
                    r.append(e["v"])
                elif e.get("k") == "chr":
                    r.append(e["v"] - 98)
                else:
                    return ("?", v)
        elif k == "str":
            r = [c - 98 for c in v["v"]]
        else:
            return ("?", v)
        return sorted(set(r)) if kind_t == "set" else r
    if kind_t == "elem" or kind_t == "int":
        if k == "nil":
            return None
        if k == "int":
            return v["v"]
        if k == "chr":
            return v["v"] - 98
        return ("?", v)
    if kind_t == "bool":
        return k != "nil"
    return ("?", v)


def expected(row):
    t, v = row["t"], row["v"]
    if t in ("seq", "sorted"):
        return list(v)
    if t == "set":
        return sorted(set(v))
    if t in ("elem", "int"):
        return None if v["none"] else v["v"]
    return bool(v)


def known_shape(row, kind, cell, got, want):
    """Open finding whose recorded shape this mismatch has, or None (everything else is a violation)."""
    fn, kw = row["fn"], row["kw"]
    # :test-not: rejected as an unknown keyword, or (substitute) accepted and ignored
    if kw["test"] in ("neql", "nlt") and (("keyword must be" in cell.get("msg", "") and cell["st"] == "type-error") or (fn == "substitute" and not cell["st"])):
        return "test-not-unsupported"
    if fn.endswith("-if-not") and cell["st"] == "undefined-function":
        return "if-not-variants-missing"
    if cell["st"] and (len(row["a"]) == 0 or (fn in TWO and len(row["b"]) == 0)):
        return "empty-sequence-rejected"
    if fn == "fill" and cell["st"] == "error" and (kw["en"] == len(row["a"]) or kw["st"] == len(row["a"])):
        return "fill-bounds-off-by-one"
    if fn == "search" and not cell["st"]:
        st1 = max(kw["st"], 0)
        en1 = len(row["a"]) if kw["en"] < 0 else kw["en"]
        if en1 - st1 == 0:
            return "search-empty-pattern"
    if fn.startswith("substitute") and kw["cnt"] >= 0 and not cell["st"]:
        return "substitute-with-count"
    # mismatch :from-end: exactly the result of the named deviation of the specification
    if fn == "mismatch" and kw["fe"] and not cell["st"] and "dev" in row and got == (None if row["dev"]["none"] else row["dev"]["v"]):
        return "mismatch-from-end-index"
    return None


def run(tier, seed):
    rep = common.Report(PROP, tier, seed)
    vdrive = common.build_harness()
    quick = tier == "quick"
    rows, g = gen.bfs(SPEC, "SeqFuns", "SeqFuns.cfg", {"MaxLen": 3 if quick else 4, "NLong": 60 if quick else 1500,
                                                        "LongLen": 9 if quick else 12}, timeout=3000)
    for i, r in enumerate(rows):
        r["id"] = i + 1
    open_feats = {f["feature"]: f for f in common.load_findings(PROP) if f.get("status") == "open"}
    events = pipeline.drive(vdrive, "c14", [{k: r[k] for k in ("id", "fn", "a", "b", "item", "kw")} for r in rows], chunk=4000)
    by_t = {e["t"]: e for e in events}
    hit, calls, fns = {}, 0, set()
    for row in rows:
        want = expected(row)
        fns.add(row["fn"])
        for kind, cell in by_t[row["id"]]["res"].items():
            calls += 1
            why = ""
            got = None
            if cell.get("fault"):
                why = f"internal fault {cell['st']}"
            elif cell["st"]:
                why = f"signalled {cell['st']}"
            else:
                got = norm(cell["v"], row["t"])
                if row["t"] == "sorted":
                    key = [x // 10 for x in got] if isinstance(got, list) else None
                    if not isinstance(got, list) or sorted(got) != sorted(row["a"]) or key != sorted(key):
                        why = f"=> {got}, want a permutation of the input ordered by the key"
                elif got != want:
                    why = f"=> {got}, want {want}"
                # a function that is not destructive leaves its arguments as they were
                if not why and row["fn"] not in DESTRUCTIVE and row["fn"] not in ("assoc", "rassoc"):
                    for name, orig in (("a", row["a"]), ("b", row["b"])):
                        after = norm(cell[name], "seq")
                        if after != list(orig):
                            why = f"changed its {'first' if name == 'a' else 'second'} sequence argument {list(orig)} into {after}"
                            got = ("argument", name)
            # entered again from inside its own predicate (another sequence, other bounds) the outer call returns the same
            if not why and "re" in cell and cell["re"] != cell["v"]:
                why = f"=> {norm(cell['re'], row['t']) if cell['re'].get('k') != 'error' else cell['re']} when the same form is entered again from its predicate, {got} otherwise"
            if not why:
                continue
            feat = known_shape(row, kind, cell, got, want)
            if feat in open_feats:
                hit.setdefault(feat, []).append(row["id"])
            else:
                rep.violation({"property": PROP, "row": row, "kind": kind, "call": cell["src"], "observed": cell, "want": want},
                              f"{cell['src']} {why}")
    for feat, f in open_feats.items():
        if feat in hit:
            rep.known.append(f["summary"] + f" ({len(hit[feat])} calls)")
    rep.cov.update({"states": g["generated"], "transitions": len(rows), "traces_validated_against_impl": calls, "evaluations": calls,
                    "distinct_nontrivial": len(rows), "exhaustive": True,
                    "rule": f"{len(fns)} functions; every sequence of length 0..{3 if quick else 4} over 4 elements x every in-range :start/:end "
                            "(incl. absent) x :from-end x :count x :key x :test combination the function takes, rendered as list, vector and "
                            "string; two-sequence functions over a two-letter alphabet with all four bounds; sorting family additionally on "
                            "random sequences up to length 9/12 with ties; expected results computed by TLC from the transcribed definitions "
                            "(SeqFuns.tla, whose own laws TLC checks as an invariant); every fifth call of an -if / -if-not function with bounds is made once more from a function whose predicate enters the same form again (another sequence, other bounds) and must return the same; distinct_nontrivial = distinct parameter rows",
                    "samples": [{k: r[k] for k in ("fn", "a", "b", "item", "kw", "t", "v")} for r in rows[:: max(1, len(rows) // 3)][:3]],
                    "functions": sorted(fns), "probes": {k: len(v) for k, v in hit.items()}})
    return rep.finish()
