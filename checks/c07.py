"""C07 - non-local exits reach their target and run every cleanup exactly once (Core machine with the control profile)."""
from checks import c01

PROP = "C07"


def run(tier, seed):
    return c01.run(tier, seed, prop=PROP, profile="ctl")


def replay(path):
    return c01.replay(path, prop=PROP)
