"""C12 - CLOS classes: precedence, slots and initialisation are order-independent."""
import json, os, re, shutil, tempfile

from lib import common, pipeline

PROP = "C12"
SPEC = os.path.join(common.VERIF, "spec", "Clos")
IDX = {"ca": 1, "cb": 2, "cc": 3, "cd": 4, "ce": 5}
REPEAT = 3   # the implementation iterates Go maps when it re-merges classes


def gen(max_ops):
    d = tempfile.mkdtemp(prefix="spec-c12-", dir=common.scratch())
    for f in os.listdir(SPEC):
        shutil.copy(os.path.join(SPEC, f), d)
    cfg = re.sub(r"MaxOps = \d+", f"MaxOps = {max_ops}", open(os.path.join(SPEC, "Clos.cfg")).read())
    open(os.path.join(d, "Clos.cfg"), "w").write(cfg)
    r = common.run_tlc_with_files(d, "Clos", "Clos.cfg", {}, timeout=1500)
    if r["errors"]:
        raise common.Infra("Clos: " + "; ".join(r["errors"][:3]))
    stimuli = []
    for row in common.emitted(r["out"]):
        stimuli.append({"id": len(stimuli) + 1, "ops": row["hist"], "classes": sorted(row["expect"].keys()),
                        "expect": row["expect"], "feat": sorted(row["feat"])})
    return stimuli, r


def judge(stim, ev):
    for c, ex in stim["expect"].items():
        ob = ev["obs"].get(c)
        if ob is None:
            return f"{c}: not observed"
        if not ex["ready"]:
            # a class with an undefined superclass must not produce instances
            if not ob["slot"].startswith("error:"):
                return f"{c}: instance made although a superclass is undefined"
            continue
        if not ob["ready"] or ob["prec"] != ex["prec"]:
            return f"{c}: precedence {ob['prec']} want {ex['prec']}"
        want = {"noslot": "error", "unbound": "unbound"}.get(ex["slot"], str(IDX.get(ex["slot"], "?")))
        got = "error" if ob["slot"].startswith("error:") else ob["slot"]
        if got != want:
            return f"{c}: slot of a fresh instance is {ob['slot']} want {want}"
        wantarg = "77" if ex["hasslot"] else "error"
        gotarg = "error" if ob["slotarg"].startswith("error:") else ob["slotarg"]
        if gotarg != wantarg:
            return f"{c}: slot with :s 77 is {ob['slotarg']} want {wantarg}"
    return ""


def run(tier, seed):
    rep = common.Report(PROP, tier, seed)
    max_ops = int(os.environ.get("VERIF_DEPTH", 4 if tier == "quick" else 5))
    vdrive = common.build_harness()
    stimuli, g = gen(max_ops)
    rep.cov["states"], rep.cov["transitions"] = g["distinct"], g["generated"]
    open_feats = {f["feature"]: f for f in common.load_findings(PROP) if f.get("status") == "open"}
    hit, judged = {}, 0
    bad_ids = {}
    for rnd in range(REPEAT):
        events = pipeline.drive(vdrive, "c12", [{k: s[k] for k in ("id", "ops", "classes")} for s in stimuli], chunk=300)
        by_t = {e["t"]: e for e in events}
        for s in stimuli:
            judged += 1
            why = judge(s, by_t[s["id"]])
            if why and s["id"] not in bad_ids:
                bad_ids[s["id"]] = (why, by_t[s["id"]], rnd)
    by_id = {s["id"]: s for s in stimuli}
    for sid, (why, ev, rnd) in bad_ids.items():
        s = by_id[sid]
        known = [f for f in s["feat"] if f in open_feats]
        if known:
            for f in known:
                hit.setdefault(f, []).append(sid)
        else:
            rep.violation({"property": PROP, "stimulus": s, "observed": ev, "reason": why, "run": rnd},
                          f"{json.dumps(s['ops'])}: {why}")
    for feat, f in open_feats.items():
        if feat in hit:
            rep.known.append(f["summary"] + f" ({len(hit[feat])} probes rejected)")
    rep.cov.update({"traces_validated_against_impl": judged, "evaluations": judged, "distinct_nontrivial": g["distinct"],
                    "exhaustive": True,
                    "rule": f"one history of defclass forms (forward references, redefinition) per transition of Clos (3 classes, "
                            f"<=2 supers, one slot without/with initform, <={max_ops} forms), each executed {REPEAT} times",
                    "samples": [{"stimulus": s["ops"], "expect": s["expect"]} for s in stimuli[:: max(1, len(stimuli) // 4)][:4]],
                    "probes": {k: len(v) for k, v in hit.items()}})
    return rep.finish()
