"""C12 - CLOS classes: precedence, slots and initialisation are order-independent."""
import json, os

from lib import common, gen, pipeline

PROP = "C12"
SPEC = os.path.join(common.VERIF, "spec", "Clos")


def to_stim(rows):
    return [{"ops": r["hist"], "classes": sorted(r["expect"].keys()), "expect": r["expect"], "feat": sorted(r["feat"])} for r in rows]


def _ints(x):
    return x if isinstance(x, str) else [e.get("v") for e in x]


SHARED = "initarg-shared-by-two-slots"
LOSTMETH = "message-methods-lost-at-redefinition"


def judge(stim, ev):
    """Returns (reason, known): reason = first mismatch that no open finding explains ('' if none);
    known = set of finding features whose recorded mismatch was observed (the rest of the observation
    is still judged)."""
    known = set()
    for i, st in enumerate(ev["defs"]):
        if st and stim["ops"][i]["op"] in ("defclass", "defmeth"):
            return f"{stim['ops'][i]['op']} {i + 1} failed: {st}", known
    for c, ex in stim["expect"].items():
        ob = ev["obs"].get(c)
        if ob is None:
            return f"{c}: not observed", known
        plain, arg = _ints(ob["plain"]), _ints(ob["arg"])
        if not ex["ready"]:
            # a class with an undefined superclass must not produce instances
            if not isinstance(plain, str):
                return f"{c}: instance made although a superclass is undefined", known
            continue
        if not ob["ready"] or ob["prec"] != ex["prec"]:
            return f"{c}: precedence {ob['prec']} want {ex['prec']}", known
        if plain != [ex["s0"], ex["u0"]]:
            return f"{c}: slots (s u) of a fresh instance are {plain} want {[ex['s0'], ex['u0']]} (0 no slot, -1 unbound)", known
        if ex["acc"]:
            if arg != [ex["s1"], ex["u1"]]:
                # finding C12-F2: an initarg accepted by two slots fills only one of them; exactly that shape is
                # tolerated for classes where both s and u accept :s: one of the two got 77, the other kept its
                # value from the plain instance
                if ex["shared"] and isinstance(arg, list) and sorted([arg[0] == 77, arg[1] == 77]) == [False, True] and \
                        (arg[0] == plain[0] or arg[1] == plain[1]):
                    known.add(SHARED)
                else:
                    return f"{c}: slots (s u) with :s 77 are {arg} want {[ex['s1'], ex['u1']]}", known
            elif ex["s1"] == 77 and ob["reader"] != "77":
                return f"{c}: reader of s answers {ob['reader']} want 77", known
        # the method that answers: of the first class of the precedence list that has one (message and generic function)
        for key in ("who", "whog"):
            if key == "who" and ob[key] != ex["who"] and ob[key] == ex["whodev"]:
                known.add(LOSTMETH)      # finding C12-F3: exactly the answer the named deviation (Clos!lost) gives
                continue
            if ob[key] != ex["who"]:
                return f"{c}: {'(send i :who)' if key == 'who' else 'the generic function'} is answered by the method of {ob[key]} want {ex['who']}", known
        if ob["classof"] != c:
            return f"{c}: class-of a fresh instance is {ob['classof']}", known
        if sorted(ob["isa"]) != sorted(ex["isa"]):
            return f"{c}: typep holds for {sorted(ob['isa'])} want {sorted(ex['isa'])}", known
    return "", known


def run(tier, seed):
    rep = common.Report(PROP, tier, seed)
    quick = tier == "quick"
    depth = int(os.environ.get("VERIF_DEPTH", 3 if quick else 4))
    walks = int(os.environ.get("VERIF_WALKS", 150 if quick else 1500))
    repeat = 2 if quick else 3      # the implementation iterates Go maps when it re-merges classes
    vdrive = common.build_harness()
    # (the deepest level of the thorough tier without methods: with them the graph of depth 4 has millions of transitions; the
    #  histories with methods are those of depth 3, of the two-class world and of the fixed shapes)
    rows, g = gen.bfs(SPEC, "Clos", "Clos.cfg", {"MaxOps": depth, "WithMeth": "TRUE" if quick else "FALSE"}, timeout=3000)
    stimuli = to_stim(rows)
    if not quick:
        rows, _g = gen.bfs(SPEC, "Clos", "Clos.cfg", {"MaxOps": depth - 1}, timeout=3000)
        have = {json.dumps(st["ops"], sort_keys=True) for st in stimuli}
        stimuli += [st for st in to_stim(rows) if json.dumps(st["ops"], sort_keys=True) not in have]
    # the complete state graph of the two-class world (every transition, no depth bound in effect)
    rows, g0 = gen.bfs(SPEC, "Clos", "Clos.cfg", {"MaxOps": 9, "NC": 2}, timeout=3000)
    stimuli += to_stim(rows)
    # order independence on fixed shapes: the chain ca <- cb <- cc and the diamond cd (cb cc), classes and methods in every order
    rows, gc = gen.bfs(SPEC, "Clos", "ClosChain.cfg", {}, timeout=3000)
    stimuli += to_stim(rows)
    rows, gd = gen.bfs(SPEC, "Clos", "ClosChain.cfg", {"NC": 4, "MaxOps": 8 if quick else 9}, timeout=3000)
    stimuli += to_stim(rows)
    n_bfs = len(stimuli)
    rows, g2 = gen.sim(SPEC, "Clos", "ClosSim.cfg", {}, num=walks, depth=14, seed=seed, timeout=3000)
    stimuli += to_stim(rows)
    for i, s in enumerate(stimuli):
        s["id"] = i + 1
    open_feats = {f["feature"]: f for f in common.load_findings(PROP) if f.get("status") == "open"}
    hit, judged, bad = {}, 0, {}
    for rnd in range(repeat):
        events = pipeline.drive(vdrive, "c12", [{k: s[k] for k in ("id", "ops", "classes")} for s in stimuli], chunk=300)
        by_t = {e["t"]: e for e in events}
        for s in stimuli:
            judged += 1
            why, known = judge(s, by_t[s["id"]])
            for k in known:
                hit.setdefault(k, set()).add(s["id"])
            if why and s["id"] not in bad:
                bad[s["id"]] = (why, by_t[s["id"]], rnd)
    by_id = {s["id"]: s for s in stimuli}
    for sid, (why, ev, rnd) in bad.items():
        s = by_id[sid]
        rep.violation({"property": PROP, "stimulus": s, "observed": ev, "reason": why, "run": rnd},
                      f"{json.dumps([[o['op'], o['c'], o['supers'], o['cfg']] for o in s['ops']])}: {why}")
    for feat in sorted(hit):
        if feat in open_feats:
            rep.known.append(open_feats[feat]["summary"] + f" ({len(hit[feat])} histories)")
        else:   # the recorded shape was observed but the finding is not (or no longer) listed as open
            sid = sorted(hit[feat])[0]
            rep.violation({"property": PROP, "stimulus": by_id[sid], "reason": feat}, f"{feat}: observed but not listed as an open finding")
    shapes = {json.dumps(s["expect"], sort_keys=True) for s in stimuli}
    rep.cov.update({"states": g["distinct"] + g0["distinct"], "transitions": g["generated"] + g0["generated"], "traces_validated_against_impl": judged,
                    "evaluations": judged, "distinct_nontrivial": len(shapes), "exhaustive": True,
                    "rule": f"(a) one history of defclass forms (forward references, redefinition, 6 slot configurations) and make-instance "
                            f"steps per transition of Clos.tla (3 classes, <=2 supers, <={depth} steps; VIEW = definitions + set of classes "
                            f"already instantiated) - exhaustive, and every transition of the complete state graph for 2 classes; (b) a 1-in-8 sample of the successors of the final states of {walks} random walks "
                            f"(5 classes, 10 steps). Each history is executed {repeat} times (the implementation iterates Go maps); for every "
                            "defined class precedence list, slots of fresh instances without / with :s 77, reader, class-of and typep against "
                            "every class are compared with the values TLC computed. distinct_nontrivial = distinct expected observations",
                    "samples": [{"stimulus": s["ops"], "expect": s["expect"]} for s in (stimuli[n_bfs // 2], stimuli[-1])],
                    "gen": [g, g0, gc, gd, g2], "probes": {k: len(v) for k, v in hit.items()}})
    rep.assumptions = ["class names are immaterial (first mention in the order ca, cb, ...)",
                       "when :s is not an initarg of any slot the outcome of passing it is not constrained",
                       "a redefinition that introduces a not-yet-defined superclass is outside the statement and not generated"]
    return rep.finish()


def replay(path):
    payload = json.load(open(path))
    vdrive = common.build_harness()
    s = payload["stimulus"]
    ev = pipeline.drive(vdrive, "c12", [{k: s[k] for k in ("id", "ops", "classes")}])[0]
    why, _ = judge(s, ev)
    print(json.dumps(ev))
    if why:
        print(f"VIOLATION property={PROP} replay={path}\n  {why}")
        return 1
    print("accepted")
    return 0
