"""C06 - lists keep value semantics although they are stored as shared slices."""
import json, os, random

from lib import common, pipeline

PROP = "C06"
SPEC = os.path.join(common.VERIF, "spec", "ListHeap")
VARS = ["lx", "ly", "lz"]
OPS = ["copy-list", "subseq", "reverse", "butlast", "append", "append0", "append3", "remove", "remove-if", "mapcar", "cons", "cdr",
       "rest", "rest0", "nthcdr", "last", "member", "push", "pop", "setcar", "setnth", "setelt", "rplaca", "rplacd", "nconc",
       "nreverse", "sort", "delete", "add", "list", "alias",
       "remove-fe", "delete-fe", "remove-cnt", "remove-fecnt", "substitute", "remove-dup", "union", "set-difference", "reduce-key",
       "mvlist", "addf", "liststar", "liststar0", "subst", "copy-tree", "maprest"]
MODES = ["exact", "spare", "tail", "butlast", "appended"]
NEEDS_ELEM = ("setcar", "rplaca", "setnth", "setelt", "rplacd", "subseq", "mapcar")


def _mirror(ln, op):
    """Upper bound of the length of every variable after op (keeps generated indices in range; the
    verdict never depends on it: the acceptor recomputes everything from the observations)."""
    o, s = op["op"], ln[op["src"]]
    d = op["dst"]
    if o in ("copy-list", "reverse", "nreverse", "mapcar", "alias", "sort", "rest0", "mvlist", "copy-tree", "subst", "liststar0"):
        ln[d] = s
    elif o == "liststar":
        ln[d] = s + 1
    elif o == "addf":
        ln[op["src"]] = s + 1
    elif o == "maprest":
        ln[d] = 2 * min(s, ln[op["src2"]])
    elif o == "subseq":
        ln[d] = op["k"]
    elif o in ("butlast", "cdr", "rest"):
        ln[d] = max(0, s - 1)
    elif o in ("append", "nconc"):
        ln[d] = s + ln[op["src2"]]
    elif o == "append3":
        ln[d] = s + ln[op["src2"]] + 1
    elif o in ("cons", "append0", "add"):
        ln[d] = s + 1
    elif o == "nthcdr":
        ln[d] = max(0, s - op["k"])
    elif o == "last":
        ln[d] = min(1, s)
    elif o == "reduce-key":
        ln[d] = 1
    elif o in ("remove", "delete", "member", "remove-if", "remove-fe", "delete-fe", "remove-cnt", "remove-fecnt", "substitute", "remove-dup", "union", "set-difference"):
        ln[d] = 0       # unknown: be conservative, no setter will target it until reassigned
    elif o == "list":
        ln[d] = 2
    elif o == "rplacd":
        ln[d] = 0
        ln[op["src"]] = min(ln[op["src"]], 1)
    elif o == "push":
        ln[op["src"]] = s + 1
    elif o == "pop":
        ln[op["src"]] = max(0, s - 1)
    if o in ("nconc", "add", "delete", "sort", "nreverse"):
        # lists that may share with the argument are of unknown length now
        pass


def _fit(rng, ln, op):
    """Make op applicable under the length mirror, or return None."""
    s = ln[op["src"]]
    o = op["op"]
    if o in NEEDS_ELEM and s == 0:
        return None             # (subseq nil ..) / (mapcar f nil) are rejected by slip: C14's business
    if o in ("setnth", "setelt"):
        op["k"] = rng.randrange(s)
    if o == "subseq":
        op["k"] = rng.randint(0, s)
    if o in ("push", "pop", "addf"):
        op["dst"] = op["src"]
    return op


def histories(rng, n, steps, exclude):
    """Seeded-random histories over three variables with varied initial construction."""
    out = []
    ops = [o for o in OPS if o not in exclude]
    for t in range(1, n + 1):
        init = {v: [rng.randint(1, 4) for _ in range(rng.randint(0, 3))] for v in VARS}
        mode = {v: rng.choice(MODES) for v in VARS}
        ln = {v: len(init[v]) for v in VARS}
        seq = []
        for _ in range(steps):
            op = {"op": rng.choice(ops), "dst": rng.choice(VARS), "src": rng.choice(VARS), "src2": rng.choice(VARS),
                  "a": rng.randint(1, 4), "k": rng.randint(0, 2)}
            if _fit(rng, ln, op) is None:
                continue
            seq.append(op)
            _mirror(ln, op)
        out.append({"id": t, "init": init, "mode": mode, "ops": seq})
    return out


def pairs(rng, first_id, exclude):
    """Every operation followed by every operation, on every construction mode of the list they work on:
    op1 derives ly from lx, op2 works on lx, ly or both; all three variables are observed after each."""
    out = []
    ops = [o for o in OPS if o not in exclude]
    for mode in MODES:
        for o1 in ops:
            for o2 in ops:
                for (d2, s2, t2) in (("lz", "lx", "ly"), ("lz", "ly", "lx"), ("ly", "ly", "lx"), ("lx", "lx", "ly")):
                    init = {"lx": [1, 2, 3], "ly": [4], "lz": [2, 1]}
                    ln = {v: len(init[v]) for v in VARS}
                    a = {"op": o1, "dst": "ly", "src": "lx", "src2": "lz", "a": 5, "k": 1}
                    if _fit(rng, ln, a) is None:
                        continue
                    _mirror(ln, a)
                    b = {"op": o2, "dst": d2, "src": s2, "src2": t2, "a": 6, "k": 0}
                    if _fit(rng, ln, b) is None:
                        continue
                    out.append({"id": first_id + len(out), "init": init, "mode": {"lx": mode, "ly": "exact", "lz": "exact"},
                                "ops": [a, b]})
    return out


def run(tier, seed):
    rep = common.Report(PROP, tier, seed)
    vdrive = common.build_harness()
    rng = random.Random(seed)
    # (open findings that are listed for the record only, without an operation of the model, are not probed)
    findings = [f for f in common.load_findings(PROP) if f.get("status") == "open" and f["feature"].startswith("op:")]
    excluded = {f["feature"].split(":", 1)[1] for f in findings if f["feature"].startswith("op:")}
    n, steps = (15000, 8) if tier == "quick" else (150000, 10)
    main = histories(rng, n, steps, excluded)
    main += pairs(rng, len(main) + 1, excluded)
    n = len(main)
    probes = []
    for f in findings:
        for k, w in enumerate([f["witness"]] + [dict(h) for h in histories(random.Random(seed + 1), 200, 8, set()) if any(
                o["op"] == f["feature"].split(":", 1)[1] for o in h["ops"])][:40]):
            probes.append(dict(w, id=n + len(probes) + 1, finding=f["id"]))
    events = pipeline.drive(vdrive, "c06", main + [{k: p.get(k, {}) for k in ("id", "init", "mode", "ops")} for p in probes], chunk=500)
    res = pipeline.accept(SPEC, "ListHeapTrace", "ListHeapTrace.cfg", events)
    probe_of = {p["id"]: p["finding"] for p in probes}
    by_id = {s["id"]: s for s in main}
    hit = {}
    for b in res["bad"]:
        if b["t"] in probe_of:
            hit.setdefault(probe_of[b["t"]], []).append(b)
        elif b["kind"] in ("changed-by-failed-call",):
            continue
        else:
            rep.violation({"property": PROP, "stimulus": by_id[b["t"]], "rejected": b},
                          f"step {b['i']} {b['form']}: {b['kind']} ({b['var']})")
    for f in findings:
        if f["id"] in hit:
            rep.known.append(f["summary"] + f" ({len(hit[f['id']])} probes rejected)")
    rep.cov.update({"states": res["states"], "transitions": res["lines"], "traces_validated_against_impl": len(main) + len(probes),
                    "evaluations": res["checked"], "distinct_nontrivial": len({json.dumps(s["ops"]) for s in main}),
                    "rule": f"every ordered pair of the {len(OPS)} list operations x 4 argument patterns x 5 ways the list was built (exact, spare "
                            f"capacity, tail of a longer list, butlast, append result) + seeded-random histories of {steps} operations over 3 "
                            "variables; every variable observed after every operation and judged by the TLA+ acceptor ListHeapTrace "
                            "(value the language defines; frame condition: only lists that may share by the language rules may change); "
                            "distinct = distinct operation sequences",
                    "samples": [main[0], main[len(main) // 2]], "exhaustive": False,
                    "probes": {k: len(v) for k, v in hit.items()}})
    return rep.finish()
