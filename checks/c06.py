"""C06 - lists keep value semantics although they are stored as shared slices."""
import json, os, random

from lib import common, pipeline

PROP = "C06"
SPEC = os.path.join(common.VERIF, "spec", "ListHeap")
VARS = ["lx", "ly", "lz"]
OPS = ["copy-list", "subseq", "reverse", "butlast", "append", "remove", "mapcar", "cons", "cdr", "nthcdr", "last", "member",
       "setcar", "setnth", "rplaca", "nconc", "nreverse", "sort", "delete", "list", "alias"]


def histories(rng, n, steps, exclude):
    """Seeded-random histories; a light mirror of list lengths keeps indices in range.
    (The verdict never depends on this mirror: the acceptor recomputes everything.)"""
    out = []
    ops = [o for o in OPS if o not in exclude]
    for t in range(1, n + 1):
        init = {v: [rng.randint(1, 3) for _ in range(rng.randint(0, 3))] for v in VARS}
        ln = {v: len(init[v]) for v in VARS}
        seq = []
        for _ in range(steps):
            op = {"op": rng.choice(ops), "dst": rng.choice(VARS), "src": rng.choice(VARS), "src2": rng.choice(VARS),
                  "a": rng.randint(1, 3), "k": rng.randint(0, 2)}
            s = ln[op["src"]]
            o = op["op"]
            if o in ("setcar", "rplaca", "setnth") and s == 0:
                continue
            if o in ("subseq", "mapcar") and s == 0:
                continue            # (subseq nil ..) / (mapcar f nil) are rejected by slip: C14's business
            if o == "setnth":
                op["k"] = rng.randrange(s)
            if o == "subseq":
                op["k"] = rng.randint(0, s)
            seq.append(op)
            # length mirror (upper bounds are enough)
            if o in ("copy-list", "reverse", "nreverse", "mapcar", "alias", "sort"):
                ln[op["dst"]] = s
            elif o == "subseq":
                ln[op["dst"]] = op["k"]
            elif o == "butlast":
                ln[op["dst"]] = max(0, s - 1)
            elif o in ("append", "nconc"):
                ln[op["dst"]] = s + ln[op["src2"]]
            elif o == "cons":
                ln[op["dst"]] = s + 1
            elif o == "cdr":
                ln[op["dst"]] = max(0, s - 1)
            elif o == "nthcdr":
                ln[op["dst"]] = max(0, s - op["k"])
            elif o == "last":
                ln[op["dst"]] = min(1, s)
            elif o in ("remove", "delete", "member"):
                ln[op["dst"]] = 0       # unknown: be conservative, no setter will target it until reassigned
            elif o == "list":
                ln[op["dst"]] = 2
        out.append({"id": t, "init": init, "ops": seq})
    return out


def run(tier, seed):
    rep = common.Report(PROP, tier, seed)
    vdrive = common.build_harness()
    rng = random.Random(seed)
    findings = [f for f in common.load_findings(PROP) if f.get("status") == "open"]
    excluded = {f["feature"].split(":", 1)[1] for f in findings if f["feature"].startswith("op:")}
    n, steps = (3000, 8) if tier == "quick" else (60000, 10)
    main = histories(rng, n, steps, excluded)
    probes = []
    for f in findings:
        for k, w in enumerate([f["witness"]] + [h for h in histories(random.Random(seed + 1), 200, 8, set()) if any(
                o["op"] == f["feature"].split(":", 1)[1] for o in h["ops"])][:40]):
            probes.append(dict(w, id=n + len(probes) + 1, finding=f["id"]))
    events = pipeline.drive(vdrive, "c06", main + [{k: p[k] for k in ("id", "init", "ops")} for p in probes], chunk=500)
    res = pipeline.accept(SPEC, "ListHeapTrace", "ListHeapTrace.cfg", events)
    probe_of = {p["id"]: p["finding"] for p in probes}
    by_id = {s["id"]: s for s in main}
    hit = {}
    for b in res["bad"]:
        if b["t"] in probe_of:
            hit.setdefault(probe_of[b["t"]], []).append(b)
        elif b["kind"] in ("changed-by-failed-call",):
            continue
        else:
            rep.violation({"property": PROP, "stimulus": by_id[b["t"]], "rejected": b},
                          f"step {b['i']} {b['form']}: {b['kind']} ({b['var']})")
    for f in findings:
        if f["id"] in hit:
            rep.known.append(f["summary"] + f" ({len(hit[f['id']])} probes rejected)")
    rep.cov.update({"states": res["states"], "transitions": res["lines"], "traces_validated_against_impl": len(main) + len(probes),
                    "evaluations": res["checked"], "distinct_nontrivial": len({json.dumps(s["ops"]) for s in main}),
                    "rule": f"{n} seeded-random histories of {steps} operations over 21 list operations and 3 variables with aliasing; "
                            "every live variable observed after every operation; distinct = distinct operation sequences",
                    "samples": [main[0], main[len(main) // 2]], "exhaustive": False,
                    "probes": {k: len(v) for k, v in hit.items()}})
    return rep.finish()
