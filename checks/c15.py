"""C15 - format renders every directive as documented, for all parameters and arguments."""
import json, os, subprocess
from concurrent.futures import ThreadPoolExecutor

from lib import common, gen

PROP = "C15"
SPEC = os.path.join(common.VERIF, "spec", "Format")
FAMILIES = ["int", "radix", "as", "eng", "roman", "misc", "block"]


def directives(ctl):
    """The directive characters of a control string, with their modifiers (for grouping mismatches)."""
    out, i = [], 0
    while i < len(ctl):
        if ctl[i] != "~":
            i += 1
            continue
        i += 1
        params = False
        while i < len(ctl) and (ctl[i].isdigit() or ctl[i] in ",vV#+-" or ctl[i] == "'"):
            params = True
            i += 2 if ctl[i] == "'" else 1
        mods = ""
        while i < len(ctl) and ctl[i] in ":@":
            mods += ctl[i]
            i += 1
        if i < len(ctl):
            out.append((ctl[i].lower(), "".join(sorted(set(mods))), params))
        i += 1
    return out


def known_shape(case, ev, b, findings):
    """Open finding whose recorded shape this rejected call has, or None (everything else is a violation)."""
    for f in findings:
        sh = f.get("shape")
        if not sh:
            continue
        if sh.get("kinds") and not set(b["residual"]) <= set(sh["kinds"]):
            continue
        ds = directives(case["ctl"])
        for a in case["args"]:           # control strings passed as arguments (~?)
            if a["k"] == "str" and "~" in a["v"]:
                ds += directives("".join(a["v"]))
        if "directive" in sh:
            want = sh["directive"]
            if not any(d[0] == want["ch"] and ("mods" not in want or d[1] == want["mods"]) and ("params" not in want or d[2] == want["params"])
                       for d in ds):
                continue
        if "only_directives" in sh and not all(d[0] in sh["only_directives"] for d in ds):
            continue
        if "got_status" in sh and ev["sts"][0] != sh["got_status"]:
            continue
        if "msg_contains" in sh and sh["msg_contains"] not in (ev["msgs"][0] or ""):
            continue
        if "arg_kind" in sh and not any(a["k"] == sh["arg_kind"] for a in case["args"]):
            continue
        return f["feature"]
    return None


def run(tier, seed):
    rep = common.Report(PROP, tier, seed)
    vdrive = common.build_harness()
    quick = tier == "quick"
    level = 1 if quick else 2
    gens, cases = [], []

    def grid(fam):
        return gen.bfs(SPEC, "FormatGen", "FormatGen.cfg", {"Level": level, "Family": f'"{fam}"'}, timeout=3000)

    with ThreadPoolExecutor(max_workers=len(FAMILIES)) as ex:
        for fam, (rows, g) in zip(FAMILIES, ex.map(grid, FAMILIES)):
            g["family"] = fam
            gens.append(g)
            for r in rows:
                r["family"] = fam
                cases.append(r)
    n_grid = len(cases)
    walks = 400 if quick else 6000
    shards = 4 if quick else 12

    def compose(k):
        return gen.sim(SPEC, "FormatGen", "FormatGenSim.cfg", {"Level": level}, num=walks // shards, depth=5, seed=seed * 100 + k, timeout=3000)

    with ThreadPoolExecutor(max_workers=shards) as ex:
        for rows, g in ex.map(compose, range(shards)):
            gens.append(g)
            for r in rows:
                r["family"] = "composition"
                cases.append(r)
    seen, uniq = set(), []
    for c in cases:
        key = json.dumps([c["ctl"], c["args"]], sort_keys=True)
        if key not in seen:
            seen.add(key)
            c["id"] = len(uniq) + 1
            uniq.append(c)
    cases = uniq
    by_id = {c["id"]: c for c in cases}
    size = max(200, (len(cases) + common.CORES * 2 - 1) // (common.CORES * 2))
    chunks = [cases[i:i + size] for i in range(0, len(cases), size)]

    findings = [f for f in common.load_findings(PROP) if f.get("status") == "open"]
    # deviations of the implementation that Format.tla models by name (open findings with a "deviation" field)
    devs = [{"name": f["deviation"]} for f in findings if f.get("deviation")] + [{"name": "none"}]

    def one(ch):
        evs, todo = {}, list(ch)
        while todo:       # the driver stops after a call that hangs; it is restarted with the cases after that one
            inp = "\n".join(json.dumps({k: c[k] for k in ("id", "ctl", "args")}, separators=(",", ":")) for c in todo) + "\n"
            p = subprocess.run([vdrive, "c15"], input=inp.encode(), capture_output=True, cwd=common.scratch(), timeout=1800)
            if p.returncode != 0:
                raise common.Infra(f"vdrive c15 exited {p.returncode}: {p.stderr.decode(errors='replace')[-2000:]}")
            got = 0
            for l in p.stdout.decode().split("\n"):
                if l.strip():
                    e = json.loads(l)
                    evs[e["id"]] = e
                    got += 1
            if got == 0:
                raise common.Infra("vdrive c15 answered nothing")
            todo = todo[got:]
        if len(evs) != len(ch):
            raise common.Infra(f"vdrive c15 answered {len(evs)} of {len(ch)} calls")
        merged = [dict(id=c["id"], ctl=c["ctl"], args=c["args"], outs=evs[c["id"]]["outs"], sts=evs[c["id"]]["sts"],
                       princ=evs[c["id"]]["princ"], prin1=evs[c["id"]]["prin1"], agree=evs[c["id"]].get("agree", [])) for c in ch]
        r = common.run_tlc_with_files(SPEC, "FormatTrace", "FormatTrace.cfg", {"traces.ndjson": merged, "deviations.ndjson": devs}, timeout=3000, heap="3g")
        found = list(common.emitted(r["out"], prefix="RESULT"))
        if not found:
            raise common.Infra(f"acceptor FormatTrace produced no RESULT ({r['errors'][:2]}) {common._tail(r['out'], 1500)}")
        res = found[-1]
        res["states"] = r["generated"]
        res["events"] = evs
        return res

    bad, checked, opened, states, events = [], 0, 0, 0, {}
    with ThreadPoolExecutor(max_workers=common.CORES) as ex:
        for res in ex.map(one, chunks):
            bad += res["bad"]
            checked += res["checked"]
            opened += res["open"]
            states += res["states"]
            events.update(res["events"])
    hit = {}
    judged = {b["id"] for b in bad}
    for i, ev in events.items():      # a call that never returns is a violation whatever the definition says about its text
        if "hang" in ev["sts"] and i not in judged:
            bad.append({"id": i, "kinds": ["hang"], "residual": ["hang"], "st": "?", "want": "", "why": "format did not return"})
    for b in bad:
        case, ev = by_id[b["id"]], events[b["id"]]
        feat = "modelled-deviations" if not b["residual"] else known_shape(case, ev, b, findings)
        if feat:
            hit.setdefault(feat, []).append(b["id"])
            continue
        got = ev["outs"][0] if ev["sts"][0] == "ok" else "signals " + (ev["msgs"][0] or "")
        rep.violation({"property": PROP, "case": {k: case[k] for k in ("ctl", "args", "family")}, "kinds": b["kinds"], "expected_status": b["st"],
                       "expected_text": b["want"], "why": b["why"], "event": ev},
                      f"(format nil {json.dumps(case['ctl'])} ...{len(case['args'])} args) [{case['family']}] {'/'.join(sorted(b['kinds']))}: "
                      f"expected {json.dumps(b['want']) if b['st'] == 'ok' else 'an error (' + b['why'] + ')'} got {json.dumps(got)[:160]}")
    for f in findings:
        if f["feature"] in hit:
            rep.known.append(f["summary"] + f" ({len(hit[f['feature']])} calls)")
        elif f.get("deviation") and "modelled-deviations" in hit:
            rep.known.append(f["summary"] + f" ({len(hit['modelled-deviations'])} calls agree with the definition only under the listed deviations)")
    fams = {}
    for c in cases:
        fams[c["family"]] = fams.get(c["family"], 0) + 1
    rep.cov.update({"states": states + sum(g.get("distinct", 0) for g in gens), "transitions": checked + sum(g["generated"] for g in gens),
                    "traces_validated_against_impl": len(cases), "evaluations": checked * 3, "distinct_nontrivial": len(cases),
                    "exhaustive": True, "not_judged_open": opened,
                    "rule": f"grid level {level}: every piece of FormatGen's families {fams} (one initial state per piece, all prefix-parameter / modifier / "
                            f"argument combinations of the declared pools) + {walks} random compositions of up to 4 pieces incl. nested blocks; every call "
                            "executed with destination nil, t and a string stream and judged by the TLA+ interpreter Format.tla under TLC; "
                            "calls whose consequences the definitions leave open are counted in not_judged_open and not judged",
                    "samples": [{k: cases[0][k] for k in ("ctl", "args")}, {k: cases[len(cases) // 2][k] for k in ("ctl", "args")}],
                    "gen": gens, "probes": {k: len(v) for k, v in hit.items()}})
    return rep.finish()
