"""C11 - flavor inheritance and daemon order follow component order, whatever the history."""
import json, os

from lib import common, gen, pipeline

PROP = "C11"
SPEC = os.path.join(common.VERIF, "spec", "Flavors")


def to_stim(rows):
    out = []
    for row in rows:
        out.append({"ops": row["hist"], "flavors": sorted(row["expect"].keys()), "expect": row["expect"],
                    "feat": sorted(row["feat"])})
    return out


def judge(stim, ev):
    """Compare the observation with the expectation TLC computed; returns '' or a reason."""
    for i, st in enumerate(ev["defs"]):
        if st:
            return f"defining form {i + 1} failed: {st}"
    for f, ex in stim["expect"].items():
        ob = ev["obs"].get(f)
        if ob is None:
            return f"{f}: not observed"
        if ob.get("fault"):
            return f"{f}: internal fault {ob['err']}"
        if ob["prec"] != ex["prec"]:
            return f"{f}: precedence {ob['prec']} want {ex['prec']}"
        if not ex["handles"]:
            if not ob["err"]:
                return f"{f}: unhandled message accepted, trace {ob['trace']}"
        elif ob["err"] or ob["trace"] != ex["trace"]:
            return f"{f}: trace {ob['trace']} {ob['err']} want {ex['trace']}"
        # the message :v: the accessor of the first flavor that declares v, or a method the user wrote for it, whichever flavor comes first
        user = ex["getv"] if ex["getv"].startswith("user:") else ""
        if user:
            if ob["vdef"] != f'="{user}"':
                return f"{f}: (send inst :v) is {ob['vdef']}, want the method of {user[5:]}"
        elif ex["getv"] == "val":
            if ob["vdef"] != ("=nil" if ex["vbare"] else f'="{ex["vfrom"]}"'):
                return f"{f}: default of v is {ob['vdef']}, want the one declared by {ex['vfrom']}{' (declared without a default: nil)' if ex['vbare'] else ''}"
        elif ob["vdef"].startswith("="):
            return f"{f}: no flavor in its precedence answers :v but it answered {ob['vdef']}"
        # the init keyword :v exists when a flavor of the precedence list declares v
        if ex["vfrom"]:
            want = f'="{user}"' if user else "=7"
            if ob["vinit"] != want:
                return f"{f}: (send (make-instance f :v 7) :v) is {ob['vinit']}, want {want}"
        elif ob["vinit"].startswith("="):
            return f"{f}: has no variable v by inheritance but the init keyword :v was accepted: {ob['vinit']}"
    return ""


def run(tier, seed):
    rep = common.Report(PROP, tier, seed)
    depth = int(os.environ.get("VERIF_DEPTH", 5 if tier == "quick" else 6))
    walks = int(os.environ.get("VERIF_WALKS", 250 if tier == "quick" else 3000))
    vdrive = common.build_harness()
    rows, g = gen.bfs(SPEC, "Flavors", "Flavors.cfg", {"MaxOps": depth}, timeout=3000)
    stimuli = to_stim(rows)
    # ... and with flavors that declare the variable without a default (its nil counts in the inheritance), one level less
    rows1, g1 = gen.bfs(SPEC, "Flavors", "Flavors.cfg", {"MaxOps": depth - 1, "VarKinds": '{"", "var", "bare"}'}, timeout=3000)
    have = {json.dumps(r["hist"], sort_keys=True) for r in rows}
    stimuli += to_stim([r for r in rows1 if json.dumps(r["hist"], sort_keys=True) not in have])
    n_bfs = len(stimuli)
    sims = []
    for k in range(1 if tier == "quick" else 3):
        rows2, g2 = gen.sim(SPEC, "Flavors", "FlavorsSim.cfg", {}, num=walks, depth=20, seed=seed * 100 + k, timeout=3000)
        stimuli += to_stim(rows2)
        sims.append(g2)
    # directed histories: a wide component shared by sibling flavors (NextWide of Flavors.tla), every script of the family
    rows3, g3 = gen.bfs(SPEC, "Flavors", "FlavorsWide.cfg", {}, timeout=3000)
    if tier == "quick":
        rows3 = rows3[seed % 4::4]
    stimuli += to_stim(rows3)
    sims.append(g3)
    # directed histories: a defmethod that is rejected, followed by a real one (NextBad): nothing of the rejected form stays
    rows4, g4 = gen.bfs(SPEC, "Flavors", "FlavorsWide.cfg", {}, timeout=3000, subst={"NEXT NextWide": "NEXT NextBad", "INVARIANT EmitWide": "INVARIANT EmitBad"})
    stimuli += to_stim(rows4)
    sims.append(g4)
    for i, s in enumerate(stimuli):
        s["id"] = i + 1
    open_feats = {f["feature"]: f for f in common.load_findings(PROP) if f.get("status") == "open"}
    events = pipeline.drive(vdrive, "c11", [{k: s[k] for k in ("id", "ops", "flavors")} for s in stimuli], chunk=250)
    by_t = {e["t"]: e for e in events}
    hit = {}
    shapes = set()
    for s in stimuli:
        shapes.add(json.dumps(s["expect"], sort_keys=True))
        why = judge(s, by_t[s["id"]])
        if not why:
            continue
        known = [f for f in s["feat"] if f in open_feats]
        if known:
            for f in known:
                hit.setdefault(f, []).append(s["id"])
        else:
            rep.violation({"property": PROP, "stimulus": s, "observed": by_t[s["id"]], "reason": why},
                          f"{json.dumps(s['ops'])}: {why}")
    for feat, f in open_feats.items():
        if feat in hit:
            rep.known.append(f["summary"] + f" ({len(hit[feat])} probes rejected)")
    rep.cov.update({"states": g["distinct"], "transitions": g["generated"],
                    "traces_validated_against_impl": len(stimuli), "evaluations": len(stimuli),
                    "distinct_nontrivial": len(shapes), "exhaustive": True,
                    "rule": f"(a) one history of defflavor/defmethod/defwhopper forms per transition of Flavors.tla (4 flavors, <=2 components, "
                            f"<={depth} forms, flavors named in definition order, VIEW on the definitions) - exhaustive; (b) the final "
                            f"states of {walks} random walks per seed through the same Next relation with 7 flavors, <=3 components, 14 forms. "
                            "After each history every defined flavor is instantiated and sent :m; precedence list, daemon trace, default / "
                            "accessor (also against methods the user wrote for the accessor's message on any flavor) / init keyword of variable v are compared with what TLC computed from the reference. "
                            "distinct_nontrivial = distinct expected observations (precedence lists + traces) among the histories",
                    "samples": [{"stimulus": s["ops"], "expect": s["expect"]} for s in (stimuli[n_bfs // 2], stimuli[-1])],
                    "gen": {"bfs": g, "sim": sims}, "probes": {k: len(v) for k, v in hit.items()}})
    rep.assumptions = ["names of flavors are immaterial (flavors are created in the order fa, fb, ...)",
                       "one message :m and one instance variable v stand for all messages and variables"]
    return rep.finish()


def replay(path):
    payload = json.load(open(path))
    vdrive = common.build_harness()
    s = payload["stimulus"]
    ev = pipeline.drive(vdrive, "c11", [{k: s[k] for k in ("id", "ops", "flavors")}])[0]
    why = judge(s, ev)
    print(json.dumps(ev))
    if why:
        print(f"VIOLATION property={PROP} replay={path}\n  {why}")
        return 1
    print("accepted")
    return 0
