"""C11 - flavor inheritance and daemon order follow component order, whatever the history."""
import json, os, re, shutil, tempfile

from lib import common, pipeline

PROP = "C11"
SPEC = os.path.join(common.VERIF, "spec", "Flavors")


def gen(max_ops):
    d = tempfile.mkdtemp(prefix="spec-c11-", dir=common.scratch())
    for f in os.listdir(SPEC):
        shutil.copy(os.path.join(SPEC, f), d)
    cfg = re.sub(r"MaxOps = \d+", f"MaxOps = {max_ops}", open(os.path.join(SPEC, "Flavors.cfg")).read())
    open(os.path.join(d, "Flavors.cfg"), "w").write(cfg)
    r = common.run_tlc_with_files(d, "Flavors", "Flavors.cfg", {}, timeout=1500)
    if r["errors"]:
        raise common.Infra("Flavors: " + "; ".join(r["errors"][:3]))
    stimuli = []
    for row in common.emitted(r["out"]):
        stimuli.append({"id": len(stimuli) + 1, "ops": row["hist"], "flavors": sorted(row["expect"].keys()),
                        "expect": row["expect"], "feat": sorted(row["feat"])})
    return stimuli, r


def judge(stim, ev):
    """Compare the observation with the expectation TLC computed; returns '' or a reason."""
    for f, ex in stim["expect"].items():
        ob = ev["obs"].get(f)
        if ob is None:
            return f"{f}: not observed"
        if ob["prec"] != ex["prec"]:
            return f"{f}: precedence {ob['prec']} want {ex['prec']}"
        if not ex["handles"]:
            if not ob["err"]:
                return f"{f}: unhandled message accepted, trace {ob['trace']}"
            continue
        if ob["err"] or ob["trace"] != ex["trace"]:
            return f"{f}: trace {ob['trace']} {ob['err']} want {ex['trace']}"
    return ""


def run(tier, seed):
    rep = common.Report(PROP, tier, seed)
    max_ops = int(os.environ.get("VERIF_DEPTH", 4 if tier == "quick" else 6))
    vdrive = common.build_harness()
    stimuli, g = gen(max_ops)
    rep.cov["states"], rep.cov["transitions"] = g["distinct"], g["generated"]
    open_feats = {f["feature"]: f for f in common.load_findings(PROP) if f.get("status") == "open"}
    events = pipeline.drive(vdrive, "c11", [{k: s[k] for k in ("id", "ops", "flavors")} for s in stimuli], chunk=250)
    by_t = {e["t"]: e for e in events}
    hit = {}
    for s in stimuli:
        why = judge(s, by_t[s["id"]])
        if not why:
            continue
        known = [f for f in s["feat"] if f in open_feats]
        if known:
            for f in known:
                hit.setdefault(f, []).append(s["id"])
        else:
            rep.violation({"property": PROP, "stimulus": s, "observed": by_t[s["id"]], "reason": why},
                          f"{json.dumps(s['ops'])}: {why}")
    for feat, f in open_feats.items():
        if feat in hit:
            rep.known.append(f["summary"] + f" ({len(hit[feat])} probes rejected)")
    rep.cov.update({"traces_validated_against_impl": len(stimuli), "evaluations": len(stimuli),
                    "distinct_nontrivial": g["distinct"], "exhaustive": True,
                    "rule": f"one history of defflavor/defmethod/defwhopper forms per transition of Flavors (4 flavors, <=2 components, "
                            f"<={max_ops} forms, VIEW on definitions); every defined flavor is instantiated and sent :m; "
                            "expected precedence and daemon trace computed by TLC from the reference",
                    "samples": [{"stimulus": s["ops"], "expect": s["expect"]} for s in stimuli[:: max(1, len(stimuli) // 4)][:4]],
                    "probes": {k: len(v) for k, v in hit.items()}})
    return rep.finish()
