"""C04 - arguments are bound per the lambda list; arity errors match the documentation."""
import json, os, subprocess

from lib import common, gen, pipeline

PROP = "C04"
SPEC = os.path.join(common.VERIF, "spec", "LambdaList")
ARITY_FEATURE = "documented-arity-mismatch"


def sweep(vdrive):
    """Run the registry sweep; a function that blocks is skipped and the sweep repeated."""
    skip, events = [], []
    for _ in range(20):
        args = [vdrive, "c04arity", "0", "1"] + ([",".join(skip)] if skip else [])
        p = subprocess.run(args, stdin=subprocess.DEVNULL, capture_output=True, cwd=common.scratch(), timeout=600)   # the sweep calls (snapshot "abc") ...: files land in the scratch directory
        events = [json.loads(l) for l in p.stdout.decode().splitlines() if l.startswith("{")]
        if p.returncode == 0:
            return events, skip
        if p.returncode == 3 and events and events[-1].get("hang"):
            skip.append(events[-1]["fn"])
            continue
        raise common.Infra(f"c04arity exited {p.returncode}: {p.stderr.decode(errors='replace')[-1000:]}")
    raise common.Infra("too many blocking functions: " + ",".join(skip))


def val(v):
    """Tagged value of the specification / projected value of the harness -> comparable python value."""
    k = v.get("k")
    if k == "int":
        return v["v"]
    if k == "nil":
        return None
    if k == "key":
        return ":" + v["v"]
    if k == "sym":
        return v["v"]
    if k == "list":
        r = [val(x) for x in v["v"]]
        return r if r else None
    return ("?", json.dumps(v, sort_keys=True))


def judge_call(exp, r, redefined):
    """'' or the reason the observed outcomes of one call are not what the lambda list prescribes."""
    paths = ["direct", "funcall", "apply", "fwd"] + (["old", "site"] if redefined else []) + (["map2"] if "map2" in r else [])
    for path in paths:
        c = r[path]
        if c.get("fault"):
            return f"{path}: internal fault {c['st']}"
        if not exp["ok"]:
            if not c["st"]:
                return f"{path}: call that must be rejected ({exp['why']}) returned {val(c['v'])}"
            continue
        if c["st"]:
            if exp["alt"]:
                continue            # an undeclared keyword may be rejected
            return f"{path}: signalled {c['st']}"
        got = val(c["v"]) or []
        if got != [val(x) for x in exp["vals"]] and got != [val(x) for x in exp["vals2"]]:
            return f"{path}: parameters bound to {got}, want {[val(x) for x in exp['vals']]}"
    # called twice by mapcar: the second call (integers 1000 higher) binds what a direct call with those arguments binds
    if "map2" in r and exp["ok"] and not r["map2"]["st"] and not r["direct2"]["st"]:
        if r["map2b"]["st"] or val(r["map2b"]["v"]) != val(r["direct2"]["v"]):
            return f"map2: second call by mapcar bound {val(r['map2b'].get('v', {'k': 'nil'}))}, a direct call with the same arguments {val(r['direct2']['v'])}"
    # the function that ignores its parameters: it must run exactly when the binding succeeds
    c = r["const"]
    if not exp["ok"] and exp["why"] != "default-form-error" and not c["st"]:
        return f"a call that must be rejected ({exp['why']}) ran the body"
    if exp["ok"] and not exp["alt"] and (c["st"] or val(c["v"]) != 42):
        return f"the body did not run: {c['st']} {c.get('v')}"
    return ""


def run(tier, seed):
    rep = common.Report(PROP, tier, seed)
    vdrive = common.build_harness()
    findings = {f["feature"]: f for f in common.load_findings(PROP) if f.get("status") == "open"}
    # ---- part 1: binding -------------------------------------------------------------------------------------
    quick = tier == "quick"
    rows, g = gen.bfs(SPEC, "LambdaList", "LambdaList.cfg", {"Kinds": "{0, 2, 3}" if quick else "{0, 1, 2, 3}", "MaxPos": 4 if quick else 5},
                      timeout=3000)
    groups, order = {}, []
    for r in rows:
        key = json.dumps([r["ll"], None if r["prev"]["none"] else r["prev"]["ll"]], sort_keys=True)
        if key not in groups:
            groups[key] = {"id": len(order) + 1, "ll": r["ll"], "prev": None if r["prev"]["none"] else r["prev"]["ll"], "calls": [], "exp": []}
            order.append(key)
        groups[key]["calls"].append({"args": r["args"]})
        groups[key]["exp"].append(r["exp"])
    stimuli = [groups[k] for k in order]
    events = pipeline.drive(vdrive, "c04bind", [{k: s[k] for k in ("id", "ll", "prev", "calls")} for s in stimuli], chunk=60)
    by_t = {e["t"]: e for e in events}
    ncalls = 0
    for s in stimuli:
        ev = by_t[s["id"]]
        if ev["defst"]:
            rep.violation({"property": PROP, "shape": s["ll"], "prev": s["prev"], "reason": "defun failed: " + ev["defst"]},
                          f"defun with lambda list shape {s['ll']} failed: {ev['defst']}")
            continue
        for call, exp, r in zip(s["calls"], s["exp"], ev["res"]):
            ncalls += 1
            why = judge_call(exp, r, s["prev"] is not None)
            if why:
                rep.violation({"property": PROP, "shape": s["ll"], "prev": s["prev"], "args": call["args"], "expected": exp, "observed": r, "reason": why},
                              f"lambda list {s['ll']}{' (redefined from ' + json.dumps(s['prev']) + ')' if s['prev'] else ''} called with "
                              f"{[val(a) for a in call['args']]}: {why}")
    # ---- part 2: documented arity of every built-in ----------------------------------------------------------
    aev, skipped = sweep(vdrive)
    aev = [dict(e, t=i + 1) for i, e in enumerate(aev) if not e.get("hang")]
    res = pipeline.accept(SPEC, "Arity", "Arity.cfg", aev, shards=4, key="t")
    listed = {(x["fn"], x["n"], x["why"]) for x in json.load(open(os.path.join(SPEC, "arity-known.json")))} if ARITY_FEATURE in findings else set()
    hit = 0
    for b in res["bad"]:
        if (b["fn"], b["n"], b["why"]) in listed:
            hit += 1
        else:
            rep.violation({"property": PROP, "function": b["fn"], "n": b["n"], "why": b["why"], "event": b["event"]},
                          f"{b['fn']} with {b['n']} arguments: {b['why']} (documented ({' '.join(b['event']['ll'])}))")
    if hit:
        rep.known.append(findings[ARITY_FEATURE]["summary"] + f" ({hit} of the {len(listed)} listed (function, count) pairs reproduced)")
    fns = {e["fn"] for e in aev}
    rep.cov.update({"states": g["generated"] + res["states"], "transitions": len(rows) + res["lines"],
                    "traces_validated_against_impl": ncalls + len(aev), "evaluations": ncalls + len(aev),
                    "distinct_nontrivial": len(rows) + len(fns), "exhaustive": True,
                    "rule": f"(1) every lambda-list shape (0-2 required x 0-2 optional x rest x 0-2 keys x aux, default kinds none / form / form using "
                            f"an earlier parameter{'' if quick else ' / literal'}) x every call (0-{4 if quick else 5} positional, <=2 keyword pairs over "
                            "two declared and one undeclared key, with / without a dangling keyword, with nil as the last positional argument or as the value of the first pair; &allow-other-keys after the keys against calls with an undeclared key), through a direct call, funcall and apply, plus a body "
                            "that ignores its parameters; and the same for functions redefined from another lambda list, called through call sites "
                            "compiled before the redefinition; expected bindings computed by TLC from LambdaList.tla (Bind); "
                            f"(2) all {len(fns)} registered functions of all packages called with n = 0..max+2 arguments of the documented types; the "
                            "TLA+ acceptor Arity derives the arity relation from the documented lambda list. distinct = binding rows + functions",
                    "samples": [{"ll": stimuli[len(stimuli) // 2]["ll"], "call": stimuli[len(stimuli) // 2]["calls"][3], "expected": stimuli[len(stimuli) // 2]["exp"][3]}, aev[0]],
                    "skipped_blocking": skipped, "faults_seen": sum(1 for e in aev if e["out"] == "fault")})
    return rep.finish()
