"""C02 - reading is a function of the text, not of how the text is delivered (draft)."""
import itertools, json, os, random

from lib import common, pipeline

PROP = "C02"
SPEC = os.path.join(common.VERIF, "spec", "Reader")
# tokens on whose delimiters slip and the language agree; each is followed by a separator
POOL = ["abc", "x", "12", "-7", "1.5", "1/2", "nil", "t", ":kw", '"s t"', '"a\\"b"', '"l1\\nl2"', "|x y|", "#\\a", "#\\Space",
        "#xff", "#b101", "#3r12", "#*101", "'q", "`bq", "#'car", "(", ")", "(a . b)", "#(1 2)", "#2A((1 2) (3 4))",
        "; c\n", "#| blk |#", "()", "(nested (deep (er)))"]
SEPS = [" ", "\n", "  "]
STREAM_ENTRIES = ["stream", "push", "each", "stream-one"]


def balanced(tokens):
    depth = 0
    for t in tokens:
        if t == "(":
            depth += 1
        elif t == ")":
            depth -= 1
            if depth < 0:
                return False
    return depth == 0


def texts(rng, n, maxtok):
    out = set()
    while len(out) < n:
        k = rng.randint(1, maxtok)
        toks = [rng.choice(POOL) for _ in range(k)]
        if not balanced(toks):
            continue
        s = ""
        for tk in toks:
            s += tk + ("" if tk.endswith("\n") else rng.choice(SEPS))
        out.add(s)
    return sorted(out)


def features(stim):
    f = set()
    if stim["entry"] in STREAM_ENTRIES and stim["cuts"]:
        f.add("chunked-stream")
    if stim["entry"] in ("readone", "stream-one") and ('"' in stim["text"] or "|" in stim["text"]):
        f.add("one-form-position-of-string-or-pipe")
    return f


def run(tier, seed):
    rep = common.Report(PROP, tier, seed)
    vdrive = common.build_harness()
    rng = random.Random(seed)
    ntexts, maxtok = (300, 4) if tier == "quick" else (5000, 6)
    stimuli = []
    for text in texts(rng, ntexts, maxtok):
        n = len(text.encode())
        cutsets = [[]] + [[c] for c in range(1, n)] + [list(range(k, n, k)) for k in (1, 2, 3, 7) if k < n]
        cutsets += [sorted(rng.sample(range(1, n), min(n - 1, rng.randint(2, 4)))) for _ in range(3) if n > 3]
        for cuts in cutsets:
            for entry in (STREAM_ENTRIES if cuts else STREAM_ENTRIES + ["readone"]):
                stimuli.append({"id": len(stimuli) + 1, "text": text, "cuts": cuts, "entry": entry})
    open_feats = {f["feature"]: f for f in common.load_findings(PROP) if f.get("status") == "open"}
    events = pipeline.drive(vdrive, "c02", stimuli, chunk=5000)
    res = pipeline.accept(SPEC, "ReaderTrace", "ReaderTrace.cfg", events, timeout=1500)
    by_id = {s["id"]: s for s in stimuli}
    hit = {}
    for b in res["bad"]:
        s = by_id[b["t"]]
        known = [f for f in features(s) if f in open_feats]
        if b["why"].startswith("calibration"):
            raise common.Infra(f"structure layer and one-shot reader disagree on {s['text']!r}: generator outside the sublanguage")
        if known:
            for f in known:
                hit.setdefault(f, []).append(b)
        else:
            rep.violation({"property": PROP, "stimulus": s, "why": b["why"], "event": b["event"]},
                          f"{s['text']!r} cuts {s['cuts']} via {s['entry']}: {b['why']}")
    for feat, f in open_feats.items():
        if feat in hit:
            rep.known.append(f["summary"] + f" ({len(hit[feat])} deliveries)")
    rep.cov.update({"states": res["states"], "transitions": res["lines"], "traces_validated_against_impl": len(stimuli),
                    "evaluations": len(stimuli), "distinct_nontrivial": len({s["text"] for s in stimuli}),
                    "rule": f"{ntexts} balanced texts of <= {maxtok} tokens from a {len(POOL)}-token pool x every single cut, chunk sizes 1/2/3/7, "
                            "3 random multi-cuts x 4 stream entry points (+ repeated ReadOne uncut); distinct = distinct texts",
                    "samples": stimuli[:2] + stimuli[-1:], "exhaustive": False, "probes": {k: len(v) for k, v in hit.items()}})
    return rep.finish()
