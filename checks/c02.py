"""C02 - reading is a function of the text, not of how the text is delivered (draft)."""
import itertools, json, os, random

from lib import common, pipeline

PROP = "C02"
SPEC = os.path.join(common.VERIF, "spec", "Reader")
# tokens on whose delimiters slip and the language agree; each is followed by a separator
POOL = ["abc", "x", "12", "-7", "1.5", "1/2", "nil", "t", ":kw", '"s t"', '"a\\"b"', '"l1\\nl2"', "|x y|", "#\\a", "#\\Space",
        "#xff", "#b101", "#3r12", "#*101", "'q", "`bq", "#'car", "(", ")", "(a . b)", "#(1 2)", "#2A((1 2) (3 4))",
        "; c\n", "#| blk |#", "()", "(nested (deep (er)))",
        # numbers whose meaning depends on *read-base* / the default float format, longer radix prefixes
        "ff", "1f", "10", "-101", "10.", "1e3", "1.5d0", "2.5s0", "1.0f2", "3.25L1", "#16rFF", "#2r-101", "#36rzz", "#o17", "-3/4",
        # prefixes in front of every kind of datum, nested prefixes, vectors in vectors
        "'(a b)", "`(a ,b ,@c)", "''x", "#'(lambda (x) x)", "#(1 #(2))", "(quote x)", "(a . (b . c))",
        # multi-byte code points inside strings, |symbols|, characters and plain symbols
        '"h\u00e9llo w\u00f6rld"', "|\u00e9 t\u00e9|", "#\\\u00e9", "caf\u00e9", '"\U0001F600 ok"', '"tab\\tin"', "|a\\|b|"]
# texts with forms that set the reader's variables when a consumer evaluates them while the rest is still being read
SETTERS = ["(setq *read-base* 16) 10 11 '(12 ff)", "(setq *read-base* 8) 17", "(setq *read-default-float-format* 'single-float) 1.5 2.5d0 (1.25)",
           "12 (setq *read-base* 2) 101 #xff 11"]
BASES = [0, 2, 8, 16, 36]
FFMTS = ["", "single-float", "double-float", "long-float", "short-float"]
SEPS = [" ", "\n", "  "]
STREAM_ENTRIES = ["stream", "push", "each", "stream-one"]
WHOLE_ENTRIES = ["readone", "rfs", "clseek"]      # entry points that take the whole text


def balanced(tokens):
    depth = 0
    for t in tokens:
        if t == "(":
            depth += 1
        elif t == ")":
            depth -= 1
            if depth < 0:
                return False
    return depth == 0


def texts(rng, n, maxtok):
    out = set()
    while len(out) < n:
        k = rng.randint(1, maxtok)
        toks = [rng.choice(POOL) for _ in range(k)]
        if not balanced(toks):
            continue
        s = ""
        for i, tk in enumerate(toks):
            last = i == len(toks) - 1
            # half of the texts end with their last token, nothing after it
            s += tk + ("" if tk.endswith("\n") or (last and rng.random() < 0.5) else rng.choice(SEPS))
        out.add(s)
    return sorted(out)


def features(stim):
    """Constructs for which the implementation has an open finding (exercised as probes, see known-findings.jsonl)."""
    f = set()
    if stim["entry"] == "rfs" and any(ord(c) > 127 for c in stim["text"]):
        f.add("read-from-string-position-in-bytes")
    if stim["entry"] == "clread":
        f.add("cl-read-on-non-seekable-stream")
    return f


def cutsets(rng, n, full):
    if n < 2:
        return [[]]
    cs = [[]]
    if full:
        cs += [[c] for c in range(1, n)] + [list(range(k, n, k)) for k in (1, 2, 3, 7) if k < n]
    else:
        cs += [[rng.randrange(1, n)]] + [list(range(k, n, k)) for k in (1,)]
    cs += [sorted(rng.sample(range(1, n), min(n - 1, rng.randint(2, 4)))) for _ in range(3 if full else 1) if n > 3]
    return cs


def run(tier, seed):
    rep = common.Report(PROP, tier, seed)
    vdrive = common.build_harness()
    rng = random.Random(seed)
    ntexts, maxtok = (300, 4) if tier == "quick" else (4000, 6)
    stimuli = []

    def add(text, cuts, entry, base=0, ffmt="", full="", eofwith=False):
        stimuli.append({"id": len(stimuli) + 1, "text": text, "cuts": cuts, "entry": entry, "base": base, "ffmt": ffmt, "full": full,
                        "eofwith": eofwith})

    for text in texts(rng, ntexts, maxtok):
        n = len(text.encode())
        # (a) default settings: every single cut, fixed chunk sizes, random multi-cuts x every stream entry point
        for cuts in cutsets(rng, n, True):
            for entry in (STREAM_ENTRIES if cuts else STREAM_ENTRIES + WHOLE_ENTRIES):
                add(text, cuts, entry)
        # (a') the stream reports its end together with the last bytes (io.Reader allows n > 0 with io.EOF): whole, cut once
        # at every place in the last third of the text, bytewise
        for cuts in [[]] + [[c] for c in range(max(1, n - 1 - n // 3), n)] + ([list(range(1, n))] if n > 1 else []):
            for entry in STREAM_ENTRIES:
                add(text, cuts, entry, eofwith=True)
        if rng.random() < 0.15:
            add(text, [], "clread")
            add(text, [rng.randrange(1, n)] if n > 1 else [], "clread")
        # (b) two other reader settings, fewer cuts
        for _ in range(2):
            base, ffmt = rng.choice(BASES), rng.choice(FFMTS)
            for cuts in cutsets(rng, n, False):
                for entry in (STREAM_ENTRIES if cuts else STREAM_ENTRIES + WHOLE_ENTRIES):
                    add(text, cuts, entry, base, ffmt)
        # (c) the text stops early: every proper prefix (in code points), whole and with one cut
        cps = list(text)
        for k in range(1, len(cps)):
            pre = "".join(cps[:k])
            m = len(pre.encode())
            for cuts in ([[]] + ([[rng.randrange(1, m)]] if m > 1 else [])):
                for entry in (["stream", "each", "stream-one"] if cuts else ["stream", "push", "readone", "rfs", "clseek"]):
                    add(pre, cuts, entry, full=text)
                if k % 3 == 0:
                    add(pre, cuts, "stream" if cuts else "each", full=text, eofwith=True)
    # (d) a consumer that evaluates the forms as they arrive, texts whose forms change the reader's settings: every single cut,
    # bytewise, end reported with the last bytes
    for text in SETTERS:
        n = len(text.encode())
        for cuts in [[]] + [[c] for c in range(1, n)] + [list(range(1, n))]:
            add(text, cuts, "each-eval")
            add(text, cuts, "each-eval", eofwith=True)
    open_feats = {f["feature"]: f for f in common.load_findings(PROP) if f.get("status") == "open"}
    events = pipeline.drive(vdrive, "c02", stimuli, chunk=5000)
    res = pipeline.accept(SPEC, "ReaderTrace", "ReaderTrace.cfg", events, timeout=1500)
    by_id = {s["id"]: s for s in stimuli}
    hit = {}
    for b in res["bad"]:
        s = by_id[b["t"]]
        known = [f for f in features(s) if f in open_feats]
        # "calibration": a complete text of n forms from the token pool was read as a different number of objects. The pool
        # is kept to tokens on which the structure layer and the one-shot reader agree on the unchanged tree, so this
        # is a reading of the text as different objects (reported like any other rejection).
        if known:
            for f in known:
                hit.setdefault(f, []).append(b)
        else:
            rep.violation({"property": PROP, "stimulus": s, "why": b["why"], "event": b["event"]},
                          f"{s['text']!r} cuts {s['cuts']} via {s['entry']}: {b['why']}")
    for feat, f in open_feats.items():
        if feat in hit:
            rep.known.append(f["summary"] + f" ({len(hit[feat])} deliveries)")
    rep.cov.update({"states": res["states"], "transitions": res["lines"], "traces_validated_against_impl": len(stimuli),
                    "evaluations": len(stimuli), "distinct_nontrivial": len({(s["text"], s["base"], s["ffmt"]) for s in stimuli}),
                    "rule": f"{ntexts} balanced texts of <= {maxtok} tokens from a {len(POOL)}-token pool x (every single cut, chunk sizes 1/2/3/7, "
                            "random multi-cuts) x 5 stream entry points, streams that report their end together with the last bytes (whole, cut in the last third, bytewise) (+ repeated ReadOne and read-from-string uncut), again under two random "
                            "(*read-base*, *read-default-float-format*) settings, and every proper prefix of every text (whole and cut once); each "
                            "event carries the one-shot ReadString result of the same text under the same settings and is judged by the TLA+ "
                            "acceptor ReaderTrace (delivery independence; form spans from the per-code-point structure machine for positions, "
                            "incomplete texts and forms before a truncation point); distinct = distinct texts incl. truncations",
                    "samples": stimuli[:2] + stimuli[-1:], "exhaustive": False, "probes": {k: len(v) for k, v in hit.items()}})
    return rep.finish()
