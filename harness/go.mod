module verifharness

go 1.25

require github.com/ohler55/slip v0.0.0

replace github.com/ohler55/slip => /repo
