// Package h holds what every driver needs: evaluating Lisp text with every
// kind of panic recovered and classified, projecting slip objects to the
// tagged JSON values the TLA+ specifications read, and ndjson I/O.
package h

import (
	"bufio"
	"encoding/json"
	"fmt"
	"math/big"
	"os"
	"strings"
	"sync"
	"syscall"

	"github.com/ohler55/slip"
)

// V is a tagged value as read by spec/common/Val.tla.
type V = map[string]any

// Outcome of evaluating a form.
type Outcome struct {
	Val   slip.Object
	Class string // "" when a value was returned, else the condition class or "go:<type>"
	Msg   string
}

// OK is true when a value was returned.
func (o Outcome) OK() bool { return o.Class == "" }

// Fault is true when the failure is an internal fault dressed up as a condition.
func (o Outcome) Fault() bool {
	return strings.HasPrefix(o.Class, "go:") || strings.Contains(o.Msg, "runtime error") ||
		strings.Contains(o.Msg, "interface conversion")
}

// Eval reads src completely and evaluates every form in s, recovering every panic.
func Eval(s *slip.Scope, src string) (out Outcome) {
	defer func() {
		if r := recover(); r != nil {
			out = classify(r)
		}
	}()
	var v slip.Object
	for _, obj := range slip.ReadString(src, s) {
		v = s.Eval(obj, 0)
	}
	return Outcome{Val: v}
}

// Try runs f recovering every panic.
func Try(f func() slip.Object) (out Outcome) {
	defer func() {
		if r := recover(); r != nil {
			out = classify(r)
		}
	}()
	return Outcome{Val: f()}
}

func classify(r any) Outcome {
	out := Outcome{Class: fmt.Sprintf("go:%T", r), Msg: fmt.Sprint(r)}
	switch tr := r.(type) {
	case *slip.Panic:
		out.Class = string(tr.Hierarchy()[0])
		out.Msg = tr.Error()
	case *slip.PartialPanic:
		out.Class = "partial"
		out.Msg = tr.Error()
	case slip.Instance:
		out.Class = string(tr.Hierarchy()[0])
		if mv, has := tr.SlotValue(slip.Symbol("message")); has {
			if ms, ok := mv.(slip.String); ok {
				out.Msg = string(ms)
			} else {
				out.Msg = slip.ObjectString(mv)
			}
		}
	case slip.Object:
		out.Class = string(tr.Hierarchy()[0])
	case error:
		out.Msg = tr.Error()
	}
	return out
}

// Limbs renders |x| as little-endian limbs base 2^15 plus sign, the form BigInt.tla reads.
func Limbs(x *big.Int) V {
	m := new(big.Int).Abs(x)
	limbs := []int{}
	base := big.NewInt(32768)
	r := new(big.Int)
	for m.Sign() > 0 {
		m.DivMod(m, base, r)
		limbs = append(limbs, int(r.Int64()))
	}
	return V{"s": x.Sign(), "m": limbs}
}

// CodePoints of a string.
func CodePoints(s string) []int {
	out := []int{}
	for _, r := range s {
		out = append(out, int(r))
	}
	return out
}

// Project maps a slip object to a tagged value. Integers that fit 30 bits are
// {"k":"int"}, larger ones {"k":"big"}; anything the specifications do not look
// into is {"k":"opaque","s":printed}.
func Project(o slip.Object) V {
	switch t := o.(type) {
	case nil:
		return V{"k": "nil"}
	case slip.Fixnum:
		if -(1<<30) < int64(t) && int64(t) < (1<<30) {
			return V{"k": "int", "v": int(t)}
		}
		return V{"k": "big", "v": Limbs(big.NewInt(int64(t))), "ty": "fixnum"}
	case *slip.Bignum:
		return V{"k": "big", "v": Limbs((*big.Int)(t)), "ty": "bignum"}
	case *slip.Ratio:
		r := (*big.Rat)(t)
		return V{"k": "ratio", "n": Limbs(r.Num()), "d": Limbs(r.Denom())}
	case slip.String:
		return V{"k": "str", "v": CodePoints(string(t))}
	case slip.Character:
		return V{"k": "chr", "v": int(t)}
	case slip.Symbol:
		return V{"k": "sym", "v": string(t)}
	case slip.List:
		items := make([]any, 0, len(t))
		var tail any
		for i, e := range t {
			if tl, ok := e.(slip.Tail); ok && i == len(t)-1 {
				tail = Project(tl.Value)
				break
			}
			items = append(items, Project(e))
		}
		if tail != nil {
			return V{"k": "dotted", "v": items, "tail": tail}
		}
		if len(items) == 0 {
			return V{"k": "nil"}
		}
		return V{"k": "list", "v": items}
	case slip.Values:
		items := make([]any, 0, len(t))
		for _, e := range t {
			items = append(items, Project(e))
		}
		return V{"k": "values", "v": items}
	}
	if o == slip.True {
		return V{"k": "t"}
	}
	if o == slip.Unbound {
		return V{"k": "unbound"}
	}
	if vec, ok := o.(*slip.Vector); ok {
		items := []any{}
		for _, e := range vec.AsList() {
			items = append(items, Project(e))
		}
		return V{"k": "vec", "v": items}
	}
	return V{"k": "opaque", "s": slip.ObjectString(o)}
}

// ---- ndjson -----------------------------------------------------------

// Lines calls f for every non-empty line of stdin.
func Lines(f func(line []byte)) {
	in := bufio.NewScanner(os.Stdin)
	in.Buffer(make([]byte, 1<<24), 1<<24)
	for in.Scan() {
		if len(in.Bytes()) > 0 {
			f(in.Bytes())
		}
	}
}

// Out is a mutex protected ndjson writer on stdout with a global sequence number.
type Out struct {
	mu  sync.Mutex
	w   *bufio.Writer
	enc *json.Encoder
	seq int
}

// NewOut creates the writer. Lisp code under test may print to the process's standard
// output (describe, room, princ ...), which would corrupt the event stream, so the real
// stdout is duplicated for the events and file descriptor 1 is pointed at /dev/null.
func NewOut() *Out {
	events := os.Stdout
	if fd, err := syscall.Dup(1); err == nil {
		if null, err2 := os.OpenFile(os.DevNull, os.O_WRONLY, 0); err2 == nil {
			if syscall.Dup2(int(null.Fd()), 1) == nil {
				events = os.NewFile(uintptr(fd), "events")
			}
		}
	}
	w := bufio.NewWriterSize(events, 1<<20)
	return &Out{w: w, enc: json.NewEncoder(w)}
}

// Emit writes one event; when the event has no "seq" one is assigned under the lock.
func (o *Out) Emit(ev V) {
	o.mu.Lock()
	o.seq++
	if _, has := ev["seq"]; !has {
		ev["seq"] = o.seq
	}
	_ = o.enc.Encode(ev)
	o.mu.Unlock()
}

// Flush the writer.
func (o *Out) Flush() {
	o.mu.Lock()
	_ = o.w.Flush()
	o.mu.Unlock()
}

// Define registers a Go function as a Lisp function in the user package.
func Define(name string, call func(s *slip.Scope, args slip.List, depth int) slip.Object) {
	slip.Define(func(args slip.List) slip.Object {
		f := &goFunc{Function: slip.Function{Name: name, Args: args}, call: call}
		f.Self = f
		return f
	}, &slip.FuncDoc{Name: name, Args: []*slip.DocArg{{Name: "&rest"}, {Name: "args"}}, Return: "object"}, &slip.UserPkg)
}

type goFunc struct {
	slip.Function
	call func(s *slip.Scope, args slip.List, depth int) slip.Object
}

// Call the function.
func (f *goFunc) Call(s *slip.Scope, args slip.List, depth int) slip.Object {
	return f.call(s, args, depth)
}
