package main

import (
	"encoding/json"
	"fmt"
	"io"
	"unicode/utf8"

	"github.com/ohler55/slip"

	"verifharness/internal/h"
)

// C02: reading a text delivered in different ways. Stimulus:
//
//	{"id":3,"text":"(abc \"hello\" 12)","cuts":[8],"entry":"stream"}
//
// entry: "stream" (ReadStream), "stream-one" (ReadStream one form), "readone" (repeated
// ReadOne over the remaining bytes), "push" (ReadStreamPush), "each" (ReadStreamEach).
// Event: text as code points, printed objects of this delivery (`objs`) and of
// ReadString on the whole text (`objs0`), their statuses, and the positions reported
// by one-form entry points.
func init() { drivers["c02"] = c02 }

type c02Stim struct {
	ID    int    `json:"id"`
	Text  string `json:"text"`
	Cuts  []int  `json:"cuts"`
	Entry string `json:"entry"`
	Base  int    `json:"base"` // *read-base*, 0 = leave the default
	FFmt  string `json:"ffmt"` // *read-default-float-format*, "" = leave the default
	Full  string `json:"full"` // when Text is a truncation: the text it was cut from
	// EOFWith: the stream reports io.EOF together with its last bytes (as the body of an HTTP
	// response, io.LimitedReader or iotest.DataErrReader do) instead of with a further empty read
	EOFWith bool `json:"eofwith"`
}

type c02Chunker struct {
	data    []byte
	cuts    []int
	i       int
	pos     int
	eofWith bool
}

func (c *c02Chunker) Read(p []byte) (int, error) {
	if c.pos >= len(c.data) {
		return 0, io.EOF
	}
	end := len(c.data)
	for c.i < len(c.cuts) && c.cuts[c.i] <= c.pos {
		c.i++
	}
	if c.i < len(c.cuts) && c.cuts[c.i] < end {
		end = c.cuts[c.i]
	}
	n := copy(p, c.data[c.pos:end])
	c.pos += n
	if c.eofWith && c.pos >= len(c.data) {
		return n, io.EOF
	}
	return n, nil
}

type c02Each struct {
	slip.Function
	got *[]string
}

func (f *c02Each) Call(s *slip.Scope, args slip.List, depth int) slip.Object {
	*f.got = append(*f.got, slip.ObjectString(args[0]))
	return nil
}

type c02EachEval struct {
	slip.Function
	got *[]string
}

func (f *c02EachEval) Call(s *slip.Scope, args slip.List, depth int) slip.Object {
	*f.got = append(*f.got, slip.ObjectString(args[0]))
	if l, ok := args[0].(slip.List); ok && len(l) == 3 && l[0] == slip.Symbol("setq") {
		s.Eval(l, depth+1)
	}
	return nil
}

func c02Status(o h.Outcome) string {
	switch {
	case o.OK():
		return "ok"
	case o.Class == "partial":
		return "incomplete"
	case o.Fault():
		return "fault"
	case o.Class == "parse-error" || o.Class == "reader-error":
		return "parse-error"
	}
	return "error:" + o.Class
}

func c02(args []string) {
	out := h.NewOut()
	defer out.Flush()
	s0 := slip.NewScope()
	show := func(code slip.Code) []string {
		r := []string{}
		for _, o := range code {
			r = append(r, slip.ObjectString(o))
		}
		return r
	}
	h.Lines(func(line []byte) {
		var st c02Stim
		if err := json.Unmarshal(line, &st); err != nil {
			panic(err)
		}
		data := []byte(st.Text)
		s := s0.NewScope()
		if st.Base != 0 {
			s.Let(slip.Symbol("*read-base*"), slip.Fixnum(st.Base))
		}
		if st.FFmt != "" {
			s.Let(slip.Symbol("*read-default-float-format*"), slip.Symbol(st.FFmt))
		}
		var objs0 []string
		o0 := h.Try(func() slip.Object { objs0 = show(slip.ReadString(st.Text, s)); return nil })
		objsFull := []string{}
		if st.Full != "" {
			h.Try(func() slip.Object { objsFull = show(slip.ReadString(st.Full, s)); return nil })
		}
		if objs0 == nil {
			objs0 = []string{}
		}
		objs, pos := []string{}, []int{}
		o := h.Try(func() slip.Object {
			switch st.Entry {
			case "stream":
				code, _ := slip.ReadStream(&c02Chunker{data: data, cuts: st.Cuts, eofWith: st.EOFWith}, s)
				objs = show(code)
			case "stream-one":
				code, p := slip.ReadStream(&c02Chunker{data: data, cuts: st.Cuts, eofWith: st.EOFWith}, s, true)
				objs = show(code)
				if len(code) > 0 {
					pos = append(pos, p)
				}
			case "readone":
				off := 0
				for off < len(data) {
					code, p := slip.ReadOne(data[off:], s)
					if len(code) == 0 {
						break
					}
					objs = append(objs, show(code)...)
					off += p
					pos = append(pos, off)
					if p == 0 {
						break
					}
				}
			case "rfs":
				// cl:read-from-string, one form at a time on what is left of the text
				runes := []rune(st.Text)
				off := 0
				for off < len(runes) {
					s.Let(slip.Symbol("vtext"), slip.String(string(runes[off:])))
					// the form is built as data: reading it from text would happen under the altered *read-base*
					v := s.Eval(slip.List{slip.Symbol("multiple-value-list"), slip.List{slip.Symbol("read-from-string"),
						slip.Symbol("vtext"), nil, slip.List{slip.Symbol("quote"), slip.Symbol("v-eof")}}}, 0)
					l, _ := v.(slip.List)
					if len(l) != 2 || l[0] == slip.Symbol("v-eof") {
						break
					}
					p := int(l[1].(slip.Fixnum))
					objs = append(objs, slip.ObjectString(l[0]))
					pos = append(pos, off+p)
					if p <= 0 {
						break
					}
					off += p
				}
			case "clseek":
				// cl:read on a seekable string stream (one form)
				s.Let(slip.Symbol("vstream"), slip.NewStringStream(data))
				v := s.Eval(slip.List{slip.Symbol("read"), slip.Symbol("vstream"), nil,
					slip.List{slip.Symbol("quote"), slip.Symbol("v-eof")}}, 0)
				if v != slip.Symbol("v-eof") {
					objs = append(objs, slip.ObjectString(v))
				}
			case "clread":
				// cl:read on an input stream that hands over the bytes in the requested pieces (one form)
				s.Let(slip.Symbol("vstream"), slip.NewInputStream(&c02Chunker{data: data, cuts: st.Cuts, eofWith: st.EOFWith}))
				v := s.Eval(slip.List{slip.Symbol("read"), slip.Symbol("vstream"), nil,
					slip.List{slip.Symbol("quote"), slip.Symbol("v-eof")}}, 0)
				if v != slip.Symbol("v-eof") {
					objs = append(objs, slip.ObjectString(v))
				}
			case "push":
				ch := make(chan slip.Object, 1000)
				slip.ReadStreamPush(&c02Chunker{data: data, cuts: st.Cuts, eofWith: st.EOFWith}, s, ch)
				close(ch)
				for x := range ch {
					objs = append(objs, slip.ObjectString(x))
				}
			case "each":
				f := &c02Each{got: &objs}
				f.Self = f
				slip.ReadStreamEach(&c02Chunker{data: data, cuts: st.Cuts, eofWith: st.EOFWith}, s, f)
			case "each-eval":
				// read-each with a consumer that evaluates every form as it arrives (a form may set *read-base* or the float
				// format): what the rest of the text is read as does not depend on where the pieces of the stream end
				f := &c02EachEval{got: &objs}
				f.Self = f
				func() {
					defer func() {
						s0.Set(slip.Symbol("*read-base*"), slip.Fixnum(10))
						s0.Set(slip.Symbol("*read-default-float-format*"), slip.Symbol("double-float"))
					}()
					slip.ReadStreamEach(&c02Chunker{data: data, cuts: st.Cuts, eofWith: st.EOFWith}, s0, f)
				}()
			default:
				panic("unknown entry " + st.Entry)
			}
			return nil
		})
		if st.Entry == "stream-one" || st.Entry == "readone" {
			// these report byte offsets; the specification counts code points
			for i, p := range pos {
				if p < 0 || p > len(data) || (p < len(data) && !utf8.RuneStart(data[p])) {
					pos[i] = -1
				} else {
					pos[i] = utf8.RuneCount(data[:p])
				}
			}
		}
		status := c02Status(o)
		out.Emit(h.V{"t": st.ID, "text": h.CodePoints(st.Text), "cuts": st.Cuts, "entry": st.Entry,
			"objs": objs, "objs0": objs0, "full": objsFull, "trunc": st.Full != "", "status": status, "status0": c02Status(o0), "pos": pos,
			"base": st.Base, "ffmt": st.FFmt, "eofwith": st.EOFWith,
			"msg": fmt.Sprintf("%.80s", o.Msg)})
	})
}
