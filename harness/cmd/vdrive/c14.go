package main

import (
	"encoding/json"
	"fmt"
	"strings"

	"github.com/ohler55/slip"

	"verifharness/internal/h"
)

// C14: sequence function calls. Stimulus = one row dumped by SeqFuns.tla:
//
//	{"id":1,"s":[1,1,0],"item":1,"st":0,"en":3,"fe":false,"cnt":-1,"key":"id","test":"eql"}
//
// Event: {"t":1,"res":{"list":{"find":"1","position":"0",...},"vector":{...},"string":{...}}} (printed results)
func init() { drivers["c14"] = c14 }

type c14Case struct {
	ID   int    `json:"id"`
	S    []int  `json:"s"`
	Item int    `json:"item"`
	St   int    `json:"st"`
	En   int    `json:"en"`
	Fe   bool   `json:"fe"`
	Cnt  int    `json:"cnt"`
	Key  string `json:"key"`
	Test string `json:"test"`
}

var c14Chars = []string{"a", "b", "c", "d", "e", "f", "g", "h", "i", "j"}

func c14Elem(kind string, x int) string {
	if kind == "string" {
		return "#\\" + c14Chars[x]
	}
	return fmt.Sprint(x)
}

func c14Lit(kind string, v []int) string {
	parts := make([]string, len(v))
	for i, x := range v {
		if kind == "string" {
			parts[i] = c14Chars[x]
		} else {
			parts[i] = fmt.Sprint(x)
		}
	}
	switch kind {
	case "list":
		if len(parts) == 0 {
			return "nil"
		}
		return "(list " + strings.Join(parts, " ") + ")"
	case "vector":
		return "(vector " + strings.Join(parts, " ") + ")"
	}
	return "\"" + strings.Join(parts, "") + "\""
}

func c14(args []string) {
	out := h.NewOut()
	defer out.Flush()
	s := slip.NewScope()
	show := func(o h.Outcome) string {
		if !o.OK() {
			return "ERR:" + o.Class
		}
		return slip.ObjectString(o.Val)
	}
	h.Lines(func(line []byte) {
		var c c14Case
		if err := json.Unmarshal(line, &c); err != nil {
			panic(err)
		}
		res := h.V{}
		for _, kind := range []string{"list", "vector", "string"} {
			if kind == "string" && (c.Key != "id" || c.Test != "eql") {
				continue
			}
			kw := fmt.Sprintf(" :start %d :end %d", c.St, c.En)
			if c.Fe {
				kw += " :from-end t"
			}
			if c.Key == "inc" {
				kw += " :key #'1+"
			}
			if c.Test == "lt" {
				kw += " :test #'<"
			}
			kwc := kw
			if c.Cnt >= 0 {
				kwc += fmt.Sprintf(" :count %d", c.Cnt)
			}
			item, lit := c14Elem(kind, c.Item), c14Lit(kind, c.S)
			res[kind] = h.V{
				"find":       show(h.Eval(s, fmt.Sprintf("(find %s %s%s)", item, lit, kw))),
				"position":   show(h.Eval(s, fmt.Sprintf("(position %s %s%s)", item, lit, kw))),
				"count":      show(h.Eval(s, fmt.Sprintf("(count %s %s%s)", item, lit, kw))),
				"remove":     show(h.Eval(s, fmt.Sprintf("(remove %s %s%s)", item, lit, kwc))),
				"substitute": show(h.Eval(s, fmt.Sprintf("(substitute %s %s %s%s)", c14Elem(kind, 9), item, lit, kwc))),
				"kw":         kwc,
			}
		}
		out.Emit(h.V{"t": c.ID, "res": res})
	})
}
