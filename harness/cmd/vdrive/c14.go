package main

import (
	"encoding/json"
	"fmt"
	"strings"

	"github.com/ohler55/slip"

	"verifharness/internal/h"
)

// C14: sequence function calls. Stimulus = one row printed by SeqFuns.tla:
//
//	{"id":1,"fn":"remove","a":[1,1,0],"b":[],"item":1,"kw":{"st":0,"en":3,"fe":false,"cnt":-1,"key":"id","test":"eql","st2":-1,"en2":-1}}
//
// The call is rendered for every sequence type the function applies to; the event carries the projected result
// (or the condition class) per type: {"t":1,"res":{"list":{"src":"(remove ...)","st":"","v":{...}}, ...}}
func init() { drivers["c14"] = c14 }

type c14KW struct {
	St   int    `json:"st"`
	En   int    `json:"en"`
	Fe   bool   `json:"fe"`
	Cnt  int    `json:"cnt"`
	Key  string `json:"key"`
	Test string `json:"test"`
	St2  int    `json:"st2"`
	En2  int    `json:"en2"`
}

type c14Row struct {
	ID   int    `json:"id"`
	Fn   string `json:"fn"`
	A    []int  `json:"a"`
	B    []int  `json:"b"`
	Item int    `json:"item"`
	KW   c14KW  `json:"kw"`
}

// element x as a character: b, c, d, ... (the parity of the code equals the parity of x)
func c14Ch(x int) string { return string(rune(98 + x)) }

func c14Elem(kind string, x int) string {
	if kind == "string" {
		return "#\\" + c14Ch(x)
	}
	return fmt.Sprint(x)
}

func c14Lit(kind string, v []int) string {
	parts := make([]string, len(v))
	for i, x := range v {
		if kind == "string" {
			parts[i] = c14Ch(x)
		} else {
			parts[i] = fmt.Sprint(x)
		}
	}
	switch kind {
	case "list":
		if len(parts) == 0 {
			return "nil"
		}
		return "(list " + strings.Join(parts, " ") + ")"
	case "vector":
		return "(vector " + strings.Join(parts, " ") + ")"
	}
	return "(copy-seq \"" + strings.Join(parts, "") + "\")"
}

var c14ListOnly = map[string]bool{"member": true, "assoc": true, "rassoc": true, "append": true, "union": true,
	"intersection": true, "set-difference": true, "subsetp": true}
var c14NoString = map[string]bool{"map1+": true, "map+": true, "reduce-": true, "sort": true, "stable-sort": true, "merge": true}

func c14Kinds(r *c14Row) []string {
	if c14ListOnly[r.Fn] {
		return []string{"list"}
	}
	if c14NoString[r.Fn] || r.KW.Key == "inc" {
		return []string{"list", "vector"}
	}
	return []string{"list", "vector", "string"}
}

func c14Call(kind string, r *c14Row) string {
	kw := r.KW
	a, b := "seq-a", "seq-b" // bound by c14 around the call
	item := c14Elem(kind, r.Item)
	ks := ""
	if kw.St >= 0 {
		ks += fmt.Sprintf(" :start %d", kw.St)
	}
	if kw.En >= 0 {
		ks += fmt.Sprintf(" :end %d", kw.En)
	}
	if kw.Fe {
		ks += " :from-end t"
	}
	if kw.Cnt >= 0 {
		ks += fmt.Sprintf(" :count %d", kw.Cnt)
	}
	if kw.Key == "inc" {
		ks += " :key #'1+"
	}
	switch kw.Test {
	case "lt", "nlt":
		name := map[string]string{"lt": ":test", "nlt": ":test-not"}[kw.Test]
		if kind == "string" {
			ks += " " + name + " #'char<"
		} else {
			ks += " " + name + " #'<"
		}
	case "neql":
		ks += " :test-not #'eql"
	}
	pred := "#'oddp"
	if kind == "string" {
		pred = "(lambda (c) (oddp (char-code c)))"
	}
	typ := map[string]string{"list": "'list", "vector": "'vector", "string": "'string"}[kind]
	sortKey := "#'< :key (lambda (x) (- x (mod x 10)))" // the tens; (floor x 10) would return two values
	base := strings.TrimSuffix(strings.TrimSuffix(r.Fn, "-if-not"), "-if")
	switch {
	case strings.HasSuffix(r.Fn, "-if") || strings.HasSuffix(r.Fn, "-if-not"):
		switch base {
		case "substitute":
			return fmt.Sprintf("(%s %s %s %s%s)", r.Fn, c14Elem(kind, 3), pred, a, ks)
		default:
			return fmt.Sprintf("(%s %s %s%s)", r.Fn, pred, a, ks)
		}
	}
	switch r.Fn {
	case "find", "position", "count", "remove", "delete":
		return fmt.Sprintf("(%s %s %s%s)", r.Fn, item, a, ks)
	case "substitute":
		return fmt.Sprintf("(substitute %s %s %s%s)", c14Elem(kind, 3), item, a, ks)
	case "remove-duplicates", "reverse", "nreverse", "length", "copy-seq", "subseq-":
		return fmt.Sprintf("(%s %s%s)", r.Fn, a, ks)
	case "subseq":
		if kw.En >= 0 {
			return fmt.Sprintf("(subseq %s %d %d)", a, kw.St, kw.En)
		}
		return fmt.Sprintf("(subseq %s %d)", a, kw.St)
	case "fill":
		return fmt.Sprintf("(fill %s %s%s)", a, item, ks)
	case "search", "mismatch", "replace":
		k2 := ""
		if kw.St >= 0 {
			k2 += fmt.Sprintf(" :start1 %d", kw.St)
		}
		if kw.En >= 0 {
			k2 += fmt.Sprintf(" :end1 %d", kw.En)
		}
		if kw.St2 >= 0 {
			k2 += fmt.Sprintf(" :start2 %d", kw.St2)
		}
		if kw.En2 >= 0 {
			k2 += fmt.Sprintf(" :end2 %d", kw.En2)
		}
		if kw.Fe {
			k2 += " :from-end t"
		}
		return fmt.Sprintf("(%s %s %s%s)", r.Fn, a, b, k2)
	case "every", "some", "notany", "notevery":
		return fmt.Sprintf("(%s %s %s)", r.Fn, pred, a)
	case "map1+":
		if kind == "list" {
			return fmt.Sprintf("(mapcar #'1+ %s)", a)
		}
		return fmt.Sprintf("(map %s #'1+ %s)", typ, a)
	case "map+":
		if kind == "list" {
			return fmt.Sprintf("(mapcar #'+ %s %s)", a, b)
		}
		return fmt.Sprintf("(map %s #'+ %s %s)", typ, a, b)
	case "reduce-":
		fe := ""
		if kw.Fe {
			fe = " :from-end t"
		}
		if kw.St >= 0 {
			fe += fmt.Sprintf(" :start %d", kw.St)
		}
		if kw.En >= 0 {
			fe += fmt.Sprintf(" :end %d", kw.En)
		}
		if kw.Key == "inc" {
			fe += " :key #'1+"
		}
		return fmt.Sprintf("(reduce #'- %s :initial-value %d%s)", a, r.Item, fe)
	case "concatenate":
		return fmt.Sprintf("(concatenate %s %s %s)", typ, a, b)
	case "append", "union", "intersection", "set-difference", "subsetp":
		return fmt.Sprintf("(%s %s %s%s)", r.Fn, a, b, ks)
	case "member":
		return fmt.Sprintf("(member %s %s%s)", item, a, ks)
	case "assoc", "rassoc":
		pairs := make([]string, len(r.A))
		for i, e := range r.A {
			if r.Fn == "assoc" {
				pairs[i] = fmt.Sprintf("(cons %d %d)", e, i)
			} else {
				pairs[i] = fmt.Sprintf("(cons %d %d)", i, e)
			}
		}
		alist := "nil"
		if len(pairs) > 0 {
			alist = "(list " + strings.Join(pairs, " ") + ")"
		}
		if r.Fn == "assoc" {
			return fmt.Sprintf("(cdr (assoc %s %s%s))", item, alist, ks)
		}
		return fmt.Sprintf("(car (rassoc %s %s%s))", item, alist, ks)
	case "sort", "stable-sort":
		return fmt.Sprintf("(%s %s %s)", r.Fn, a, sortKey)
	case "merge":
		return fmt.Sprintf("(merge %s %s %s %s)", typ, a, b, sortKey)
	}
	panic("unknown function " + r.Fn)
}

func c14(args []string) {
	out := h.NewOut()
	defer out.Flush()
	s := slip.NewScope()
	h.Lines(func(line []byte) {
		var r c14Row
		if err := json.Unmarshal(line, &r); err != nil {
			panic(err)
		}
		res := h.V{}
		for _, kind := range c14Kinds(&r) {
			// the call with its sequences bound to variables; they are looked at again after the call
			call := c14Call(kind, &r)
			src := fmt.Sprintf("(let ((seq-a %s) (seq-b %s)) (list %s seq-a seq-b))", c14Lit(kind, r.A), c14Lit(kind, r.B), call)
			if r.Fn == "assoc" || r.Fn == "rassoc" {
				src = fmt.Sprintf("(list %s nil nil)", call) // the association list is built inside the call
			}
			o := h.Eval(s, src)
			show := strings.NewReplacer("seq-a", c14Lit(kind, r.A), "seq-b", c14Lit(kind, r.B)).Replace(call)
			cell := h.V{"src": show, "st": o.Class, "fault": o.Fault(), "msg": fmt.Sprintf("%.100s", o.Msg)}
			if l, ok := o.Val.(slip.List); ok && o.OK() && len(l) == 3 {
				cell["v"] = h.Project(l[0])
				cell["a"] = h.Project(l[1])
				cell["b"] = h.Project(l[2])
			} else if o.OK() {
				cell["st"], cell["msg"] = "harness", "the wrapper did not return three objects"
			}
			// the same call once more from inside a function whose predicate, the first time it is called, enters the same
			// form again (another sequence, the whole of it): what the outer call returns is a function of its own arguments
			isIf := strings.HasSuffix(r.Fn, "-if") || strings.HasSuffix(r.Fn, "-if-not")
			if isIf && !strings.HasPrefix(r.Fn, "delete") && (r.KW.St >= 0 || r.KW.En >= 0) && r.ID%5 == 0 && o.OK() {
				pred := "#'oddp"
				if kind == "string" {
					pred = "(lambda (c) (oddp (char-code c)))"
				}
				name := fmt.Sprintf("vre-%d-%s", r.ID, kind)
				callp := call
				st, en := "0", "nil"
				if r.KW.St >= 0 {
					callp = strings.Replace(callp, fmt.Sprintf(" :start %d", r.KW.St), " :start vst", 1)
					st = fmt.Sprint(r.KW.St)
				}
				if r.KW.En >= 0 {
					callp = strings.Replace(callp, fmt.Sprintf(" :end %d", r.KW.En), " :end ven", 1)
					en = fmt.Sprint(r.KW.En)
				}
				callp = strings.Replace(callp, " "+pred+" ", fmt.Sprintf(" (lambda (c) (when vdeep (setq vdeep nil) (%s (reverse seq-a) seq-b 0 (length seq-a) nil)) (funcall %s c)) ", name, pred), 1)
				if callp != call && strings.Contains(callp, "vdeep") {
					h.Eval(s, fmt.Sprintf("(defun %s (seq-a seq-b vst ven vdeep) %s)", name, callp))
					o2 := h.Eval(s, fmt.Sprintf("(let ((seq-a %s) (seq-b %s)) (%s seq-a seq-b %s %s t))", c14Lit(kind, r.A), c14Lit(kind, r.B), name, st, en))
					if o2.OK() {
						cell["re"] = h.Project(o2.Val)
					} else {
						cell["re"] = h.V{"k": "error", "v": o2.Class}
					}
					h.Eval(s, fmt.Sprintf("(fmakunbound '%s)", name))
				}
			}
			res[kind] = cell
		}
		out.Emit(h.V{"t": r.ID, "res": res})
	})
}
