package main

import (
	"encoding/json"
	"fmt"
	"strings"

	"github.com/ohler55/slip"

	"verifharness/internal/h"
)

// C12: defclass histories (forward references, redefinition, instances made in between). Stimulus:
//
//	{"id":3,"ops":[{"op":"defclass","c":"ca","supers":["cb"],"cfg":"sf"},{"op":"make","c":"ca"}],"classes":["ca"]}
//
// One event per stimulus with, per class: precedence (or not ready), the slots of a fresh instance made
// without and with the initarg :s 77, the reader, class-of and typep against every other class.
func init() { drivers["c12"] = c12 }

type c12Op struct {
	Op     string   `json:"op"`
	C      string   `json:"c"`
	Supers []string `json:"supers"`
	Cfg    string   `json:"cfg"`
}

type c12Stim struct {
	ID      int      `json:"id"`
	Ops     []c12Op  `json:"ops"`
	Classes []string `json:"classes"`
}

var c12Idx = map[string]int{"ca": 1, "cb": 2, "cc": 3, "cd": 4, "ce": 5, "cf": 6}

func c12(args []string) {
	out := h.NewOut()
	defer out.Flush()
	s := slip.NewScope()
	h.Lines(func(line []byte) {
		var st c12Stim
		if err := json.Unmarshal(line, &st); err != nil {
			panic(err)
		}
		real := func(c string) string { return fmt.Sprintf("%s-%d", c, st.ID) }
		strip := strings.NewReplacer(fmt.Sprintf("-%d", st.ID), "")
		reader := fmt.Sprintf("s-of-%d", st.ID)
		defs := []string{}
		for _, op := range st.Ops {
			if op.Op == "defmeth" {
				// a method on the class, of a message and of a generic function of this stimulus
				o1 := h.Eval(s, fmt.Sprintf("(defmethod (%s :who) () '%s)", real(op.C), real(op.C)))
				o2 := h.Eval(s, fmt.Sprintf("(defmethod whog-%d ((x %s)) '%s)", st.ID, real(op.C), real(op.C)))
				defs = append(defs, o1.Class+o2.Class)
				continue
			}
			if op.Op == "make" {
				o := h.Eval(s, fmt.Sprintf("(make-instance '%s)", real(op.C)))
				defs = append(defs, o.Class)
				continue
			}
			sup := make([]string, len(op.Supers))
			for i, x := range op.Supers {
				sup[i] = real(x)
			}
			n := c12Idx[op.C]
			slots := ""
			switch op.Cfg {
			case "s":
				slots = fmt.Sprintf("(s :initarg :s :reader %s)", reader)
			case "sf":
				slots = fmt.Sprintf("(s :initarg :s :initform %d :reader %s)", n, reader)
			case "u":
				slots = "(u :initarg :u)"
			case "us":
				slots = "(u :initarg :s)"
			case "sfuf":
				slots = fmt.Sprintf("(s :initarg :s :initform %d :reader %s) (u :initarg :u :initform %d)", n, reader, 10+n)
			}
			o := h.Eval(s, fmt.Sprintf("(defclass %s (%s) (%s))", real(op.C), strings.Join(sup, " "), slots))
			defs = append(defs, o.Class)
		}
		obs := h.V{}
		for _, c := range st.Classes {
			cell := h.V{"prec": []string{}, "ready": false}
			if po := h.Eval(s, fmt.Sprintf("(class-precedence '%s)", real(c))); po.OK() {
				if l, ok := po.Val.(slip.List); ok && len(l) > 0 {
					prec := []string{}
					for _, e := range l {
						name := strip.Replace(slip.ObjectString(e))
						if name == "standard-object" || name == "t" {
							continue
						}
						prec = append(prec, name)
					}
					cell["prec"], cell["ready"] = prec, true
				}
			}
			// slots of a fresh instance: 0 no such slot, -1 unbound, else the value; "error:<class>" when make-instance fails
			slotsOf := func(initargs string) any {
				o := h.Eval(s, fmt.Sprintf("(let ((i (make-instance '%s%s))) (list "+
					"(if (slot-exists-p i 's) (if (slot-boundp i 's) (slot-value i 's) -1) 0) "+
					"(if (slot-exists-p i 'u) (if (slot-boundp i 'u) (slot-value i 'u) -1) 0)))", real(c), initargs))
				if !o.OK() {
					return "error:" + o.Class
				}
				return h.Project(o.Val)["v"]
			}
			cell["plain"] = slotsOf("")
			cell["arg"] = slotsOf(" :s 77")
			if o := h.Eval(s, fmt.Sprintf("(%s (make-instance '%s :s 77))", reader, real(c))); o.OK() {
				cell["reader"] = slip.ObjectString(o.Val)
			} else {
				cell["reader"] = "error:" + o.Class
			}
			if o := h.Eval(s, fmt.Sprintf("(class-name (class-of (make-instance '%s)))", real(c))); o.OK() {
				cell["classof"] = strip.Replace(slip.ObjectString(o.Val))
			} else {
				cell["classof"] = "error:" + o.Class
			}
			for key, form := range map[string]string{"who": "(send (make-instance '%s) :who)", "whog": fmt.Sprintf("(whog-%d (make-instance '%%s))", st.ID)} {
				if o := h.Eval(s, fmt.Sprintf(form, real(c))); o.OK() {
					cell[key] = strip.Replace(slip.ObjectString(o.Val))
				} else {
					cell[key] = "none"
				}
			}
			isa := []string{}
			for _, d := range st.Classes {
				if o := h.Eval(s, fmt.Sprintf("(typep (make-instance '%s) '%s)", real(c), real(d))); o.OK() && o.Val != nil {
					isa = append(isa, d)
				}
			}
			cell["isa"] = isa
			obs[c] = cell
		}
		out.Emit(h.V{"t": st.ID, "defs": defs, "obs": obs})
	})
}
