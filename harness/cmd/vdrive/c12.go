package main

import (
	"encoding/json"
	"fmt"
	"strings"

	"github.com/ohler55/slip"

	"verifharness/internal/h"
)

// C12: defclass histories (forward references, redefinition). Stimulus:
//
//	{"id":3,"ops":[{"c":"ca","supers":["cb"],"slot":2}],"classes":["ca"]}
//
// One event per stimulus with, per class: precedence (or "notready"), the slot of a
// fresh instance made without and with the initarg.
func init() { drivers["c12"] = c12 }

type c12Op struct {
	C      string   `json:"c"`
	Supers []string `json:"supers"`
	Slot   int      `json:"slot"`
}

type c12Stim struct {
	ID      int      `json:"id"`
	Ops     []c12Op  `json:"ops"`
	Classes []string `json:"classes"`
}

var c12Idx = map[string]int{"ca": 1, "cb": 2, "cc": 3, "cd": 4, "ce": 5}

func c12(args []string) {
	out := h.NewOut()
	defer out.Flush()
	s := slip.NewScope()
	h.Lines(func(line []byte) {
		var st c12Stim
		if err := json.Unmarshal(line, &st); err != nil {
			panic(err)
		}
		real := func(c string) string { return fmt.Sprintf("%s-%d", c, st.ID) }
		strip := strings.NewReplacer(fmt.Sprintf("-%d", st.ID), "")
		defs := []string{}
		for _, op := range st.Ops {
			sup := make([]string, len(op.Supers))
			for i, x := range op.Supers {
				sup[i] = real(x)
			}
			slot := ""
			switch op.Slot {
			case 1:
				slot = "(s :initarg :s)"
			case 2:
				slot = fmt.Sprintf("(s :initarg :s :initform %d)", c12Idx[op.C])
			}
			o := h.Eval(s, fmt.Sprintf("(defclass %s (%s) (%s))", real(op.C), strings.Join(sup, " "), slot))
			defs = append(defs, o.Class)
		}
		obs := h.V{}
		for _, c := range st.Classes {
			cell := h.V{"prec": []string{}, "ready": false, "slot": "", "slotarg": ""}
			if po := h.Eval(s, fmt.Sprintf("(class-precedence '%s)", real(c))); po.OK() {
				if l, ok := po.Val.(slip.List); ok && len(l) > 0 {
					prec := []string{}
					for _, e := range l {
						name := strip.Replace(slip.ObjectString(e))
						if name == "standard-object" || name == "t" {
							continue
						}
						prec = append(prec, name)
					}
					cell["prec"], cell["ready"] = prec, true
				}
			}
			slotOf := func(initargs string) string {
				o := h.Eval(s, fmt.Sprintf("(let ((i (make-instance '%s%s))) (if (slot-boundp i 's) (slot-value i 's) 'unbound))", real(c), initargs))
				if !o.OK() {
					return "error:" + o.Class
				}
				return slip.ObjectString(o.Val)
			}
			cell["slot"] = slotOf("")
			cell["slotarg"] = slotOf(" :s 77")
			obs[c] = cell
		}
		out.Emit(h.V{"t": st.ID, "defs": defs, "obs": obs})
	})
}
