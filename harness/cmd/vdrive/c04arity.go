package main

import (
	"fmt"
	"os"
	"sort"
	"strings"
	"time"

	"github.com/ohler55/slip"

	"verifharness/internal/h"
)

// C04 (arity half): calls every function of the registry with n = 0..max+2 inert
// arguments and reports how the call ended. The documented lambda list travels with
// the event; the acceptor computes the arity relation from it.
//
// usage: vdrive c04arity [<shard> <nshards> [skip,skip,...]]
func init() { drivers["c04arity"] = c04arity }

// functions that exit, block, sleep, or touch the terminal / network / file system even
// when called with integers: never called (reason after the name)
var c04Deny = map[string]string{
	"quit": "exits", "exit": "exits", "sleep": "sleeps", "break": "debugger", "invoke-debugger": "debugger",
	"loop": "blocks with no clauses", "signal-wait": "blocks", "run": "starts a goroutine", "make-app": "removes $TMPDIR/scratch",
	"repl": "terminal", "y-or-n-p": "reads the terminal", "yes-or-no-p": "reads the terminal", "swank-server": "network", "create-server": "network", "start-server": "network", "setup-server": "network",
	"restart-server": "network", "stop-server": "network", "swank-stop": "network",
}

func c04arity(args []string) {
	shard, nshards := 0, 1
	if len(args) >= 2 {
		fmt.Sscan(args[0], &shard)
		fmt.Sscan(args[1], &nshards)
	}
	skip := map[string]bool{}
	if len(args) >= 3 {
		for _, n := range strings.Split(args[2], ",") {
			skip[n] = true
		}
	}
	out := h.NewOut()
	defer out.Flush()
	var fis []*slip.FuncInfo
	seen := map[*slip.FuncInfo]bool{}
	for _, p := range slip.AllPackages() {
		var local []*slip.FuncInfo
		p.EachFuncInfo(func(fi *slip.FuncInfo) {
			if !seen[fi] && fi.Pkg == p {
				seen[fi] = true
				local = append(local, fi)
			}
		})
		fis = append(fis, local...)
	}
	sort.Slice(fis, func(i, j int) bool { return fis[i].Pkg.Name+":"+fis[i].Name < fis[j].Pkg.Name+":"+fis[j].Name })
	current := ""
	go func() { // watchdog: a call that does not return within 5 s is reported and the worker exits
		last, since := "", time.Now()
		for {
			time.Sleep(500 * time.Millisecond)
			if current != last {
				last, since = current, time.Now()
			} else if current != "" && time.Since(since) > 5*time.Second {
				out.Emit(h.V{"fn": current[:strings.LastIndex(current, "/")], "ll": []string{}, "n": 0, "out": "timeout", "hang": true})
				out.Flush()
				os.Exit(3)
			}
		}
	}()
	for i, fi := range fis {
		if i%nshards != shard || fi.Doc == nil {
			continue
		}
		if _, denied := c04Deny[fi.Name]; denied || skip[fi.Pkg.Name+":"+fi.Name] {
			continue
		}
		ll := make([]string, len(fi.Doc.Args))
		req, opt, keys, open := 0, 0, 0, false
		mode := 0
		for j, a := range fi.Doc.Args {
			ll[j] = strings.ToLower(a.Name)
			switch ll[j] {
			case "&optional":
				mode = 1
			case "&rest", "&body", "&allow-other-keys":
				open = true
			case "&key":
				mode = 2
			case "&aux":
				mode = 3
			default:
				switch mode {
				case 0:
					req++
				case 1:
					opt++
				case 2:
					keys++
				}
			}
		}
		top := req + opt + 2*keys + 2
		if open {
			top = req + opt + 3
		}
		for n := 0; n <= top; n++ {
			current = fmt.Sprintf("%s:%s/%d", fi.Pkg.Name, fi.Name, n)
			as := c04Args(fi, n, req+opt)
			o := h.Try(func() slip.Object {
				f := fi.Create(as).(slip.Funky)
				return f.Caller().Call(slip.NewScope(), as, 0)
			})
			res := "value"
			switch {
			case o.OK():
			case o.Fault():
				res = "fault"
			case strings.Contains(o.Msg, "Too few arguments") || strings.Contains(o.Msg, "Too many arguments"):
				res = "argcount"
			default:
				res = "error"
			}
			out.Emit(h.V{"fn": fi.Pkg.Name + ":" + fi.Name, "ll": ll, "n": n, "out": res, "kind": string(fi.Kind), "via": "form"})
			// the same call the way funcall / apply / mapcar make it: the function object is created without the arguments of
			// a form and is handed the arguments when it is called
			as2 := c04Args(fi, n, req+opt)
			o2 := h.Try(func() slip.Object {
				return fi.Create(nil).(slip.Funky).Caller().Call(slip.NewScope(), as2, 0)
			})
			res2 := "value"
			switch {
			case o2.OK():
			case o2.Fault():
				res2 = "fault"
			case strings.Contains(o2.Msg, "Too few arguments") || strings.Contains(o2.Msg, "Too many arguments"):
				res2 = "argcount"
			default:
				res2 = "error"
			}
			out.Emit(h.V{"fn": fi.Pkg.Name + ":" + fi.Name, "ll": ll, "n": n, "out": res2, "kind": string(fi.Kind), "via": "funcall"})
		}
		current = ""
	}
}

// c04Typed returns an inert argument of the documented type so that a call gets past the type checks as far
// as possible and the count check is what decides.
func c04Typed(typ string) slip.Object {
	t := strings.ToLower(typ)
	switch {
	case strings.Contains(t, "vector") || strings.Contains(t, "array"):
		// adjustable and with a fill pointer so that vector-push and friends get past their type checks
		if o := h.Eval(slip.NewScope(), "(make-array 4 :fill-pointer 2 :adjustable t :initial-element 1)"); o.OK() {
			return o.Val
		}
		return slip.NewVector(2, slip.TrueSymbol, nil, slip.List{slip.Fixnum(1), slip.Fixnum(2)}, true)
	case strings.Contains(t, "list") || strings.Contains(t, "sequence") || strings.Contains(t, "cons") || strings.Contains(t, "tree"):
		return slip.List{slip.Fixnum(1), slip.Fixnum(2)}
	case strings.Contains(t, "string") || strings.Contains(t, "pathname"):
		return slip.String("abc")
	case strings.Contains(t, "character"):
		return slip.Character('a')
	case strings.Contains(t, "symbol"):
		return slip.Symbol("vsym")
	case strings.Contains(t, "function") || strings.Contains(t, "predicate"):
		return slip.Symbol("car")
	case strings.Contains(t, "float"):
		return slip.DoubleFloat(1.5)
	case strings.Contains(t, "boolean"):
		return slip.True
	}
	return slip.Fixnum(1)
}

// c04Args builds n arguments for the function: typed positionals, then keyword/value pairs for &key parameters
// (a dangling keyword when the count is odd), fixnums for anything beyond.
func c04Args(fi *slip.FuncInfo, n, positional int) slip.List {
	var pos, keys []*slip.DocArg
	mode := 0
	for _, a := range fi.Doc.Args {
		switch strings.ToLower(a.Name) {
		case "&optional":
			mode = 1
		case "&rest", "&body":
			mode = 4
		case "&key":
			mode = 2
		case "&aux":
			mode = 3
		case "&allow-other-keys":
		default:
			switch mode {
			case 0, 1:
				pos = append(pos, a)
			case 2:
				keys = append(keys, a)
			}
		}
	}
	as := make(slip.List, 0, n)
	for k := 0; k < n; k++ {
		switch {
		case k < len(pos):
			as = append(as, c04Typed(pos[k].Type))
		case len(keys) > 0:
			j := k - len(pos)
			key := keys[(j/2)%len(keys)]
			if j%2 == 0 {
				as = append(as, slip.Symbol(":"+strings.ToLower(key.Name)))
			} else {
				as = append(as, c04Typed(key.Type))
			}
		default:
			as = append(as, slip.Fixnum(1))
		}
	}
	return as
}
