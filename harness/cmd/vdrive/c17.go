package main

import (
	"encoding/json"
	"fmt"
	"strings"
	"time"

	"github.com/ohler55/slip"

	"verifharness/internal/h"
)

// C17: replay of a schedule printed by Conc.tla. Stimulus:
//
//	{"id":1,"nprod":1,"ncons":1,"items":2,"incs":1,"cap":1,"sched":[[1,1],[2,2],...]}
//
// Every operation of every routine waits at a gate (vgate p) and reports its completion (vdone p op value). A step
// [p, n] opens the gate of routine p and collects the completions that follow: n are expected (0: the operation
// must block), the harness waits for them and a little longer for completions nobody expects.
// Event: {"id","sched","steps":[{"p":1,"done":[{"p":1,"op":"push","v":[]}]}, ...],"final":{"x":2,"free":true,"ended":2}}
func init() { drivers["c17"] = c17 }

type c17Stim struct {
	ID    int     `json:"id"`
	NProd int     `json:"nprod"`
	NCons int     `json:"ncons"`
	Items int     `json:"items"`
	Incs  int     `json:"incs"`
	Cap   int     `json:"cap"`
	Sel   bool    `json:"sel"`
	Sched [][]int `json:"sched"`
}

type c17Done struct {
	P  int    `json:"p"`
	Op string `json:"op"`
	V  []int  `json:"v"`
}

var (
	c17Gates []chan struct{}
	c17Dones chan c17Done
)

func c17Program(st *c17Stim, p int) string {
	var b strings.Builder
	// no binding form around the routine: it runs directly in the scope it shares with the others
	b.WriteString("(run (progn ")
	if p <= st.NProd {
		for i := 1; i <= st.Items; i++ {
			fmt.Fprintf(&b, "(vgate %d) (channel-push ch (list %d %d)) (vdone %d 'push nil) ", p, p, i, p)
		}
	} else {
		for i := 0; i < st.NProd*st.Items/st.NCons; i++ {
			if st.Sel {
				// the value is used one gate after it was received
				fmt.Fprintf(&b, "(vgate %d) (select (ch v (vdone %d 'pop nil) (vgate %d) (vdone %d 'use v))) ", p, p, p, p)
			} else {
				fmt.Fprintf(&b, "(vgate %d) (let ((v (channel-pop ch))) (vdone %d 'pop v)) ", p, p)
			}
		}
	}
	for i := 1; i <= st.Incs; i++ {
		exit := []string{"nil", `(error "leaving the lock by an error")`, "(return-from blk nil)"}[(p+i)%3]
		fmt.Fprintf(&b, "(vgate %d) (ignore-errors (block blk (with-mutex-lock mu (vdone %d 'lock nil) "+
			"(vgate %d) (setq tmp%d xcnt) (vdone %d 'read (list tmp%d)) "+
			"(vgate %d) (setq xcnt (+ tmp%d 1)) (vdone %d 'write (list xcnt)) "+
			"(vgate %d) %s))) (vdone %d 'unlock nil) ", p, p, p, p, p, p, p, p, p, p, exit, p)
	}
	fmt.Fprintf(&b, "(vdone %d 'end nil)))", p)
	return b.String()
}

func c17(args []string) {
	out := h.NewOut()
	defer out.Flush()
	h.Define("vgate", func(s *slip.Scope, a slip.List, depth int) slip.Object {
		<-c17Gates[int(a[0].(slip.Fixnum))]
		return nil
	})
	h.Define("vdone", func(s *slip.Scope, a slip.List, depth int) slip.Object {
		d := c17Done{P: int(a[0].(slip.Fixnum)), Op: string(a[1].(slip.Symbol)), V: []int{}}
		if l, ok := a[2].(slip.List); ok {
			for _, e := range l {
				if f, isf := e.(slip.Fixnum); isf {
					d.V = append(d.V, int(f))
				}
			}
		}
		c17Dones <- d
		return nil
	})
	h.Lines(func(line []byte) {
		var st c17Stim
		if err := json.Unmarshal(line, &st); err != nil {
			panic(err)
		}
		n := st.NProd + st.NCons
		c17Gates = make([]chan struct{}, n+1)
		for i := range c17Gates {
			c17Gates[i] = make(chan struct{})
		}
		c17Dones = make(chan c17Done, 1000)
		s := slip.NewScope()
		if o := h.Eval(s, fmt.Sprintf("(setq ch (make-channel %d)) (setq mu (make-mutex)) (setq xcnt 0)", st.Cap)); !o.OK() {
			panic(o.Msg)
		}
		for p := 1; p <= n; p++ {
			if o := h.Eval(s, c17Program(&st, p)); !o.OK() {
				panic(o.Msg)
			}
		}
		ended := 0
		steps := []h.V{}
		collect := func(expect int) []c17Done {
			got := []c17Done{}
			deadline := time.After(3 * time.Second)
			for len(got) < expect {
				select {
				case d := <-c17Dones:
					if d.Op == "end" {
						ended++
						continue
					}
					got = append(got, d)
				case <-deadline:
					return got
				}
			}
			// completions nobody expects: a short wait (longer when the operation is expected to block)
			grace := 2 * time.Millisecond
			if expect == 0 {
				grace = 15 * time.Millisecond
			}
			quiet := time.After(grace)
			for {
				select {
				case d := <-c17Dones:
					if d.Op == "end" {
						ended++
						continue
					}
					got = append(got, d)
				case <-quiet:
					return got
				}
			}
		}
		stuck := false
		for _, stp := range st.Sched {
			p, expect := stp[0], stp[1]
			select {
			case c17Gates[p] <- struct{}{}:
			case <-time.After(3 * time.Second):
				stuck = true // the routine is not at its gate
			}
			steps = append(steps, h.V{"p": p, "done": collect(expect)})
			if stuck {
				break
			}
		}
		// the routines end after their last operation
		for deadline := time.After(2 * time.Second); ended < n && !stuck; {
			select {
			case d := <-c17Dones:
				if d.Op == "end" {
					ended++
				}
			case <-deadline:
				stuck = true
			}
		}
		final := h.V{"x": -1, "free": false, "ended": ended}
		if o := h.Eval(s, "xcnt"); o.OK() {
			if f, ok := o.Val.(slip.Fixnum); ok {
				final["x"] = int(f)
			}
		}
		free := make(chan bool, 1)
		go func() { free <- h.Eval(s, "(with-mutex-lock mu t)").OK() }()
		select {
		case ok := <-free:
			final["free"] = ok
		case <-time.After(time.Second):
		}
		out.Emit(h.V{"id": st.ID, "sched": st.Sched, "steps": steps, "final": final, "stuck": stuck})
	})
}
