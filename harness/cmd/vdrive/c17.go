package main

import (
	"encoding/json"
	"fmt"
	"time"

	"github.com/ohler55/slip"

	"verifharness/internal/h"
)

// C17: producers / consumers over one channel. Stimulus:
//
//	{"id":1,"producers":3,"consumers":2,"items":20,"cap":2}
//
// Events (one run = one trace): {"t","seq","ph":"inv"|"res","id":op id,"op":"push"|"pop","v":[producer,index] or []}
// logged by (vlog ...) under the harness mutex, i.e. inside the real-time interval of each operation.
func init() { drivers["c17"] = c17 }

type c17Stim struct {
	ID        int `json:"id"`
	Producers int `json:"producers"`
	Consumers int `json:"consumers"`
	Items     int `json:"items"`
	Cap       int `json:"cap"`
}

func c17(args []string) {
	out := h.NewOut()
	defer out.Flush()
	cur := 0
	h.Define("vlog", func(s *slip.Scope, a slip.List, depth int) slip.Object {
		ev := h.V{"t": cur, "ph": string(a[0].(slip.Symbol)), "id": int(a[1].(slip.Fixnum)), "op": string(a[2].(slip.Symbol)), "v": []int{}}
		if 3 < len(a) {
			if l, ok := a[3].(slip.List); ok && len(l) == 2 {
				ev["v"] = []int{int(l[0].(slip.Fixnum)), int(l[1].(slip.Fixnum))}
			}
		}
		out.Emit(ev)
		return nil
	})
	s := slip.NewScope()
	h.Lines(func(line []byte) {
		var st c17Stim
		if err := json.Unmarshal(line, &st); err != nil {
			panic(err)
		}
		cur = st.ID
		h.Eval(s, fmt.Sprintf("(setq ch (make-channel %d)) (setq done (make-channel 100))", st.Cap))
		total := st.Producers * st.Items
		per := total / st.Consumers
		for p := 1; p <= st.Producers; p++ {
			h.Eval(s, fmt.Sprintf(`(run (progn (dotimes (i %d) (let ((id (+ %d i))) (vlog 'inv id 'push (list %d i)) (channel-push ch (list %d i)) (vlog 'res id 'push))) (channel-push done 1)))`, st.Items, p*1000, p, p))
		}
		for c := 1; c <= st.Consumers; c++ {
			h.Eval(s, fmt.Sprintf(`(run (progn (dotimes (i %d) (let ((id (+ %d i))) (vlog 'inv id 'pop) (let ((x (channel-pop ch))) (vlog 'res id 'pop x)))) (channel-push done 1)))`, per, 100000+c*1000))
		}
		for i := 0; i < st.Producers+st.Consumers; i++ {
			h.Eval(s, "(channel-pop done)")
		}
		time.Sleep(5 * time.Millisecond)
	})
}
