package main

import (
	"encoding/json"
	"fmt"
	"strings"

	"github.com/ohler55/slip"

	"verifharness/internal/h"
)

// C06: list operation histories over three variables. Stimulus:
//
//	{"id":9,"init":{"lx":[1,2],"ly":[],"lz":[3]},"ops":[{"op":"subseq","dst":"ly","src":"lx","src2":"lz","a":1,"k":2}, ...]}
//
// Events: {"t","i":0,"op":"init","vars":{...}} then one per operation with the
// returned value and the contents of every variable.
func init() { drivers["c06"] = c06 }

type c06Op struct {
	Op   string `json:"op"`
	Dst  string `json:"dst"`
	Src  string `json:"src"`
	Src2 string `json:"src2"`
	A    int    `json:"a"`
	K    int    `json:"k"`
}

type c06Stim struct {
	ID   int              `json:"id"`
	Init map[string][]int `json:"init"`
	// how each variable's initial list is built: "" / "exact" (list ...), "spare" (a remove result: the slice has
	// spare capacity), "tail" (cdr of a longer list), "butlast" (butlast of a longer list), "appended" (append result)
	Mode map[string]string `json:"mode"`
	Ops  []c06Op           `json:"ops"`
}

var c06Vars = []string{"lx", "ly", "lz"}

func c06Ints(o slip.Object) ([]int, bool) {
	switch t := o.(type) {
	case nil:
		return []int{}, true
	case slip.List:
		out := []int{}
		for _, e := range t {
			n, ok := e.(slip.Fixnum)
			if !ok {
				return nil, false
			}
			out = append(out, int(n))
		}
		return out, true
	}
	return nil, false
}

func c06Form(op c06Op) string {
	switch op.Op {
	case "mvlist":
		return fmt.Sprintf("(setq %s (multiple-value-list (values-list %s)))", op.Dst, op.Src)
	case "addf":
		return fmt.Sprintf("(addf %s %d)", op.Src, op.A)
	case "liststar":
		return fmt.Sprintf("(setq %s (list* %d %s))", op.Dst, op.A, op.Src)
	case "liststar0":
		return fmt.Sprintf("(setq %s (list* %s))", op.Dst, op.Src)
	case "subst":
		return fmt.Sprintf("(setq %s (subst 9 %d %s))", op.Dst, op.A, op.Src)
	case "copy-tree":
		return fmt.Sprintf("(setq %s (copy-tree %s))", op.Dst, op.Src)
	case "maprest":
		// the function keeps the list of its arguments: what it returned for one pair is not changed by the next call
		return fmt.Sprintf("(setq %s (apply #'append (mapcar (lambda (&rest r) r) %s %s)))", op.Dst, op.Src, op.Src2)
	case "append0":
		return fmt.Sprintf("(setq %s (append '() %s (list %d)))", op.Dst, op.Src, op.A)
	case "append3":
		return fmt.Sprintf("(setq %s (append %s %s (list %d)))", op.Dst, op.Src, op.Src2, op.A)
	case "add":
		return fmt.Sprintf("(setq %s (add %s %d))", op.Dst, op.Src, op.A)
	case "remove-if":
		return fmt.Sprintf("(setq %s (remove-if #'oddp %s))", op.Dst, op.Src)
	case "rest0":
		return fmt.Sprintf("(setq %s (nthcdr 0 %s))", op.Dst, op.Src)
	case "push":
		return fmt.Sprintf("(push %d %s)", op.A, op.Src)
	case "pop":
		return fmt.Sprintf("(let ((p (pop %s))) (if p (list p) nil))", op.Src)
	case "setelt":
		return fmt.Sprintf("(progn (setf (elt %s %d) %d) nil)", op.Src, op.K, op.A)
	case "rplacd":
		return fmt.Sprintf("(setq %s (rplacd %s (list %d)))", op.Dst, op.Src, op.A)
	case "copy-list", "reverse", "butlast", "cdr", "rest", "last", "nreverse":
		return fmt.Sprintf("(setq %s (%s %s))", op.Dst, op.Op, op.Src)
	case "subseq":
		return fmt.Sprintf("(setq %s (subseq %s 0 %d))", op.Dst, op.Src, op.K)
	case "append", "nconc":
		return fmt.Sprintf("(setq %s (%s %s %s))", op.Dst, op.Op, op.Src, op.Src2)
	case "remove", "delete", "member":
		return fmt.Sprintf("(setq %s (%s %d %s))", op.Dst, op.Op, op.A, op.Src)
	case "remove-fe", "delete-fe":
		return fmt.Sprintf("(setq %s (%s %d %s :from-end t))", op.Dst, strings.TrimSuffix(op.Op, "-fe"), op.A, op.Src)
	case "remove-cnt":
		return fmt.Sprintf("(setq %s (remove %d %s :count 1))", op.Dst, op.A, op.Src)
	case "remove-fecnt":
		return fmt.Sprintf("(setq %s (remove %d %s :from-end t :count 1))", op.Dst, op.A, op.Src)
	case "substitute":
		return fmt.Sprintf("(setq %s (substitute 9 %d %s))", op.Dst, op.A, op.Src)
	case "remove-dup":
		return fmt.Sprintf("(setq %s (remove-duplicates %s))", op.Dst, op.Src)
	case "union", "set-difference":
		return fmt.Sprintf("(setq %s (%s %s %s))", op.Dst, op.Op, op.Src, op.Src2)
	case "reduce-key":
		return fmt.Sprintf("(setq %s (list (reduce #'+ %s :key #'1+ :initial-value %d)))", op.Dst, op.Src, op.A)
	case "mapcar":
		return fmt.Sprintf("(setq %s (mapcar #'+ %s))", op.Dst, op.Src)
	case "cons":
		return fmt.Sprintf("(setq %s (cons %d %s))", op.Dst, op.A, op.Src)
	case "nthcdr":
		return fmt.Sprintf("(setq %s (nthcdr %d %s))", op.Dst, op.K, op.Src)
	case "setcar":
		return fmt.Sprintf("(progn (setf (car %s) %d) nil)", op.Src, op.A)
	case "rplaca":
		return fmt.Sprintf("(progn (rplaca %s %d) nil)", op.Src, op.A)
	case "setnth":
		return fmt.Sprintf("(progn (setf (nth %d %s) %d) nil)", op.K, op.Src, op.A)
	case "sort":
		return fmt.Sprintf("(setq %s (sort %s #'<))", op.Dst, op.Src)
	case "list":
		return fmt.Sprintf("(setq %s (list %d %d))", op.Dst, op.A, op.K+1)
	case "alias":
		return fmt.Sprintf("(setq %s %s)", op.Dst, op.Src)
	}
	panic("unknown op " + op.Op)
}

func c06(args []string) {
	out := h.NewOut()
	defer out.Flush()
	s := slip.NewScope()
	snap := func() map[string][]int {
		m := map[string][]int{}
		for _, v := range c06Vars {
			l, _ := c06Ints(h.Eval(s, v).Val)
			if l == nil {
				l = []int{-999}
			}
			m[v] = l
		}
		return m
	}
	h.Lines(func(line []byte) {
		var st c06Stim
		if err := json.Unmarshal(line, &st); err != nil {
			panic(err)
		}
		for _, v := range c06Vars {
			parts := make([]string, len(st.Init[v]))
			for i, x := range st.Init[v] {
				parts[i] = fmt.Sprint(x)
			}
			elems := strings.Join(parts, " ")
			switch st.Mode[v] {
			case "spare":
				h.Eval(s, fmt.Sprintf("(setq %s (remove 0 (list 0 %s 0)))", v, elems))
			case "tail":
				h.Eval(s, fmt.Sprintf("(setq %s (cdr (list 0 %s)))", v, elems))
			case "butlast":
				h.Eval(s, fmt.Sprintf("(setq %s (butlast (list %s 0)))", v, elems))
			case "appended":
				h.Eval(s, fmt.Sprintf("(setq %s (append (list %s) nil))", v, elems))
			default:
				h.Eval(s, fmt.Sprintf("(setq %s (list %s))", v, elems))
			}
		}
		out.Emit(h.V{"t": st.ID, "i": 0, "op": "init", "dst": "", "src": "", "src2": "", "a": 0, "k": 0,
			"ret": []int{}, "st": "ok", "vars": snap(), "form": ""})
		for i, op := range st.Ops {
			form := c06Form(op)
			o := h.Eval(s, form)
			status := "ok"
			ret, good := []int{}, true
			if o.OK() {
				ret, good = c06Ints(o.Val)
				if !good {
					status, ret = "nonlist", []int{}
				}
			} else {
				status = "err:" + o.Class
			}
			out.Emit(h.V{"t": st.ID, "i": i + 1, "op": op.Op, "dst": op.Dst, "src": op.Src, "src2": op.Src2, "a": op.A, "k": op.K,
				"ret": ret, "st": status, "vars": snap(), "form": form})
		}
	})
}
