package main

import (
	"encoding/json"
	"fmt"
	"math/big"

	"github.com/ohler55/slip"

	"verifharness/internal/h"
)

// C05: integer operator events. Stimulus: {"id":1,"op":"floor","a":"-9223372036854775808","b":"3"}
// The operands are stored in variables, the operator is applied to the variables and the
// variables are read back afterwards. Certificates (quotients, cofactors, Bezout
// coefficients) are computed here with math/big and *checked* by the acceptor.
func init() { drivers["c05"] = c05 }

type c05Stim struct {
	ID int    `json:"id"`
	Op string `json:"op"`
	A  string `json:"a"`
	B  string `json:"b"`
}

func c05Big(o slip.Object) (*big.Int, string) {
	switch t := o.(type) {
	case slip.Fixnum:
		return big.NewInt(int64(t)), "fixnum"
	case *slip.Bignum:
		return new(big.Int).Set((*big.Int)(t)), "bignum"
	}
	return nil, ""
}

var c05Zero = h.V{"s": 0, "m": []int{}}

func c05(args []string) {
	out := h.NewOut()
	defer out.Flush()
	s := slip.NewScope()
	h.Lines(func(line []byte) {
		var st c05Stim
		if err := json.Unmarshal(line, &st); err != nil {
			panic(err)
		}
		a, _ := new(big.Int).SetString(st.A, 10)
		b, _ := new(big.Int).SetString(st.B, 10)
		h.Eval(s, fmt.Sprintf("(setq na %s) (setq nb %s)", st.A, st.B))
		var src string
		switch st.Op {
		case "floor", "ceiling", "truncate":
			src = fmt.Sprintf("(multiple-value-list (%s na nb))", st.Op)
		case "abs":
			src = "(abs na)"
		default:
			src = fmt.Sprintf("(%s na nb)", st.Op)
		}
		o := h.Eval(s, src)
		ev := h.V{"t": st.ID, "op": st.Op, "a": h.Limbs(a), "b": h.Limbs(b), "st": "ok", "src": src + " ; " + st.A + " " + st.B,
			"r": c05Zero, "r2": c05Zero, "q": c05Zero, "ty": "", "bool": false,
			"ca": c05Zero, "cb": c05Zero, "sa": c05Zero, "sb": c05Zero}
		a2, _ := c05Big(h.Eval(s, "na").Val)
		b2, _ := c05Big(h.Eval(s, "nb").Val)
		if a2 == nil || b2 == nil {
			ev["a2"], ev["b2"] = h.V{"s": 9, "m": []int{}}, h.V{"s": 9, "m": []int{}}
		} else {
			ev["a2"], ev["b2"] = h.Limbs(a2), h.Limbs(b2)
		}
		if !o.OK() {
			ev["st"] = "err:" + o.Class
			out.Emit(ev)
			return
		}
		switch st.Op {
		case "<", "<=", ">", "=":
			ev["bool"] = o.Val != nil
		case "floor", "ceiling", "truncate":
			l, _ := o.Val.(slip.List)
			if len(l) != 2 {
				ev["st"] = "nonint"
				break
			}
			q, ty := c05Big(l[0])
			r, _ := c05Big(l[1])
			if q == nil || r == nil {
				ev["st"] = "nonint"
				break
			}
			ev["r"], ev["r2"], ev["ty"] = h.Limbs(q), h.Limbs(r), ty
		case "mod", "rem":
			r, ty := c05Big(o.Val)
			if r == nil {
				ev["st"] = "nonint"
				break
			}
			ev["r"], ev["ty"] = h.Limbs(r), ty
			// certificate: the quotient that goes with this remainder, if any
			q := new(big.Int)
			if b.Sign() != 0 {
				q.Sub(a, r)
				q.Quo(q, b)
			}
			ev["q"] = h.Limbs(q)
		case "gcd":
			g, ty := c05Big(o.Val)
			if g == nil {
				ev["st"] = "nonint"
				break
			}
			ev["r"], ev["ty"] = h.Limbs(g), ty
			ca, cb, sa, sb := new(big.Int), new(big.Int), new(big.Int), new(big.Int)
			if g.Sign() != 0 {
				ca.Quo(a, g)
				cb.Quo(b, g)
			}
			new(big.Int).GCD(sa, sb, new(big.Int).Abs(a), new(big.Int).Abs(b))
			if a.Sign() < 0 {
				sa.Neg(sa)
			}
			if b.Sign() < 0 {
				sb.Neg(sb)
			}
			ev["ca"], ev["cb"], ev["sa"], ev["sb"] = h.Limbs(ca), h.Limbs(cb), h.Limbs(sa), h.Limbs(sb)
		default:
			r, ty := c05Big(o.Val)
			if r == nil {
				ev["st"] = "nonint"
				break
			}
			ev["r"], ev["ty"] = h.Limbs(r), ty
		}
		out.Emit(ev)
	})
}
