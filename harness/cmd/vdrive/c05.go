package main

import (
	"encoding/json"
	"fmt"
	"math"
	"math/big"

	"github.com/ohler55/slip"

	"verifharness/internal/h"
)

// C05: operator events on exact numbers. Stimulus:
//
//	{"id":1,"op":"floor","a":"-9223372036854775808","b":"3"}        operands are integers or ratios "n/d"
//	{"id":2,"op":"<","a":"9007199254740993","b":"9007199254740992.0d0","fb":true}   comparison against a float
//	{"id":3,"op":"ash","a":"5","k":-2}
//
// The operands are stored in variables, the operator is applied to the variables and the variables are read
// back afterwards. Certificates (quotients, cofactors, Bezout coefficients) are computed here with math/big
// and *checked* by the acceptor, never trusted.
func init() { drivers["c05"] = c05 }

type c05Stim struct {
	ID int    `json:"id"`
	Op string `json:"op"`
	A  string `json:"a"`
	B  string `json:"b"`
	K  int    `json:"k"`
	FB bool   `json:"fb"`
	C  string `json:"c"` // third operand of a comparison ("" = two operands)
}

var (
	c05Zero = h.V{"s": 0, "m": []int{}}
	c05One  = h.V{"s": 1, "m": []int{1}}
)

func c05R(n, d *big.Int) h.V { return h.V{"n": h.Limbs(n), "d": h.Limbs(d)} }

// exact value and representation type of a slip number; ok false for anything that is not an integer or ratio
func c05Rat(o slip.Object) (*big.Rat, string, bool) {
	switch t := o.(type) {
	case slip.Fixnum:
		return new(big.Rat).SetInt64(int64(t)), "fixnum", true
	case *slip.Bignum:
		return new(big.Rat).SetInt((*big.Int)(t)), "bignum", true
	case *slip.Ratio:
		r := (*big.Rat)(t)
		// the raw numerator and denominator as stored (a non-canonical ratio must be seen as such)
		return new(big.Rat).Set(r), "ratio", true
	}
	return nil, "", false
}

func c05RV(r *big.Rat) h.V { return c05R(r.Num(), r.Denom()) }

func c05Bezout(n, d *big.Int) h.V {
	s, t := new(big.Int), new(big.Int)
	an := new(big.Int).Abs(n)
	new(big.Int).GCD(s, t, an, d)
	if n.Sign() < 0 {
		s.Neg(s)
	}
	return h.V{"s": h.Limbs(s), "t": h.Limbs(t)}
}

func c05GcdCert(a, b, g *big.Int) h.V {
	ca, cb, sa, sb := new(big.Int), new(big.Int), new(big.Int), new(big.Int)
	if g.Sign() != 0 {
		ca.Quo(a, g)
		cb.Quo(b, g)
	}
	new(big.Int).GCD(sa, sb, new(big.Int).Abs(a), new(big.Int).Abs(b))
	if a.Sign() < 0 {
		sa.Neg(sa)
	}
	if b.Sign() < 0 {
		sb.Neg(sb)
	}
	return h.V{"ca": h.Limbs(ca), "cb": h.Limbs(cb), "sa": h.Limbs(sa), "sb": h.Limbs(sb)}
}

func c05(args []string) {
	out := h.NewOut()
	defer out.Flush()
	s := slip.NewScope()
	zeroR := c05R(big.NewInt(0), big.NewInt(1))
	h.Lines(func(line []byte) {
		var st c05Stim
		if err := json.Unmarshal(line, &st); err != nil {
			panic(err)
		}
		a, okA := new(big.Rat).SetString(st.A)
		b := new(big.Rat)
		okB := true
		if st.B == "" {
			st.B = "0"
		}
		if !st.FB {
			b, okB = new(big.Rat).SetString(st.B)
		}
		if !okA || !okB {
			panic("bad operand " + st.A + " " + st.B)
		}
		h.Eval(s, fmt.Sprintf("(setq na %s) (setq nb %s)", st.A, st.B))
		c := new(big.Rat)
		if st.C != "" {
			// a third operand: the comparison is applied to three arguments
			var okC bool
			if c, okC = new(big.Rat).SetString(st.C); !okC {
				panic("bad operand " + st.C)
			}
			h.Eval(s, fmt.Sprintf("(setq nc %s)", st.C))
		}
		var src string
		switch st.Op {
		case "floor", "ceiling", "truncate", "round":
			src = fmt.Sprintf("(multiple-value-list (%s na nb))", st.Op)
		case "abs", "1+", "1-", "zerop", "plusp", "minusp", "isqrt":
			src = fmt.Sprintf("(%s na)", st.Op)
		case "ash", "expt":
			src = fmt.Sprintf("(%s na %d)", st.Op, st.K)
		default:
			src = fmt.Sprintf("(%s na nb)", st.Op)
			if st.C != "" {
				src = fmt.Sprintf("(%s na nb nc)", st.Op)
			}
		}
		o := h.Eval(s, src)
		ev := h.V{"t": st.ID, "op": st.Op, "a": c05RV(a), "b": c05RV(b), "st": "ok", "src": src + " ; " + st.A + " " + st.B,
			"r": zeroR, "r2": zeroR, "q": c05Zero, "ty": "fixnum", "bool": false, "k": st.K,
			"low": h.V{"s": c05Zero, "t": c05One}, "fb": st.FB, "fm": c05Zero, "fe": 0,
			"cert": h.V{"ca": c05Zero, "cb": c05Zero, "sa": c05Zero, "sb": c05Zero}, "n": 2, "c": zeroR}
		if st.C != "" {
			ev["n"], ev["c"] = 3, c05RV(c)
			ev["src"] = src + " ; " + st.A + " " + st.B + " " + st.C
		}
		if st.FB {
			// the float operand exactly: mantissa * 2^exponent, as slip holds it after reading the literal
			fo := h.Eval(s, "nb")
			var f float64
			switch tf := fo.Val.(type) {
			case slip.DoubleFloat:
				f = float64(tf)
			case slip.SingleFloat:
				f = float64(tf)
			default:
				panic(fmt.Sprintf("float operand %s read as %T", st.B, fo.Val))
			}
			mant, exp := math.Frexp(f)
			m := new(big.Int)
			big.NewFloat(math.Ldexp(mant, 53)).Int(m)
			ev["fm"], ev["fe"] = h.Limbs(m), exp-53
			ev["b"] = zeroR
		}
		a2, _, okA2 := c05Rat(h.Eval(s, "na").Val)
		ev["a2"] = h.V{"n": h.V{"s": 9, "m": []int{}}, "d": c05One}
		ev["b2"] = ev["b"]
		if okA2 {
			ev["a2"] = c05RV(a2)
		}
		if !st.FB {
			if b2, _, okB2 := c05Rat(h.Eval(s, "nb").Val); okB2 {
				ev["b2"] = c05RV(b2)
			} else {
				ev["b2"] = h.V{"n": h.V{"s": 9, "m": []int{}}, "d": c05One}
			}
		}
		if !o.OK() {
			ev["st"] = "err:" + o.Class
			out.Emit(ev)
			return
		}
		setR := func(key string, v slip.Object) (*big.Rat, bool) {
			r, ty, ok := c05Rat(v)
			if !ok {
				ev["st"] = "nonrational:" + slip.ObjectString(v)
				return nil, false
			}
			ev[key] = c05RV(r)
			if key == "r" {
				ev["ty"] = ty
				ev["low"] = c05Bezout(r.Num(), r.Denom())
			}
			return r, true
		}
		switch st.Op {
		case "<", "<=", ">", ">=", "=", "/=", "zerop", "plusp", "minusp":
			ev["bool"] = o.Val != nil
		case "floor", "ceiling", "truncate", "round":
			l, _ := o.Val.(slip.List)
			if len(l) != 2 {
				ev["st"] = "nonrational:" + slip.ObjectString(o.Val)
				break
			}
			if _, ok := setR("r", l[0]); ok {
				setR("r2", l[1])
			}
		case "mod", "rem":
			if r, ok := setR("r", o.Val); ok && r.IsInt() && a.IsInt() && b.IsInt() && b.Sign() != 0 {
				// certificate: the quotient that goes with this remainder, if any
				q := new(big.Int).Sub(a.Num(), r.Num())
				q.Quo(q, b.Num())
				ev["q"] = h.Limbs(q)
			}
		case "gcd":
			if g, ok := setR("r", o.Val); ok && g.IsInt() {
				ev["cert"] = c05GcdCert(a.Num(), b.Num(), g.Num())
			}
		case "lcm":
			if _, ok := setR("r", o.Val); ok {
				g := new(big.Int).GCD(nil, nil, new(big.Int).Abs(a.Num()), new(big.Int).Abs(b.Num()))
				ev["q"] = h.Limbs(g)
				ev["cert"] = c05GcdCert(a.Num(), b.Num(), g)
			}
		default:
			setR("r", o.Val)
		}
		out.Emit(ev)
	})
}
