package main

import (
	"encoding/json"
	"fmt"
	"strings"
	"sync/atomic"
	"time"

	"github.com/ohler55/slip"
	"github.com/ohler55/slip/pkg/generic"

	"verifharness/internal/h"
)

// C17, free running: programs of the supported concurrent shape without gates, run under the Go race detector
// (the check builds this driver with -race). Stimulus: {"id":1,"kind":"chan"|"select"|"mutex"|"syncinst"|"tables","n":4,"m":50,"cap":1}
// Event: {"id","kind","n","m","cap","st":"ok"|..., "got":[[ [p,i],... ] per consumer], "x":final counter, "slots":[...], "bad":[...]}
func init() { drivers["c17stress"] = c17stress }

type c17sStim struct {
	ID   int    `json:"id"`
	Kind string `json:"kind"`
	N    int    `json:"n"`
	M    int    `json:"m"`
	Cap  int    `json:"cap"`
}

func c17sPairs(o slip.Object) [][]int {
	out := [][]int{}
	l, _ := o.(slip.List)
	for _, e := range l {
		if p, ok := e.(slip.List); ok && len(p) == 2 {
			a, _ := p[0].(slip.Fixnum)
			b, _ := p[1].(slip.Fixnum)
			out = append(out, []int{int(a), int(b)})
		}
	}
	return out
}

func c17stress(args []string) {
	out := h.NewOut()
	defer out.Flush()
	h.Lines(func(line []byte) {
		var st c17sStim
		if err := json.Unmarshal(line, &st); err != nil {
			panic(err)
		}
		s := slip.NewScope()
		ev := h.V{"id": st.ID, "kind": st.Kind, "n": st.N, "m": st.M, "cap": st.Cap, "st": "ok", "got": [][][]int{}, "x": -1, "slots": []int{}, "bad": []string{},
			"gen": h.V{"a": "", "aok": false, "bok": false, "early": false, "final": ""}}
		var src strings.Builder
		switch st.Kind {
		case "chan", "select":
			fmt.Fprintf(&src, "(setq ch (make-channel %d)) (setq fin (make-channel %d))\n", st.Cap, 4*st.N)
			for c := 1; c <= st.N; c++ {
				recv := "(setq lst (cons (channel-pop ch) lst))"
				if st.Kind == "select" {
					recv = "(select (ch v (setq lst (cons v lst))))"
				}
				fmt.Fprintf(&src, "(run (let ((lst nil)) (dotimes (i %d) %s) (setq got%d (reverse lst)) (channel-push fin %d)))\n", st.M, recv, c, c)
			}
			for p := 1; p <= st.N; p++ {
				fmt.Fprintf(&src, "(run (progn (dotimes (i %d) (channel-push ch (list %d i))) (channel-push fin 0)))\n", st.M, p)
			}
			fmt.Fprintf(&src, "(dotimes (i %d) (channel-pop fin))\n", 2*st.N)
		case "mutex":
			fmt.Fprintf(&src, "(setq mu (make-mutex)) (setq xcnt 0) (setq fin (make-channel %d))\n", st.N)
			for p := 1; p <= st.N; p++ {
				fmt.Fprintf(&src, `(run (progn (dotimes (i %d)
  (ignore-errors (block blk (with-mutex-lock mu (setq xcnt (+ xcnt 1))
    (cond ((= 0 (mod (+ i %d) 3)) (error "out by an error")) ((= 1 (mod (+ i %d) 3)) (return-from blk nil)))))))
  (channel-push fin %d)))
`, st.M, p, p, p)
			}
			fmt.Fprintf(&src, "(dotimes (i %d) (channel-pop fin))\n", st.N)
		case "mutexnest":
			// routines started, and a closure made, while the main routine holds the mutex take the same mutex: holding a
			// mutex belongs to a routine, not to the place in the program text. Every critical section reads the counter,
			// waits and writes it back, so that two sections that overlap lose an update. x = 1 + 2 n m
			fmt.Fprintf(&src, "(setq mu (make-mutex)) (setq xcnt 0) (setq fin (make-channel %d)) (setq crit nil)\n", st.N)
			fmt.Fprintf(&src, "(with-mutex-lock mu\n  (setq crit (lambda () (with-mutex-lock mu (let ((v xcnt)) (sleep 0.001) (setq xcnt (+ v 1))))))\n")
			for p := 1; p <= st.N; p++ {
				fmt.Fprintf(&src, "  (run (progn (dotimes (i %d) (with-mutex-lock mu (let ((v xcnt)) (sleep 0.001) (setq xcnt (+ v 1))))) (channel-push fin %d)))\n", st.M, p)
			}
			fmt.Fprintf(&src, "  (let ((v xcnt)) (sleep 0.03) (setq xcnt (+ v 1))))\n(dotimes (i %d) (channel-pop fin))\n", st.N)
			for p := 1; p <= st.N; p++ {
				fmt.Fprintf(&src, "(run (progn (dotimes (i %d) (funcall crit)) (channel-push fin %d)))\n", st.M, p)
			}
			fmt.Fprintf(&src, "(dotimes (i %d) (channel-pop fin))\n", st.N)
		case "selectfn":
			// one function that receives with select from the channel it is given, used for two channels in turn by one routine
			// (the select form is the same object both times): what is received from a channel was pushed on that channel.
			// producers 1..n push on ca, n+1..2n on cb
			fmt.Fprintf(&src, "(setq ca (make-channel %d)) (setq cb (make-channel %d)) (setq fin (make-channel %d))\n(defun c17rcv%d (c) (select (c v v)))\n", st.Cap, st.Cap, 4*st.N, st.ID)
			fmt.Fprintf(&src, "(run (let ((la nil) (lb nil)) (dotimes (i %d) (setq la (cons (c17rcv%d ca) la)) (setq lb (cons (c17rcv%d cb) lb))) (setq got1 (reverse la)) (setq got2 (reverse lb)) (channel-push fin 0)))\n",
				st.N*st.M, st.ID, st.ID)
			for p := 1; p <= st.N; p++ {
				fmt.Fprintf(&src, "(run (progn (dotimes (i %d) (channel-push ca (list %d i))) (channel-push fin %d)))\n", st.M, p, p)
				fmt.Fprintf(&src, "(run (progn (dotimes (i %d) (channel-push cb (list %d i))) (channel-push fin %d)))\n", st.M, st.N+p, p)
			}
			fmt.Fprintf(&src, "(dotimes (i %d) (channel-pop fin))\n", 2*st.N+1)
		case "syncmethod":
			// a synchronized flavor instance whose own methods reach its variables through with-slots: n routines call
			// the methods m times, the read-modify-write is inside one method call (x = n m)
			fmt.Fprintf(&src, `(defflavor c17cnt%d ((n 0)) () :gettable-instance-variables)
(defmethod (c17cnt%d :bump) () (with-slots (n) self (setq n (1+ n))))
(defmethod (c17cnt%d :peek) () (with-slots ((count n)) self count))
(setq inst (make-instance 'c17cnt%d)) (set-synchronized inst t) (setq mu (make-mutex)) (setq fin (make-channel %d))
`, st.ID, st.ID, st.ID, st.ID, st.N)
			for k := 0; k < st.N; k++ {
				fmt.Fprintf(&src, "(run (progn (dotimes (i %d) (with-mutex-lock mu (send inst :bump)) (send inst :peek)) (channel-push fin %d)))\n", st.M, k)
			}
			fmt.Fprintf(&src, "(dotimes (i %d) (channel-pop fin))\n(setq xcnt (send inst :n))\n", st.N)
		case "rangehandoff":
			// m items wait in a closed buffered channel; n consumers in turn take them with range, every one but the last gives
			// up (an error in its function, handled around the range) after m/n items: what it had not yet been given is still
			// in the channel for the next one - every item is received exactly once, in the order pushed
			fmt.Fprintf(&src, "(setq ch (make-channel %d)) (dotimes (i %d) (channel-push ch (list 1 i))) (channel-close ch)\n", st.M, st.M)
			for c := 1; c <= st.N; c++ {
				stop := ""
				if c < st.N {
					stop = fmt.Sprintf(" (when (= (length got%d) %d) (error \"gives up\"))", c, st.M/st.N)
				}
				fmt.Fprintf(&src, "(setq got%d nil) (ignore-errors (range (lambda (v) (setq got%d (cons v got%d))%s) ch)) (setq got%d (reverse got%d))\n", c, c, c, stop, c, c)
			}
		case "withslots":
			// n routines, each inside ONE with-slots body over the same synchronized instance for all its m turns, pass a token round a
			// ring of channels: a routine increments the slot only while it holds the token, so the accesses are ordered by the
			// channel operations and no update can be lost (x = n m) - a slot variable read again sees what the others stored
			fmt.Fprintf(&src, "(defflavor c17ws%d ((n 0)) () :gettable-instance-variables)\n(setq inst (make-instance 'c17ws%d)) (set-synchronized inst t) (setq fin (make-channel %d))\n", st.ID, st.ID, st.N)
			for k := 0; k < st.N; k++ {
				fmt.Fprintf(&src, "(setq tok%d (make-channel 1))\n", k)
			}
			for k := 0; k < st.N; k++ {
				fmt.Fprintf(&src, "(run (progn (with-slots (n) inst (dotimes (i %d) (channel-pop tok%d) (setq n (+ n 1)) (channel-push tok%d t))) (channel-push fin %d)))\n",
					st.M, k, (k+1)%st.N, k)
			}
			fmt.Fprintf(&src, "(channel-push tok0 t)\n(dotimes (i %d) (channel-pop fin))\n(setq xcnt (send inst :n))\n", st.N)
		case "syncinst":
			slots := make([]string, st.N)
			for k := range slots {
				slots[k] = fmt.Sprintf("(s%d 0)", k)
			}
			fmt.Fprintf(&src, "(defflavor c17box%d (%s) ())\n(setq inst (make-instance 'c17box%d)) (set-synchronized inst t) (setq fin (make-channel %d))\n",
				st.ID, strings.Join(slots, " "), st.ID, st.N)
			for k := 0; k < st.N; k++ {
				fmt.Fprintf(&src, "(run (progn (dotimes (i %d) (set-synchronized inst t) (setf (slot-value inst 's%d) (+ (slot-value inst 's%d) 1))) (channel-push fin %d)))\n",
					st.M, k, k, k)
			}
			fmt.Fprintf(&src, "(dotimes (i %d) (channel-pop fin))\n", st.N)
		case "gencache":
			// a call held inside the critical section of the generic function (hook generic.call.cache-miss) while
			// another routine redefines the method: see spec/Conc/GenCache.tla
			if o := h.Eval(s, fmt.Sprintf("(defgeneric c17gc%d (a)) (defmethod c17gc%d ((a fixnum)) 'old) (defmethod c17gc%d ((a string)) 'str)", st.ID, st.ID, st.ID)); !o.OK() {
				ev["st"] = "err:" + o.Msg
				out.Emit(ev)
				return
			}
			paused, resume := make(chan struct{}, 1), make(chan struct{})
			armed := true
			generic.VerifYield = func(point string) {
				if armed && point == "generic.call.cache-miss" {
					armed = false
					paused <- struct{}{}
					<-resume
				}
			}
			aDone, bDone := make(chan h.Outcome, 1), make(chan h.Outcome, 1)
			go func() { aDone <- h.Eval(s, fmt.Sprintf("(c17gc%d 1)", st.ID)) }()
			select {
			case <-paused:
			case <-time.After(3 * time.Second):
				ev["st"] = "the call never reached the yield point"
				generic.VerifYield = nil
				out.Emit(ev)
				return
			}
			go func() { bDone <- h.Eval(s, fmt.Sprintf("(defmethod c17gc%d ((a fixnum)) 'new)", st.ID)) }()
			early := false
			var b h.Outcome
			select {
			case b = <-bDone:
				early = true
			case <-time.After(40 * time.Millisecond):
			}
			close(resume)
			a := <-aDone
			if !early {
				b = <-bDone
			}
			generic.VerifYield = nil
			final := h.Eval(s, fmt.Sprintf("(c17gc%d 1)", st.ID))
			ev["gen"] = h.V{"a": slip.ObjectString(a.Val), "aok": a.OK(), "bok": b.OK(), "early": early, "final": slip.ObjectString(final.Val)}
			out.Emit(ev)
			return
		case "gencache2":
			// the same history without the hook: the argument is an object of the harness whose Hierarchy() - asked for by the
			// generic function while it works out the effective method, inside its critical section - waits at a gate
			if o := h.Eval(s, fmt.Sprintf("(defgeneric c17gd%d (a)) (defmethod c17gd%d ((a real)) 'old) (defmethod c17gd%d ((a string)) 'str)", st.ID, st.ID, st.ID)); !o.OK() {
				ev["st"] = "err:" + o.Msg
				out.Emit(ev)
				return
			}
			gate := &gateFix{paused: make(chan struct{}, 1), resume: make(chan struct{})}
			gate.armed.Store(true)
			slip.CurrentPackage.Set(fmt.Sprintf("c17gate%d", st.ID), gate)
			aDone, bDone := make(chan h.Outcome, 1), make(chan h.Outcome, 1)
			go func() { aDone <- h.Eval(s, fmt.Sprintf("(c17gd%d c17gate%d)", st.ID, st.ID)) }()
			select {
			case <-gate.paused:
			case <-time.After(3 * time.Second):
				ev["st"] = "the call never asked for the hierarchy of its argument"
				gate.armed.Store(false)
				out.Emit(ev)
				return
			}
			go func() { bDone <- h.Eval(s, fmt.Sprintf("(defmethod c17gd%d ((a fixnum)) 'new)", st.ID)) }()
			early := false
			var b h.Outcome
			select {
			case b = <-bDone:
				early = true
			case <-time.After(40 * time.Millisecond):
			}
			close(gate.resume)
			a := <-aDone
			if !early {
				b = <-bDone
			}
			final := h.Eval(s, fmt.Sprintf("(c17gd%d c17gate%d)", st.ID, st.ID))
			ev["gen"] = h.V{"a": slip.ObjectString(a.Val), "aok": a.OK(), "bok": b.OK(), "early": early, "final": slip.ObjectString(final.Val)}
			out.Emit(ev)
			return
		case "tables":
			// the interpreter's own shared tables: variables, generic functions and their caches, the printer
			fmt.Fprintf(&src, "(setq fin (make-channel %d)) (setq errs (make-channel %d))\n(defgeneric c17g%d (a))\n(defmethod c17g%d ((a fixnum)) (list 'fix a))\n",
				st.N, st.N*st.M*4+8, st.ID, st.ID)
			for p := 1; p <= st.N; p++ {
				fmt.Fprintf(&src, `(run (progn (dotimes (i %d)
  (unless (equal (c17g%d i) (list 'fix i)) (channel-push errs (list %d i 'call)))
  (defvar c17v-%d-%d i)
  (defmethod c17g%d ((a string)) (list 'str a))
  (unless (equal (c17g%d "s") (list 'str "s")) (channel-push errs (list %d i 'call-string)))
  (unless (equal (write-to-string (list i (list %d "x" (list i i i i i i i i))) :pretty t :right-margin 20)
                 (write-to-string (list i (list %d "x" (list i i i i i i i i))) :pretty t :right-margin 20))
    (channel-push errs (list %d i 'print)))
  (unless (equal (symbol-name (intern (format nil "c17s-~d" i))) (format nil "c17s-~d" i)) (channel-push errs (list %d i 'intern)))
  (unless (equal (write-to-string (list (intern (format nil "c17p%d-~d" i)) 'a1 (intern (format nil "c17q~d-%d" i)))) (format nil "(c17p%d-~d a1 c17q~d-%d)" i i))
    (channel-push errs (list %d i 'print-symbol))))
  (channel-push fin %d)))
`, st.M, st.ID, p, st.ID, p, st.ID, st.ID, p, p, p, p, p, p, p, p, p, p, p)
			}
			fmt.Fprintf(&src, "(dotimes (i %d) (channel-pop fin))\n", st.N)
		}
		done := make(chan h.Outcome, 1)
		go func() { done <- h.Eval(s, src.String()) }()
		select {
		case o := <-done:
			if !o.OK() {
				ev["st"] = "err:" + o.Class + ": " + o.Msg
			}
		case <-time.After(map[bool]time.Duration{true: 20 * time.Second, false: 120 * time.Second}[st.Kind == "syncmethod" || st.Kind == "withslots"]):
			ev["st"] = "hang"
			out.Emit(ev)
			out.Flush()
			return
		}
		switch st.Kind {
		case "selectfn":
			ev["got"] = [][][]int{c17sPairs(h.Eval(s, "got1").Val), c17sPairs(h.Eval(s, "got2").Val)}
		case "chan", "select", "rangehandoff":
			got := [][][]int{}
			for c := 1; c <= st.N; c++ {
				got = append(got, c17sPairs(h.Eval(s, fmt.Sprintf("got%d", c)).Val))
			}
			ev["got"] = got
		case "syncmethod", "withslots":
			if f, ok := h.Eval(s, "xcnt").Val.(slip.Fixnum); ok {
				ev["x"] = int(f)
			}
		case "mutex", "mutexnest":
			if f, ok := h.Eval(s, "xcnt").Val.(slip.Fixnum); ok {
				ev["x"] = int(f)
			}
			free := make(chan bool, 1)
			go func() { free <- h.Eval(s, "(with-mutex-lock mu t)").OK() }()
			select {
			case ok := <-free:
				if !ok {
					ev["st"] = "mutex not usable after the run"
				}
			case <-time.After(2 * time.Second):
				ev["st"] = "mutex still locked after the run"
			}
		case "syncinst":
			slots := []int{}
			for k := 0; k < st.N; k++ {
				f, _ := h.Eval(s, fmt.Sprintf("(slot-value inst 's%d)", k)).Val.(slip.Fixnum)
				slots = append(slots, int(f))
			}
			ev["slots"] = slots
			if o := h.Eval(s, "(synchronizedp inst)"); !o.OK() || o.Val == nil {
				ev["st"] = "instance no longer synchronized"
			}
		case "tables":
			bad := []string{}
			h.Eval(s, "(channel-push errs 'end)")
			for {
				o := h.Eval(s, "(channel-pop errs)")
				if !o.OK() || o.Val == slip.Symbol("end") {
					break
				}
				bad = append(bad, slip.ObjectString(o.Val))
			}
			ev["bad"] = bad
		}
		out.Emit(ev)
	})
}

// gateFix is an object that says it is a fixnum; the first time it is asked for its class hierarchy it waits at a gate.
type gateFix struct {
	armed  atomic.Bool
	paused chan struct{}
	resume chan struct{}
}

func (g *gateFix) String() string                    { return "#<gate-fixnum>" }
func (g *gateFix) Append(b []byte) []byte            { return append(b, "#<gate-fixnum>"...) }
func (g *gateFix) Simplify() any                     { return "#<gate-fixnum>" }
func (g *gateFix) Equal(o slip.Object) bool          { return o == slip.Object(g) }
func (g *gateFix) Eval(*slip.Scope, int) slip.Object { return g }
func (g *gateFix) Hierarchy() []slip.Symbol {
	if g.armed.CompareAndSwap(true, false) {
		g.paused <- struct{}{}
		<-g.resume
	}
	return slip.Fixnum(0).Hierarchy()
}
