package main

import (
	"encoding/json"
	"fmt"
	"os"
	"time"

	"github.com/ohler55/slip"
	"github.com/ohler55/slip/pp"

	"verifharness/internal/h"
)

// C19, values: the load form of an object printed by ObjGen.tla, pretty-printed under every right margin 20..120 and
// evaluated again. Stimulus: {"id":3,"obj":{...}}; one event per distinct text:
//
//	{"id":3,"obj":..,"orig":..,"margin":20,"count":7,"st":"ok","text":"(list 1 2)","back":{...}}
func init() { drivers["c19lf"] = c19lf }

func c19lf(args []string) {
	out := h.NewOut()
	defer out.Flush()
	h.Lines(func(line []byte) {
		var st c03Stim
		if err := json.Unmarshal(line, &st); err != nil {
			panic(err)
		}
		var raw struct {
			Obj json.RawMessage `json:"obj"`
		}
		_ = json.Unmarshal(line, &raw)
		var call struct {
			Call string `json:"call"`
		}
		_ = json.Unmarshal(line, &call)
		var obj slip.Object
		var orig h.V
		if call.Call != "" {
			// a function call object: the text read and compiled; what stands for the object is the value of evaluating it (the
			// rebuilt call has to give the same), the obj field names the kind for the report
			raw.Obj = json.RawMessage(`{"k":"call"}`)
			o := h.Try(func() slip.Object {
				s0 := slip.NewScope()
				code := slip.ReadString(call.Call, s0)
				code.Compile()
				obj = code[0]
				return s0.Eval(slip.ReadString(call.Call, s0)[0], 0)
			})
			if !o.OK() {
				panic("call " + call.Call + ": " + o.Msg)
			}
			orig = c03Project(o.Val)
		} else {
			obj = c03Obj(st.Obj)
			orig = c03Project(obj)
		}
		lf, ok := obj.(slip.LoadFormer)
		if !ok {
			out.Emit(h.V{"id": st.ID, "obj": raw.Obj, "orig": orig, "margin": 0, "count": 1, "st": "no load form", "text": "", "back": h.V{"k": "none"}})
			return
		}
		var form slip.Object
		if o := h.Try(func() slip.Object { form = lf.LoadForm(); return nil }); !o.OK() {
			out.Emit(h.V{"id": st.ID, "obj": raw.Obj, "orig": orig, "margin": 0, "count": 1, "st": "LoadForm: " + o.Msg, "text": "", "back": h.V{"k": "none"}})
			return
		}
		seen := map[string]int{}
		events := []h.V{}
		for margin := 20; margin <= 120; margin++ {
			s := slip.NewScope()
			s.Let(slip.Symbol("*print-right-margin*"), slip.Fixnum(margin))
			var text string
			o := h.Try(func() slip.Object { text = string(pp.Append(nil, s, form)); return nil })
			status := "ok"
			if !o.OK() {
				status = "pretty print: " + o.Class + ": " + o.Msg
			}
			key := status + "\x00" + text
			if i, has := seen[key]; has {
				events[i]["count"] = events[i]["count"].(int) + 1
				continue
			}
			seen[key] = len(events)
			ev := h.V{"id": st.ID, "obj": raw.Obj, "orig": orig, "margin": margin, "count": 1, "st": status, "text": text, "back": h.V{"k": "none"}}
			if status == "ok" {
				// as sliptest.LoadForm does: the text is read; a list is a form to evaluate, anything else is the object
				s2 := slip.NewScope()
				// (an evaluation that does not come back within 20 s is reported and the worker ends: the goroutine cannot be stopped)
				done := make(chan h.Outcome, 1)
				go func() {
					done <- h.Try(func() slip.Object {
						code := slip.ReadString(text, s2)
						if len(code) != 1 {
							panic(fmt.Sprintf("%d forms in the text", len(code)))
						}
						switch code[0].(type) {
						case slip.List, slip.Funky:
							return s2.Eval(code[0], 0)
						}
						return code[0]
					})
				}()
				var r h.Outcome
				select {
				case r = <-done:
				case <-time.After(20 * time.Second):
					ev["st"] = "evaluating the load form: no answer within 20 s"
					events = append(events, ev)
					for _, e := range events {
						out.Emit(e)
					}
					out.Flush()
					os.Exit(0)
				}
				if r.OK() {
					ev["back"] = c03Project(r.Val)
				} else {
					ev["st"] = "evaluating the load form: " + r.Class + ": " + r.Msg
				}
			}
			events = append(events, ev)
		}
		for _, ev := range events {
			out.Emit(ev)
		}
	})
}
