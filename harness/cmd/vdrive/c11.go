package main

import (
	"encoding/json"
	"fmt"
	"strings"
	"sync"

	"github.com/ohler55/slip"

	"verifharness/internal/h"
)

// C11: flavor definition histories. Stimulus:
//
//	{"id":7,"ops":[{"op":"defflavor","f":"fa","cs":[],"d":""},{"op":"defmethod","f":"fa","cs":[],"d":"before"}], "flavors":["fa"]}
//
// One event per stimulus: {"t":7,"defs":[...status...],"obs":{"fa":{"prec":[..],"trace":[..],"err":""}}}
func init() { drivers["c11"] = c11 }

type c11Op struct {
	Op string   `json:"op"`
	F  string   `json:"f"`
	Cs []string `json:"cs"`
	D  string   `json:"d"`
}

type c11Stim struct {
	ID      int      `json:"id"`
	Ops     []c11Op  `json:"ops"`
	Flavors []string `json:"flavors"`
}

var (
	c11mu    sync.Mutex
	c11trace []string
)

func c11(args []string) {
	out := h.NewOut()
	defer out.Flush()
	h.Define("vmark", func(s *slip.Scope, args slip.List, depth int) slip.Object {
		c11mu.Lock()
		c11trace = append(c11trace, string(args[0].(slip.String)))
		c11mu.Unlock()
		return nil
	})
	s := slip.NewScope()
	h.Lines(func(line []byte) {
		var st c11Stim
		if err := json.Unmarshal(line, &st); err != nil {
			panic(err)
		}
		real := func(f string) string { return fmt.Sprintf("%s-%d", f, st.ID) }
		strip := strings.NewReplacer(fmt.Sprintf("-%d", st.ID), "")
		defs := []string{}
		for _, op := range st.Ops {
			var src string
			switch op.Op {
			case "defflavor":
				cs := make([]string, len(op.Cs))
				for i, c := range op.Cs {
					cs[i] = real(c)
				}
				if op.D == "var" {
					// the flavor declares instance variable v: default = its own name, gettable and initable
					src = fmt.Sprintf(`(defflavor %s ((v "%s")) (%s) :gettable-instance-variables :initable-instance-variables)`,
						real(op.F), op.F, strings.Join(cs, " "))
				} else if op.D == "bare" {
					// the flavor declares v without a default
					src = fmt.Sprintf(`(defflavor %s (v) (%s) :gettable-instance-variables :initable-instance-variables)`,
						real(op.F), strings.Join(cs, " "))
				} else {
					src = fmt.Sprintf("(defflavor %s () (%s))", real(op.F), strings.Join(cs, " "))
				}
			case "badmethod":
				// a daemon keyword that does not exist: the form must be rejected
				src = fmt.Sprintf(`(defmethod (%s :befor :m) () (vmark "%s:never"))`, real(op.F), op.F)
				if o := h.Eval(s, src); o.OK() {
					defs = append(defs, "accepted-a-rejected-form")
				} else {
					defs = append(defs, "")
				}
				continue
			case "defmethod":
				switch op.D {
				case "primary":
					src = fmt.Sprintf(`(defmethod (%s :m) () (vmark "%s:primary"))`, real(op.F), op.F)
				case "before", "after":
					src = fmt.Sprintf(`(defmethod (%s :%s :m) () (vmark "%s:%s"))`, real(op.F), op.D, op.F, op.D)
				case "getv":
					// a primary method written by the user for the message the accessor of v answers
					src = fmt.Sprintf(`(defmethod (%s :v) () "user:%s")`, real(op.F), op.F)
				case "whopper":
					src = fmt.Sprintf(`(defwhopper (%s :m) () (vmark "%s:win") (continue-whopper) (vmark "%s:wout"))`, real(op.F), op.F, op.F)
				}
			}
			o := h.Eval(s, src)
			defs = append(defs, o.Class)
		}
		obs := h.V{}
		for _, f := range st.Flavors {
			c11trace = nil
			o := h.Eval(s, fmt.Sprintf("(send (make-instance '%s) :m)", real(f)))
			tr := c11trace
			if tr == nil {
				tr = []string{}
			}
			prec := []string{}
			if po := h.Eval(s, fmt.Sprintf("(class-precedence '%s)", real(f))); po.OK() {
				if l, ok := po.Val.(slip.List); ok {
					for _, e := range l {
						name := strip.Replace(slip.ObjectString(e))
						if name == "vanilla-flavor" || name == "instance" || name == "t" {
							continue
						}
						prec = append(prec, name)
					}
				}
			}
			// default of v, the :v accessor and the :v init keyword are inherited by the same order
			vdef, vinit := "", ""
			if vo := h.Eval(s, fmt.Sprintf("(send (make-instance '%s) :v)", real(f))); vo.OK() {
				vdef = "=" + slip.ObjectString(vo.Val)
			} else {
				vdef = "!" + vo.Class
			}
			if vo := h.Eval(s, fmt.Sprintf("(send (make-instance '%s :v 7) :v)", real(f))); vo.OK() {
				vinit = "=" + slip.ObjectString(vo.Val)
			} else {
				vinit = "!" + vo.Class
			}
			obs[f] = h.V{"prec": prec, "trace": tr, "err": o.Class, "fault": o.Fault(), "vdef": vdef, "vinit": vinit}
		}
		out.Emit(h.V{"t": st.ID, "defs": defs, "obs": obs})
	})
}
