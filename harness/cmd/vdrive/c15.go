package main

import (
	"encoding/json"
	"fmt"
	"math/big"
	"os"
	"strings"
	"time"

	"github.com/ohler55/slip"

	"verifharness/internal/h"
)

// C15: format calls. Stimulus = one case printed by FormatGen.tla plus an id:
//
//	{"id":7,"ctl":"~8,'*d|~a","args":[{"k":"int","neg":true,"ds":[1,2]},{"k":"str","v":["a","b"]}]}
//
// Event: the text format produces with destination nil, t (with *standard-output* bound to a string stream) and a
// string stream, or the condition class, plus princ-to-string / prin1-to-string of every argument:
//
//	{"id":7,"outs":["*****-12|ab", ...],"sts":["ok","ok","ok"],"princ":["-12","ab"],"prin1":["-12","\"ab\""]}
func init() { drivers["c15"] = c15 }

type c15Val struct {
	K   string          `json:"k"`
	Neg bool            `json:"neg"`
	Ds  []int           `json:"ds"`
	V   json.RawMessage `json:"v"`
}

type c15Stim struct {
	ID   int      `json:"id"`
	Ctl  string   `json:"ctl"`
	Args []c15Val `json:"args"`
}

func c15Chars(raw json.RawMessage) string {
	var cs []string
	if err := json.Unmarshal(raw, &cs); err != nil {
		var one string
		if err2 := json.Unmarshal(raw, &one); err2 != nil {
			panic(fmt.Sprintf("characters %s: %s", raw, err))
		}
		return one
	}
	return strings.Join(cs, "")
}

func c15Obj(v c15Val) slip.Object {
	switch v.K {
	case "int":
		var b strings.Builder
		if v.Neg {
			b.WriteByte('-')
		}
		for _, d := range v.Ds {
			b.WriteByte(byte('0' + d))
		}
		bi, ok := new(big.Int).SetString(b.String(), 10)
		if !ok {
			panic("digits " + b.String())
		}
		if bi.IsInt64() {
			return slip.Fixnum(bi.Int64())
		}
		return (*slip.Bignum)(bi)
	case "str":
		return slip.String(c15Chars(v.V))
	case "sym":
		return slip.Symbol(c15Chars(v.V))
	case "chr":
		return slip.Character([]rune(c15Chars(v.V))[0])
	case "nil":
		return nil
	case "list":
		var elems []c15Val
		if err := json.Unmarshal(v.V, &elems); err != nil {
			panic(err)
		}
		if len(elems) == 0 {
			return nil
		}
		l := make(slip.List, len(elems))
		for i, e := range elems {
			l[i] = c15Obj(e)
		}
		return l
	}
	panic("value kind " + v.K)
}

// settings of the printer variables under which ~A / ~S are compared with princ / prin1
var c15Envs = []string{
	"(*print-radix* t)", "(*print-base* 16)", "(*print-base* 2) (*print-radix* t)", "(*print-base* 16) (*print-radix* t)",
	"(*print-base* 3) (*print-radix* t)", "(*print-case* :upcase)", "(*print-case* :capitalize)", "(*print-escape* nil)",
	"(*print-readably* t)", "(*print-length* 2)", "(*print-level* 1)",
}

func c15(args []string) {
	out := h.NewOut()
	defer out.Flush()
	s := slip.NewScope()
	seenArg := map[string]bool{}
	h.Lines(func(line []byte) {
		var st c15Stim
		if err := json.Unmarshal(line, &st); err != nil {
			panic(err)
		}
		s.Let(slip.Symbol("fctl"), slip.String(st.Ctl))
		names := make([]string, len(st.Args))
		princ, prin1 := make([]string, len(st.Args)), make([]string, len(st.Args))
		for i, a := range st.Args {
			names[i] = fmt.Sprintf("fa%d", i)
			s.Let(slip.Symbol(names[i]), c15Obj(a))
			for k, fn := range []string{"princ-to-string", "prin1-to-string"} {
				o := h.Eval(s, fmt.Sprintf("(%s %s)", fn, names[i]))
				txt := "!" + o.Class
				if str, ok := o.Val.(slip.String); ok && o.OK() {
					txt = string(str)
				}
				if k == 0 {
					princ[i] = txt
				} else {
					prin1[i] = txt
				}
			}
		}
		// ~A / ~S against princ / prin1 under other settings of the printer variables (the statement's "agree with princ and
		// prin1" is a relation: no model of the printer is needed), once per distinct argument
		agree := []h.V{}
		for i, a := range st.Args {
			key, _ := json.Marshal(a)
			if seenArg[string(key)] {
				continue
			}
			seenArg[string(key)] = true
			for _, env := range c15Envs {
				row := h.V{"i": i + 1, "env": env}
				for _, fd := range [][2]string{{"a", `(format nil "~a" %s)`}, {"princ", "(princ-to-string %s)"}, {"s", `(format nil "~s" %s)`}, {"prin1", "(prin1-to-string %s)"}} {
					o := h.Eval(s, "(let ("+env+") "+fmt.Sprintf(fd[1], names[i])+")")
					txt := "!" + o.Class
					if str, ok := o.Val.(slip.String); ok && o.OK() {
						txt = string(str)
					}
					row[fd[0]] = txt
				}
				agree = append(agree, row)
			}
		}
		call := "fctl " + strings.Join(names, " ")
		forms := []string{
			"(format nil " + call + ")",
			"(let ((*standard-output* (make-string-output-stream))) (format t " + call + ") (get-output-stream-string *standard-output*))",
			"(let ((os (make-string-output-stream))) (format os " + call + ") (get-output-stream-string os))",
		}
		outs, sts, msgs := make([]string, 3), make([]string, 3), make([]string, 3)
		for i, f := range forms {
			// a call that does not come back within 20 s is reported as "hang"; the process then stops (the goroutine
			// cannot be stopped) and the orchestrator restarts the driver after this case
			done := make(chan h.Outcome, 1)
			go func() { done <- h.Eval(s, f) }()
			var o h.Outcome
			select {
			case o = <-done:
			case <-time.After(20 * time.Second):
				sts[i], msgs[i] = "hang", "no answer within 20 s"
				for k := i + 1; k < 3; k++ {
					sts[k], msgs[k] = "hang", "not run"
				}
				out.Emit(h.V{"id": st.ID, "outs": outs, "sts": sts, "msgs": msgs, "princ": princ, "prin1": prin1, "agree": agree})
				out.Flush()
				os.Exit(0)
			}
			switch {
			case !o.OK():
				sts[i] = "err"
				msgs[i] = o.Class + ": " + o.Msg
				if 200 < len(msgs[i]) {
					msgs[i] = msgs[i][:200]
				}
			default:
				if str, ok := o.Val.(slip.String); ok {
					sts[i], outs[i] = "ok", string(str)
				} else {
					sts[i], msgs[i] = "err", "not a string: "+slip.ObjectString(o.Val)
				}
			}
		}
		out.Emit(h.V{"id": st.ID, "outs": outs, "sts": sts, "msgs": msgs, "princ": princ, "prin1": prin1, "agree": agree})
	})
}
