//go:build verif

package main

import (
	"bytes"
	"encoding/json"
	"fmt"
	"os"
	"os/exec"

	"github.com/ohler55/slip"
	"github.com/ohler55/slip/pkg/repl"

	"verifharness/internal/h"
)

// C20 settings: histories printed by spec/ReplStore/ReplSettings.tla
//
//	{"id":3,"ops":[{"op":"set","v":"margin","x":7},{"op":"restart"},{"op":"set","v":"length","x":9},{"op":"restart"}]}
//
// Every session is a process of its own (`vdrive c20session <dir>`, started from here): it does what cmd/slip does on
// start (ZeroMods, SetConfigDir), reports the values of the tracked variables, applies its setq forms and exits.
// Event: {"t":3,"sessions":[{"start":{"margin":"120",...},"st":""}, ...]} one entry per session incl. the one after
// the last restart.
func init() {
	drivers["c20cfg"] = c20cfg
	drivers["c20session"] = c20session
}

var c20Vars = map[string]string{"margin": "*print-right-margin*", "length": "*print-length*", "level": "*print-level*"}

type c20CfgOp struct {
	Op string `json:"op"`
	V  string `json:"v"`
	X  int    `json:"x"`
}

func c20cfg(args []string) {
	out := h.NewOut()
	defer out.Flush()
	self, _ := os.Executable()
	base := os.Getenv("VERIF_SCRATCH_DIR")
	h.Lines(func(line []byte) {
		var st struct {
			ID  int        `json:"id"`
			Ops []c20CfgOp `json:"ops"`
		}
		if err := json.Unmarshal(line, &st); err != nil {
			panic(err)
		}
		dir, err := os.MkdirTemp(base, "c20cfg-")
		if err != nil {
			panic(err)
		}
		defer os.RemoveAll(dir)
		sessions := []any{}
		var pending []c20CfgOp
		run := func() {
			in, _ := json.Marshal(pending)
			cmd := exec.Command(self, "c20session", dir)
			cmd.Stdin = bytes.NewReader(in)
			o, err := cmd.Output()
			var res h.V
			if err != nil || json.Unmarshal(bytes.TrimSpace(o), &res) != nil {
				res = h.V{"st": fmt.Sprintf("session failed: %v %.200s", err, o), "start": h.V{}}
			}
			sessions = append(sessions, res)
			pending = nil
		}
		for _, op := range st.Ops {
			if op.Op == "restart" {
				run()
			} else {
				pending = append(pending, op)
			}
		}
		run() // the session after the last restart only reports
		out.Emit(h.V{"t": st.ID, "sessions": sessions})
	})
}

// one REPL session: start, report, apply the settings, end
func c20session(args []string) {
	var ops []c20CfgOp
	_ = json.NewDecoder(os.Stdin).Decode(&ops)
	res := h.V{"st": "", "start": h.V{}}
	func() {
		defer func() {
			if r := recover(); r != nil {
				res["st"] = fmt.Sprintf("panic: %.200v", r)
			}
		}()
		repl.ZeroMods()
		repl.SetConfigDir(args[0])
		scope := repl.GetScope()
		start := h.V{}
		for k, name := range c20Vars {
			start[k] = slip.ObjectString(slip.ReadString(name, scope).Eval(scope, nil))
		}
		res["start"] = start
		for _, op := range ops {
			slip.ReadString(fmt.Sprintf("(setq %s %d)", c20Vars[op.V], op.X), scope).Eval(scope, nil)
		}
	}()
	b, _ := json.Marshal(res)
	fmt.Println(string(b))
}
