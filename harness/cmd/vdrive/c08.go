package main

import (
	"encoding/json"
	"fmt"
	"os"
	"path/filepath"
	"regexp"
	"sort"
	"strings"

	"github.com/ohler55/slip"

	"verifharness/internal/h"
)

// C08: one program of the C01 generator (definitions + main form) evaluated under different definition orders and
// evaluation modes. Every variant uses its own copy of the functions (the names get a suffix), so that a function a
// variant calls before defining it is really not defined yet. Each variant is one trace in the format of C01
// (start / mark ... / end) with id = 100 * stimulus id + variant, judged by the same abstract machine: the meaning of
// the program does not depend on the variant.
//
//	0 given order, main read and evaluated        1 definitions in reverse order (callers first)
//	2 main wrapped in a function defined first    3 one text, Code.Compile, then evaluated
//	4 every form through (eval (quote form))      5 (load file) of the whole program, callers first
//	6,7,8 the same code object of main evaluated a second, third and fourth time
//	9 every definition evaluated again (same text), then main again
//	10 one function redefined to something else and back, then main again
func init() { drivers["c08"] = c08 }

var c08NameRx = regexp.MustCompile(`\(defun (\S+) `)
var c08MacroRx = regexp.MustCompile(`\(defmacro (\S+) `)

func id0(stim, variant int) int { return stim*100 + variant }

func c08Rename(names []string, suffix string, texts ...string) []string {
	sort.Slice(names, func(i, j int) bool { return len(names[i]) > len(names[j]) })
	out := make([]string, len(texts))
	for k, t := range texts {
		for i, n := range names {
			t = strings.ReplaceAll(t, n, fmt.Sprintf("\x00%d\x00", i))
		}
		for i, n := range names {
			t = strings.ReplaceAll(t, fmt.Sprintf("\x00%d\x00", i), n+suffix)
		}
		out[k] = t
	}
	return out
}

func c08(args []string) {
	out := h.NewOut()
	defer out.Flush()
	cur, budget := 0, 0
	h.Define("vmark", func(s *slip.Scope, a slip.List, depth int) slip.Object {
		if budget--; budget < 0 {
			panic(fmt.Errorf("mark budget exceeded"))
		}
		if cur < 0 {
			return a[1] // a warm-up evaluation: not part of any trace
		}
		out.Emit(N{"t": cur, "ev": "mark", "id": int(a[0].(slip.Fixnum)), "v": c01Project(a[1])})
		return a[1]
	})
	c01DefineHeld()
	s := slip.NewScope()
	tmp, _ := os.MkdirTemp("", "c08-")
	defer os.RemoveAll(tmp)
	h.Lines(func(line []byte) {
		var st c01Stim
		if err := json.Unmarshal(line, &st); err != nil {
			panic(err)
		}
		names := []string{}
		for _, d := range st.DefSrc {
			if m := c08NameRx.FindStringSubmatch(d); m != nil {
				names = append(names, m[1])
			}
		}
		mnames := []string{}
		for _, d := range st.MacroSrc {
			if m := c08MacroRx.FindStringSubmatch(d); m != nil {
				mnames = append(mnames, m[1])
			}
		}
		end := func(o h.Outcome, src string) {
			if o.OK() {
				out.Emit(N{"t": cur, "ev": "end", "v": c01Values(o.Val), "src": src})
			} else {
				out.Emit(N{"t": cur, "ev": "end", "v": []any{N{"k": "err", "c": o.Class}}, "src": src, "msg": fmt.Sprintf("%.160s", o.Msg)})
			}
		}
		for variant := 0; variant <= 13; variant++ {
			if 6 <= variant && variant <= 8 {
				continue // emitted with variant 0
			}
			suffix := fmt.Sprintf("-v%d", variant)
			texts := c08Rename(append(append([]string{}, names...), mnames...), suffix,
				append(append([]string{string(st.Defs), string(st.Ast), st.Src}, st.DefSrc...), st.MacroSrc...)...)
			defs, ast, src, defsrc := texts[0], texts[1], texts[2], texts[3:3+len(st.DefSrc)]
			// the macros of the program (this variant's copies) are defined before anything else: a macro has to be known
			// when a form that uses it is evaluated for the first time
			macrosOK := true
			for _, d := range texts[3+len(st.DefSrc):] {
				if o := h.Eval(s, d); !o.OK() {
					cur = id0(st.ID, variant)
					out.Emit(N{"t": cur, "ev": "start", "defs": json.RawMessage(defs), "ast": json.RawMessage(ast), "variant": variant})
					end(o, d)
					macrosOK = false
					break
				}
			}
			if !macrosOK {
				continue
			}
			start := func(id int) {
				cur, budget = id, 4000
				out.Emit(N{"t": id, "ev": "start", "defs": json.RawMessage(defs), "ast": json.RawMessage(ast), "variant": variant})
			}
			reversed := make([]string, len(defsrc))
			for i, d := range defsrc {
				reversed[len(defsrc)-1-i] = d
			}
			id := st.ID*100 + variant
			define := func(list []string) bool {
				for _, d := range list {
					if o := h.Eval(s, d); !o.OK() {
						end(o, d)
						return false
					}
				}
				return true
			}
			switch variant {
			case 0:
				start(id)
				if !define(defsrc) {
					continue
				}
				// the code object of main is read once and evaluated four times (variants 6, 7, 8 are the repetitions)
				var code slip.Code
				if o := h.Try(func() slip.Object { code = slip.ReadString(src, s); return nil }); !o.OK() {
					end(o, src)
					continue
				}
				for rep, vid := range []int{0, 6, 7, 8} {
					if 0 < rep {
						start(st.ID*100 + vid)
					}
					end(h.Try(func() slip.Object {
						var v slip.Object
						for _, form := range code {
							v = s.Eval(form, 0)
						}
						return v
					}), src)
				}
			case 1:
				start(id)
				if define(reversed) {
					end(h.Eval(s, src), src)
				}
			case 2:
				start(id)
				wrapper := fmt.Sprintf("c08main-%d%s", st.ID, suffix)
				if define(append([]string{fmt.Sprintf("(defun %s () %s)", wrapper, src)}, reversed...)) {
					end(h.Eval(s, "("+wrapper+")"), src)
				}
			case 3:
				start(id)
				all := strings.Join(reversed, "\n") + "\n" + src
				end(h.Try(func() slip.Object {
					code := slip.ReadString(all, s)
					code.Compile()
					var v slip.Object
					for _, form := range code {
						v = s.Eval(form, 0)
					}
					return v
				}), all)
			case 4:
				start(id)
				ok := true
				for _, d := range defsrc {
					if o := h.Eval(s, "(eval (quote "+d+"))"); !o.OK() {
						end(o, d)
						ok = false
						break
					}
				}
				if ok {
					end(h.Eval(s, "(eval (quote "+src+"))"), src)
				}
			case 5:
				start(id)
				path := filepath.Join(tmp, fmt.Sprintf("p%d.lisp", st.ID))
				res := fmt.Sprintf("c08res-%d", st.ID)
				_ = os.WriteFile(path, []byte(strings.Join(reversed, "\n")+"\n(setq "+res+" (multiple-value-list "+src+"))\n"), 0o600)
				o := h.Eval(s, fmt.Sprintf("(load %q)", path))
				if o.OK() {
					o = h.Eval(s, "(values-list "+res+")")
				}
				end(o, src)
			case 9:
				start(id)
				if define(defsrc) && define(defsrc) {
					end(h.Eval(s, src), src)
				}
			case 10:
				start(id)
				if !define(defsrc) {
					continue
				}
				// the first function becomes something else (same name, no parameters needed to define it) and then itself again
				if 0 < len(defsrc) {
					name := c08NameRx.FindStringSubmatch(defsrc[0])[1]
					if !define([]string{fmt.Sprintf("(defun %s (&rest other) (list 'other other))", name), defsrc[0]}) {
						continue
					}
				}
				end(h.Eval(s, src), src)
			case 12:
				// every function is defined three times: a stub, another stub, and then - callers first, inside a let whose
				// variable nothing uses - the real definition: the call sites in the body of a caller are compiled between the
				// second and the third definition of the function they call
				start(id)
				stubs1, stubs2, wrapped := make([]string, len(names)), make([]string, len(names)), make([]string, len(reversed))
				for i, n := range names {
					stubs1[i] = fmt.Sprintf("(defun %s%s (&rest other) -1)", n, suffix)
					stubs2[i] = fmt.Sprintf("(defun %s%s (&rest other) -2)", n, suffix)
				}
				for i, d := range reversed {
					wrapped[i] = "(let ((c08-unused 0)) " + d + ")"
				}
				if define(stubs1) && define(stubs2) && define(wrapped) {
					end(h.Eval(s, src), src)
				}
			case 13:
				// the real definitions, then every function redefined as a stub and back to itself, in the given order: the
				// callers compiled with the first definition and the ones compiled with the third call the same function
				start(id)
				if !define(defsrc) {
					continue
				}
				ok := true
				for i, n := range names {
					if i < len(defsrc) && !define([]string{fmt.Sprintf("(defun %s%s (&rest other) -3)", n, suffix)}) {
						ok = false
						break
					}
				}
				if ok && define(defsrc) {
					end(h.Eval(s, src), src)
				}
			case 11:
				// every function is first a stub; the main form is read once and evaluated against the stubs (not recorded),
				// so that its call sites are compiled; then the real definitions follow, callers first (their call sites are
				// compiled while the callee is still the stub), and the same code object of the main form is evaluated again
				stubs := make([]string, len(names))
				for i, n := range names {
					stubs[i] = fmt.Sprintf("(defun %s%s (&rest other) -1)", n, suffix)
				}
				var code slip.Code
				ok := h.Try(func() slip.Object {
					for _, d := range stubs {
						for _, form := range slip.ReadString(d, s) {
							s.Eval(form, 0)
						}
					}
					code = slip.ReadString(src, s)
					return nil
				}).OK()
				run := func() h.Outcome {
					return h.Try(func() slip.Object {
						var v slip.Object
						for _, form := range code {
							v = s.Eval(form, 0)
						}
						return v
					})
				}
				if ok {
					cur, budget = -1, 4000
					_ = run()
				}
				start(id)
				if !ok {
					end(h.Outcome{Class: "go:stub", Msg: "could not define the stubs"}, src)
					continue
				}
				if define(reversed) {
					end(run(), src)
				}
			}
		}
	})
}
