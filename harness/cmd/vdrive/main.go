// vdrive executes stimuli against slip and prints the observed events as ndjson.
package main

import (
	"fmt"
	"os"

	_ "github.com/ohler55/slip/pkg"
)

var drivers = map[string]func(args []string){}

func main() {
	if len(os.Args) < 2 || drivers[os.Args[1]] == nil {
		fmt.Fprintln(os.Stderr, "usage: vdrive <property> [args]   (stimuli on stdin, events on stdout)")
		os.Exit(2)
	}
	drivers[os.Args[1]](os.Args[2:])
}
