package main

import (
	"encoding/json"
	"fmt"

	"github.com/ohler55/slip"

	"verifharness/internal/h"
)

// C16: equality relations and hash-table histories.
// First stimulus line: {"univ":["1","1.0",...]}  -> event {"ev":"rel", matrices...}
// Then histories: {"id":3,"ops":[{"ev":"put","k":4,"v":17},{"ev":"get","k":4},{"ev":"rem","k":4}]}
func init() { drivers["c16"] = c16 }

type c16Op struct {
	Ev string `json:"ev"`
	K  int    `json:"k"`
	V  int    `json:"v"`
}

type c16Stim struct {
	Univ []string `json:"univ"`
	ID   int      `json:"id"`
	Test string   `json:"test"`
	Ops  []c16Op  `json:"ops"`
}

func c16(args []string) {
	out := h.NewOut()
	defer out.Flush()
	s := slip.NewScope()
	truthy := func(o h.Outcome) bool { return o.OK() && o.Val != nil }
	h.Lines(func(line []byte) {
		var st c16Stim
		if err := json.Unmarshal(line, &st); err != nil {
			panic(err)
		}
		if st.Univ != nil {
			for i, e := range st.Univ {
				h.Eval(s, fmt.Sprintf("(setq u%d %s)", i, e))
			}
			n := len(st.Univ)
			ev := h.V{"ev": "rel", "univ": st.Univ, "t": 0, "i": 0}
			for _, p := range []string{"eq", "eql", "equal", "equalp"} {
				m := make([][]bool, n)
				for i := 0; i < n; i++ {
					m[i] = make([]bool, n)
					for j := 0; j < n; j++ {
						m[i][j] = truthy(h.Eval(s, fmt.Sprintf("(%s u%d u%d)", p, i, j)))
					}
				}
				ev[p] = m
			}
			hash := make([]int, n)
			for i := 0; i < n; i++ {
				hash[i] = -1
				if o := h.Eval(s, fmt.Sprintf("(sxhash u%d)", i)); o.OK() {
					if f, ok := o.Val.(slip.Fixnum); ok {
						hash[i] = int(f % 1000003)
					}
				}
			}
			ev["sxhash"] = hash
			out.Emit(ev)
			return
		}
		test := st.Test
		if test == "" {
			test = "eql"
		}
		h.Eval(s, fmt.Sprintf("(setq h (make-hash-table :test '%s))", test))
		for i, op := range st.Ops {
			ev := h.V{"t": st.ID, "i": i + 1, "ev": op.Ev, "k": op.K, "v": op.V}
			switch op.Ev {
			case "put":
				ev["ok"] = h.Eval(s, fmt.Sprintf("(setf (gethash u%d h) %d)", op.K, op.V)).OK()
			case "get":
				o := h.Eval(s, fmt.Sprintf("(multiple-value-list (gethash u%d h))", op.K))
				ev["ok"] = o.OK()
				ev["v"] = -1
				if l, ok := o.Val.(slip.List); ok && len(l) > 0 {
					if f, isf := l[0].(slip.Fixnum); isf {
						ev["v"] = int(f)
					}
				}
			case "rem":
				ev["ok"] = h.Eval(s, fmt.Sprintf("(remhash u%d h)", op.K)).OK()
			case "clr":
				ev["ok"] = h.Eval(s, "(clrhash h)").OK()
			}
			ev["count"] = -1
			if o := h.Eval(s, "(hash-table-count h)"); o.OK() {
				if f, ok := o.Val.(slip.Fixnum); ok {
					ev["count"] = int(f)
				}
			}
			out.Emit(ev)
		}
	})
}
