package main

import (
	"encoding/json"
	"fmt"
	"strings"
	"sync"

	"github.com/ohler55/slip"

	"verifharness/internal/h"
)

// C16: equality relations, type predicates and hash-table histories.
// First stimulus line: {"univ":["1","1.0",...],"types":["t","number",...],"coerce":[[i,"float"],...]}
//
//	-> event {"ev":"rel","i":0, matrices eq/eql/equal/equalp, sxhash, typeof, typep, subtypep, coerce}
//
// Then histories: {"id":3,"test":"equal","keys":[14,15,16,17],"ops":[{"ev":"put","k":0,"v":1},{"ev":"get","k":1}, ...]}
//
//	(k = slot into keys; events carry the universe index) -> one event per operation.
func init() { drivers["c16"] = c16 }

type c16Op struct {
	Ev string `json:"ev"`
	K  int    `json:"k"`
	V  int    `json:"v"`
}

type c16Stim struct {
	Univ   []string `json:"univ"`
	Types  []string `json:"types"`
	Coerce [][]any  `json:"coerce"`
	ID     int      `json:"id"`
	Test   string   `json:"test"`
	Keys   []int    `json:"keys"`
	Ops    []c16Op  `json:"ops"`
}

func c16(args []string) {
	out := h.NewOut()
	defer out.Flush()
	s := slip.NewScope()
	// maphash callback: collects (universe index, value) of every visited entry
	var (
		mu   sync.Mutex
		seen []any
		nu   int
	)
	h.Define("vseen", func(sc *slip.Scope, a slip.List, depth int) slip.Object {
		mu.Lock()
		defer mu.Unlock()
		// identify the key: the universe object it is eq to, else the first one it is equalp to
		idx := 0
		s.Let(slip.Symbol("vkey"), a[0])
		found := false
		for _, p := range []string{"eq", "equalp"} {
			for i := 0; i < nu && !found; i++ {
				if o := h.Eval(s, fmt.Sprintf("(%s u%d vkey)", p, i)); o.OK() && o.Val != nil {
					idx, found = i, true
				}
			}
		}
		v := -1
		if f, ok := a[1].(slip.Fixnum); ok {
			v = int(f)
		}
		seen = append(seen, h.V{"k": idx, "v": v})
		return nil
	})
	h.Lines(func(line []byte) {
		var st c16Stim
		if err := json.Unmarshal(line, &st); err != nil {
			panic(err)
		}
		if st.Univ != nil {
			nu = len(st.Univ)
			for i, e := range st.Univ {
				if o := h.Eval(s, fmt.Sprintf("(setq u%d %s)", i, e)); !o.OK() {
					panic("universe element " + e + ": " + o.Msg)
				}
			}
			n := len(st.Univ)
			ev := h.V{"ev": "rel", "univ": st.Univ, "types": st.Types, "t": 0, "i": 0}
			// every call made for the matrices that signals instead of answering: the predicates are total
			errors := []string{}
			truthy := func(call string) bool {
				o := h.Eval(s, call)
				if !o.OK() {
					if len(errors) < 200 {
						errors = append(errors, call+" signals "+o.Class)
					}
					return false
				}
				return o.Val != nil
			}
			for _, p := range []string{"eq", "eql", "equal", "equalp"} {
				m := make([][]bool, n)
				for i := 0; i < n; i++ {
					m[i] = make([]bool, n)
					for j := 0; j < n; j++ {
						m[i][j] = truthy(fmt.Sprintf("(%s u%d u%d)", p, i, j))
					}
				}
				ev[p] = m
			}
			// which keys a table treats as the same key: store under x_i, look up x_j (fresh table per i)
			ident := make([][]bool, n)
			for i := 0; i < n; i++ {
				ident[i] = make([]bool, n)
				if !h.Eval(s, fmt.Sprintf("(progn (setq hi (make-hash-table :test 'equalp)) (setf (gethash u%d hi) 1))", i)).OK() {
					continue
				}
				for j := 0; j < n; j++ {
					o := h.Eval(s, fmt.Sprintf("(multiple-value-list (gethash u%d hi))", j))
					if l, ok := o.Val.(slip.List); ok && len(l) == 2 {
						ident[i][j] = l[1] != nil
					}
				}
			}
			ev["ident"] = ident
			hash := make([]int, n)
			for i := 0; i < n; i++ {
				hash[i] = -1
				if o := h.Eval(s, fmt.Sprintf("(sxhash u%d)", i)); o.OK() {
					if f, ok := o.Val.(slip.Fixnum); ok {
						hash[i] = int(f % 1000003)
					}
				} else {
					errors = append(errors, fmt.Sprintf("(sxhash u%d) signals %s", i, o.Class))
				}
			}
			ev["sxhash"] = hash
			tindex := map[string]int{}
			for j, t := range st.Types {
				tindex[t] = j + 1
			}
			typeof, typep := make([]int, n), make([][]bool, n)
			for i := 0; i < n; i++ {
				if o := h.Eval(s, fmt.Sprintf("(type-of u%d)", i)); o.OK() {
					typeof[i] = tindex[slip.ObjectString(o.Val)]
				} else {
					errors = append(errors, fmt.Sprintf("(type-of u%d) signals %s", i, o.Class))
				}
				typep[i] = make([]bool, len(st.Types))
				for j, t := range st.Types {
					typep[i][j] = truthy(fmt.Sprintf("(typep u%d '%s)", i, t))
				}
			}
			ev["typeof"], ev["typep"] = typeof, typep
			sub := make([][]h.V, len(st.Types))
			for a, ta := range st.Types {
				sub[a] = make([]h.V, len(st.Types))
				for b, tb := range st.Types {
					cell := h.V{"v": false, "sure": false}
					if o := h.Eval(s, fmt.Sprintf("(multiple-value-list (subtypep '%s '%s))", ta, tb)); o.OK() {
						if l, ok := o.Val.(slip.List); ok && len(l) == 2 {
							cell = h.V{"v": l[0] != nil, "sure": l[1] != nil}
						}
					} else if len(errors) < 200 {
						errors = append(errors, fmt.Sprintf("(subtypep '%s '%s) signals %s", ta, tb, o.Class))
					}
					sub[a][b] = cell
				}
			}
			ev["subtypep"] = sub
			known := make([]bool, len(st.Types))
			for a, ta := range st.Types {
				known[a] = ta == "t" || truthy(fmt.Sprintf("(find-class '%s nil)", ta))
			}
			ev["known"] = known
			co := []any{}
			for _, c := range st.Coerce {
				i, t := int(c[0].(float64)), c[1].(string)
				o := h.Eval(s, fmt.Sprintf("(coerce u%d '%s)", i, t))
				isT := false
				if o.OK() {
					s.Let(slip.Symbol("vcoerced"), o.Val)
					isT = truthy(fmt.Sprintf("(typep vcoerced '%s)", t))
				}
				co = append(co, h.V{"i": i + 1, "t": t, "ok": o.OK(), "isT": isT})
			}
			ev["coerce"] = co
			for i, e := range errors { // name the universe elements
				for k := n - 1; k >= 0; k-- {
					e = strings.ReplaceAll(e, fmt.Sprintf("u%d ", k), st.Univ[k]+" ")
					e = strings.ReplaceAll(e, fmt.Sprintf("u%d)", k), st.Univ[k]+")")
				}
				errors[i] = e
			}
			ev["errors"] = errors
			out.Emit(ev)
			return
		}
		h.Eval(s, fmt.Sprintf("(setq h (make-hash-table :test '%s))", st.Test))
		for i, op := range st.Ops {
			u := 0
			if op.K < len(st.Keys) {
				u = st.Keys[op.K]
			}
			ev := h.V{"t": st.ID, "i": i + 1, "ev": op.Ev, "k": u, "v": op.V, "test": st.Test, "present": false, "seen": []any{}, "fault": false}
			val := "nil"
			if op.V >= 0 {
				val = fmt.Sprint(op.V)
			}
			var o h.Outcome
			switch op.Ev {
			case "put":
				o = h.Eval(s, fmt.Sprintf("(setf (gethash u%d h) %s)", u, val))
			case "get":
				o = h.Eval(s, fmt.Sprintf("(multiple-value-list (gethash u%d h))", u))
				ev["v"] = -1
				if l, ok := o.Val.(slip.List); ok && len(l) == 2 {
					if f, isf := l[0].(slip.Fixnum); isf {
						ev["v"] = int(f)
					}
					ev["present"] = l[1] != nil
				}
			case "rem":
				o = h.Eval(s, fmt.Sprintf("(remhash u%d h)", u))
				ev["present"] = o.OK() && o.Val != nil
			case "clr":
				o = h.Eval(s, "(clrhash h)")
			case "map":
				mu.Lock()
				seen = nil
				mu.Unlock()
				o = h.Eval(s, "(maphash #'vseen h)")
				mu.Lock()
				if seen != nil {
					ev["seen"] = seen
				}
				mu.Unlock()
			}
			ev["ok"], ev["fault"] = o.OK(), o.Fault()
			ev["count"] = -1
			if c := h.Eval(s, "(hash-table-count h)"); c.OK() {
				if f, ok := c.Val.(slip.Fixnum); ok {
					ev["count"] = int(f)
				}
			}
			out.Emit(ev)
		}
	})
}
