package main

import (
	"encoding/json"
	"fmt"
	"math/big"
	"sort"
	"strconv"
	"strings"
	"time"

	"github.com/ohler55/slip"
	"github.com/ohler55/slip/pkg/flavors"

	"verifharness/internal/h"
)

// C18: a document and a history of bag operations printed by Bag.tla. Stimulus:
//
//	{"id":1,"start":{"k":"obj","v":[["a",{"k":"int","v":1}]]},"hist":[{"op":"set","p":[{"t":"key","k":"b"}],"v":{"k":"int","v":9}}]}
//
// Event: per operation the status, the result as Lisp sees it and the document the bag holds afterwards (read from
// the instance, not through the printer); then the round trips of the final document.
func init() { drivers["c18"] = c18 }

type c18Doc struct {
	K string          `json:"k"`
	V json.RawMessage `json:"v"`
}

type c18Frag struct {
	T string `json:"t"`
	K string `json:"k"`
	I int    `json:"i"`
}

type c18Op struct {
	Op string    `json:"op"`
	P  []c18Frag `json:"p"`
	V  c18Doc    `json:"v"`
}

type c18Stim struct {
	ID    int     `json:"id"`
	Start c18Doc  `json:"start"`
	Hist  []c18Op `json:"hist"`
}

// the Go tree of a document
func c18Tree(d c18Doc) any {
	switch d.K {
	case "null":
		return nil
	case "bool":
		var b bool
		_ = json.Unmarshal(d.V, &b)
		return b
	case "int":
		var i int64
		_ = json.Unmarshal(d.V, &i)
		return i
	case "float":
		var s string
		_ = json.Unmarshal(d.V, &s)
		f, _ := strconv.ParseFloat(s, 64)
		return f
	case "str":
		var s string
		_ = json.Unmarshal(d.V, &s)
		return s
	case "big":
		var s string
		_ = json.Unmarshal(d.V, &s)
		return json.Number(s) // written into the JSON text as a number
	case "arr":
		var es []c18Doc
		_ = json.Unmarshal(d.V, &es)
		out := make([]any, len(es))
		for i, e := range es {
			out[i] = c18Tree(e)
		}
		return out
	case "obj":
		var kvs [][]json.RawMessage
		_ = json.Unmarshal(d.V, &kvs)
		out := map[string]any{}
		for _, kv := range kvs {
			var k string
			var v c18Doc
			_ = json.Unmarshal(kv[0], &k)
			_ = json.Unmarshal(kv[1], &v)
			out[k] = c18Tree(v)
		}
		return out
	}
	panic("document kind " + d.K)
}

// the document of a Go tree
func c18Project(v any) h.V {
	switch t := v.(type) {
	case nil:
		return h.V{"k": "null"}
	case bool:
		return h.V{"k": "bool", "v": t}
	case int64:
		return h.V{"k": "int", "v": t}
	case int:
		return h.V{"k": "int", "v": t}
	case float64:
		return h.V{"k": "float", "v": strconv.FormatFloat(t, 'g', -1, 64)}
	case json.Number:
		return h.V{"k": "big", "v": string(t)}
	case *big.Int:
		return h.V{"k": "big", "v": t.String()}
	case string:
		return h.V{"k": "str", "v": t}
	case []any:
		out := make([]any, len(t))
		for i, e := range t {
			out[i] = c18Project(e)
		}
		return h.V{"k": "arr", "v": out}
	case map[string]any:
		keys := make([]string, 0, len(t))
		for k := range t {
			keys = append(keys, k)
		}
		sort.Strings(keys)
		out := make([]any, len(keys))
		for i, k := range keys {
			out[i] = []any{k, c18Project(t[k])}
		}
		return h.V{"k": "obj", "v": out}
	}
	return h.V{"k": "other", "v": fmt.Sprintf("%T %v", v, v)}
}

// Lisp data for a document (the value given to bag-set)
func c18Lisp(v any) slip.Object {
	switch t := v.(type) {
	case nil:
		return nil
	case bool:
		if t {
			return slip.True
		}
		return nil
	case int64:
		return slip.Fixnum(t)
	case float64:
		return slip.DoubleFloat(t)
	case json.Number:
		bi, _ := new(big.Int).SetString(string(t), 10)
		return (*slip.Bignum)(bi)
	case string:
		return slip.String(t)
	case []any:
		out := make(slip.List, len(t))
		for i, e := range t {
			out[i] = c18Lisp(e)
		}
		return out
	case map[string]any:
		out := slip.List{}
		for k, e := range t {
			out = append(out, slip.List{slip.String(k), slip.Tail{Value: c18Lisp(e)}})
		}
		return out
	}
	panic("tree value")
}

// what Lisp got back
func c18View(o slip.Object) h.V {
	switch t := o.(type) {
	case nil:
		return h.V{"k": "nil"}
	case slip.Fixnum:
		return h.V{"k": "int", "v": int64(t)}
	case slip.DoubleFloat:
		return h.V{"k": "float", "v": strconv.FormatFloat(float64(t), 'g', -1, 64)}
	case slip.String:
		return h.V{"k": "str", "v": string(t)}
	case *slip.Bignum:
		return h.V{"k": "big", "v": (*big.Int)(t).String()}
	case slip.List:
		if len(t) == 0 {
			return h.V{"k": "nil"}
		}
		pairs := true
		for _, e := range t {
			p, ok := e.(slip.List)
			if !ok || len(p) != 2 {
				pairs = false
				break
			}
			if _, isTail := p[1].(slip.Tail); !isTail {
				pairs = false
				break
			}
			if _, isStr := p[0].(slip.String); !isStr {
				pairs = false
				break
			}
		}
		out := make([]any, len(t))
		if pairs {
			for i, e := range t {
				p := e.(slip.List)
				out[i] = []any{string(p[0].(slip.String)), c18View(p[1].(slip.Tail).Value)}
			}
			return h.V{"k": "alist", "v": out}
		}
		for i, e := range t {
			out[i] = c18View(e)
		}
		return h.V{"k": "list", "v": out}
	}
	if o == slip.True {
		return h.V{"k": "t"}
	}
	return h.V{"k": "other", "v": slip.ObjectString(o)}
}

func c18Path(p []c18Frag) string {
	var b strings.Builder
	b.WriteByte('$')
	for _, f := range p {
		switch f.T {
		case "key":
			if strings.ContainsAny(f.K, " .[]'") {
				fmt.Fprintf(&b, "['%s']", f.K)
			} else {
				b.WriteByte('.')
				b.WriteString(f.K)
			}
		case "idx":
			fmt.Fprintf(&b, "[%d]", f.I)
		case "wild":
			b.WriteString("[*]")
		case "desc":
			b.WriteString("..")
		}
	}
	// ($..a, not $...a: a key directly behind a descent is written without its dot)
	return strings.ReplaceAll(b.String(), "...", "..")
}

func c18Any(s *slip.Scope, name string) (any, bool) {
	inst, ok := h.Eval(s, name).Val.(*flavors.Instance)
	if !ok {
		return nil, false
	}
	return inst.Any, true
}

// c18BridgeTable: plain Go data of the kinds the statement lists, through slip.SimpleObject and back through Simplify; returns
// the cases that did not come back as the same data (integers of every Go integer type count as the same number, times are
// compared as instants). false and the empty map are left to the findings C18-F3 / C18-F1.
func c18BridgeTable() []string {
	t1 := time.Date(2024, 3, 5, 1, 2, 3, 0, time.UTC)
	t2 := time.Date(1999, 12, 31, 23, 59, 59, 123456789, time.UTC)
	t3 := time.Date(2024, 6, 1, 12, 0, 0, 0, time.FixedZone("plus2", 7200))
	cases := []struct {
		name string
		in   any
		want any
	}{
		{"nil", nil, nil}, {"true", true, true}, {"int", int(5), int64(5)}, {"int8", int8(-3), int64(-3)}, {"int16", int16(300), int64(300)},
		{"int32", int32(-70000), int64(-70000)}, {"int64-min", int64(-9223372036854775808), int64(-9223372036854775808)},
		{"uint", uint(7), int64(7)}, {"uint8", uint8(255), int64(255)}, {"uint32", uint32(4000000000), int64(4000000000)},
		{"float32", float32(1.5), float64(1.5)}, {"float64", float64(0.1), float64(0.1)}, {"string", "str", "str"}, {"empty-string", "", ""},
		{"time-utc", t1, t1}, {"time-nanoseconds", t2, t2}, {"time-zone", t3, t3},
		{"slice", []any{int64(1), "a", nil, true}, []any{int64(1), "a", nil, true}},
		{"empty-slice", []any{}, []any{}},
		{"map", map[string]any{"k": []any{t1, int64(2)}, "m": map[string]any{"x": 1.5}}, map[string]any{"k": []any{t1, int64(2)}, "m": map[string]any{"x": 1.5}}},
	}
	var same func(a, b any) bool
	same = func(a, b any) bool {
		switch ta := a.(type) {
		case time.Time:
			tb, ok := b.(time.Time)
			return ok && ta.Equal(tb)
		case []any:
			tb, ok := b.([]any)
			if !ok || len(ta) != len(tb) {
				return false
			}
			for i := range ta {
				if !same(ta[i], tb[i]) {
					return false
				}
			}
			return true
		case map[string]any:
			tb, ok := b.(map[string]any)
			if !ok || len(ta) != len(tb) {
				return false
			}
			for k, v := range ta {
				w, has := tb[k]
				if !has || !same(v, w) {
					return false
				}
			}
			return true
		}
		return a == b
	}
	bad := []string{}
	for _, c := range cases {
		var got any
		o := h.Try(func() slip.Object { got = slip.Simplify(slip.SimpleObject(c.in)); return nil })
		if !o.OK() {
			bad = append(bad, c.name+": "+o.Class+": "+o.Msg)
		} else if !same(c.want, got) {
			bad = append(bad, fmt.Sprintf("%s: %v (%T) came back as %v (%T)", c.name, c.in, c.in, got, got))
		}
	}
	return bad
}

func c18(args []string) {
	out := h.NewOut()
	defer out.Flush()
	s := slip.NewScope()
	bridge2 := c18BridgeTable()
	h.Lines(func(line []byte) {
		var st c18Stim
		if err := json.Unmarshal(line, &st); err != nil {
			panic(err)
		}
		tree := c18Tree(st.Start)
		text, _ := json.Marshal(tree)
		s.Let(slip.Symbol("btext"), slip.String(text))
		var raw map[string]json.RawMessage // the stimulus is echoed as it came
		_ = json.Unmarshal(line, &raw)
		ev := h.V{"id": st.ID, "start": raw["start"], "hist": raw["hist"], "steps": []any{}, "rt": h.V{"st": "not run"}, "bridge2": bridge2}
		bridge2 = []string{} // reported with the first history of the worker
		if o := h.Eval(s, "(setq b (make-bag btext))"); !o.OK() {
			ev["rt"] = h.V{"st": "make-bag: " + o.Msg}
			out.Emit(ev)
			return
		}
		steps := []any{}
		for _, op := range st.Hist {
			s.Let(slip.Symbol("bpath"), slip.String(c18Path(op.P)))
			var o h.Outcome
			switch op.Op {
			case "get":
				o = h.Eval(s, "(bag-get b bpath)")
			case "has":
				o = h.Eval(s, "(bag-has b bpath)")
			case "walk":
				o = h.Eval(s, "(let ((acc nil)) (bag-walk b (lambda (x) (setq acc (cons x acc))) bpath) (reverse acc))")
			case "set":
				s.Let(slip.Symbol("bval"), c18Lisp(c18Tree(op.V)))
				o = h.Eval(s, "(bag-set b bval bpath)")
			case "remove":
				o = h.Eval(s, "(bag-remove b bpath)")
			}
			step := h.V{"st": "ok", "res": h.V{"k": "nil"}, "after": h.V{"k": "null"}, "path": c18Path(op.P)}
			if !o.OK() {
				step["st"] = "err:" + o.Class + ": " + o.Msg
			} else if op.Op == "get" || op.Op == "has" {
				step["res"] = c18View(o.Val)
			} else if op.Op == "walk" {
				views := []any{}
				if l, ok := o.Val.(slip.List); ok {
					for _, x := range l {
						views = append(views, c18View(x))
					}
				}
				step["res"] = h.V{"k": "views", "v": views}
			}
			if a, ok := c18Any(s, "b"); ok {
				step["after"] = c18Project(a)
			}
			steps = append(steps, step)
		}
		ev["steps"] = steps
		// round trips of the document the bag holds now
		rt := h.V{"st": "ok"}
		final, _ := c18Any(s, "b")
		for name, form := range map[string]string{
			"sen":    "(setq b2 (make-bag (bag-write b)))",
			"json":   "(setq b2 (make-bag (bag-write b :json t)))",
			"pretty": "(setq b2 (make-bag (bag-write b :pretty t :right-margin 20)))",
			"native": "(progn (setq b2 (make-bag nil)) (bag-set b2 (bag-native b)))",
		} {
			rt[name] = h.V{"k": "none"}
			if o := h.Eval(s, form); !o.OK() {
				rt["st"] = name + ": " + o.Class + ": " + o.Msg
				continue
			}
			if a, ok := c18Any(s, "b2"); ok {
				rt[name] = c18Project(a)
			}
		}
		// several documents in one text, parsed with json-parse; the callback keeps the bags and they are looked at after
		// the whole text has been parsed: (the document now, the document at the start, the document now)
		for name, form := range map[string]string{
			"stream":  `(let ((acc nil)) (json-parse (lambda (x) (setq acc (cons x acc))) (concatenate 'string (bag-write b) " " btext " " (bag-write b))) (reverse acc))`,
			"streamj": `(let ((acc nil)) (json-parse (lambda (x) (setq acc (cons x acc))) (concatenate 'string (bag-write b :json t) " " btext " " (bag-write b :json t)) t) (reverse acc))`,
		} {
			rt[name] = h.V{"k": "none"}
			o := h.Eval(s, form)
			if !o.OK() {
				rt["st"] = name + ": " + o.Class + ": " + o.Msg
				continue
			}
			docs := []any{}
			if l, ok := o.Val.(slip.List); ok {
				for _, x := range l {
					if inst, ok := x.(*flavors.Instance); ok {
						docs = append(docs, c18Project(inst.Any))
					}
				}
			}
			rt[name] = h.V{"k": "arr", "v": docs}
		}
		br := h.Try(func() slip.Object {
			rt["bridge"] = c18Project(slip.Simplify(slip.SimpleObject(final)))
			return nil
		})
		if !br.OK() {
			rt["bridge"] = h.V{"k": "none"}
			rt["st"] = "bridge: " + br.Msg
		}
		ev["rt"] = rt
		out.Emit(ev)
	})
}
