package main

import (
	"bytes"
	"encoding/json"
	"fmt"
	"os"
	"os/exec"
	"strings"
	"time"

	"github.com/ohler55/slip"
	"github.com/ohler55/slip/pp"

	"verifharness/internal/h"
)

// C19: sessions printed by World.tla. Stimulus: {"id":1,"items":["wp1","wf1"],"forms":["(defparameter wp1 12)",...],"probes":["wp1","(wf1 5)",...]}
// Every session is a process of its own (`vdrive c19session`): the first evaluates the forms, answers the probes and
// takes a snapshot; the second starts fresh, loads the snapshot, answers the probes and takes a snapshot again.
// The first session also writes the load form (make-load-form) of every object of the session (World.tla Objs),
// pretty-printed under several right margins; for every distinct text a third fresh process evaluates the texts and
// answers the probes.
// Event: {"id","items","p1":[...],"st2":"ok"|...,"p2":[...],"same":bool,"snap":first snapshot (cut),
//
//	"lf":[{"margins":[20,28],"st":"ok"|...,"p":[...],"texts":[...]}]}
func init() {
	drivers["c19"] = c19
	drivers["c19session"] = c19session
}

type c19Obj struct {
	Anchor string `json:"anchor"`
	Expr   string `json:"expr"`
	Pre    string `json:"pre"`
	Post   string `json:"post"`
}

type c19Stim struct {
	ID     int      `json:"id"`
	Items  []string `json:"items"`
	Forms  []string `json:"forms"`
	Probes []string `json:"probes"`
	Objs   []c19Obj `json:"objs"`
	// Env: forms evaluated in the defining session after the probes have answered and before the load forms are printed
	// and the snapshot is taken: global settings of the printer variables (what is saved must not depend on them)
	Env []string `json:"env"`
}

type c19Job struct {
	Env    []string `json:"env"`
	Forms  []string `json:"forms"`
	Snap   string   `json:"snap"`
	Probes []string `json:"probes"`
	Objs   []c19Obj `json:"objs"`
}

// the load forms of the objects of a session, pretty-printed under one right margin and wrapped (pre, post)
type c19Texts struct {
	Margin int      `json:"margin"`
	St     string   `json:"st"`
	Texts  []string `json:"texts"`
}

type c19Res struct {
	St     string     `json:"st"`
	Probes []string   `json:"probes"`
	Snap   string     `json:"snap"`
	LF     []c19Texts `json:"lf"`
}

var c19Margins = []int{20, 28, 40, 56, 80, 120}

// the snapshot without its time stamp line
func c19Body(snap string) string {
	if i := strings.IndexByte(snap, '\n'); 0 <= i && strings.HasPrefix(snap, ";;;; Snapshot taken at") {
		return snap[i+1:]
	}
	return snap
}

func c19(args []string) {
	out := h.NewOut()
	defer out.Flush()
	self, _ := os.Executable()
	session := func(job c19Job) c19Res {
		in, _ := json.Marshal(job)
		cmd := exec.Command(self, "c19session")
		cmd.Env = append(os.Environ(), "GOMAXPROCS=2") // many short processes side by side
		cmd.Stdin = bytes.NewReader(in)
		var stdout bytes.Buffer
		cmd.Stdout = &stdout
		done := make(chan error, 1)
		if err := cmd.Start(); err != nil {
			return c19Res{St: "start: " + err.Error()}
		}
		go func() { done <- cmd.Wait() }()
		select {
		case err := <-done:
			var res c19Res
			if err != nil || json.Unmarshal(bytes.TrimSpace(stdout.Bytes()), &res) != nil {
				return c19Res{St: fmt.Sprintf("session failed: %v %.200s", err, stdout.Bytes())}
			}
			return res
		case <-time.After(60 * time.Second):
			_ = cmd.Process.Kill()
			return c19Res{St: "session hangs"}
		}
	}
	h.Lines(func(line []byte) {
		var st c19Stim
		if err := json.Unmarshal(line, &st); err != nil {
			panic(err)
		}
		pad := func(p []string) []string {
			for len(p) < len(st.Probes) {
				p = append(p, "not run")
			}
			return p
		}
		first := session(c19Job{Forms: st.Forms, Probes: st.Probes, Objs: st.Objs, Env: st.Env})
		second := session(c19Job{Snap: first.Snap, Probes: st.Probes})
		// the objects of the session rebuilt from their pretty-printed load forms, once per distinct text
		lf := []h.V{}
		seen := map[string]int{}
		for _, t := range first.LF {
			key := t.St + "\x00" + strings.Join(t.Texts, "\x00")
			if i, has := seen[key]; has {
				lf[i]["margins"] = append(lf[i]["margins"].([]int), t.Margin)
				continue
			}
			seen[key] = len(lf)
			ev := h.V{"margins": []int{t.Margin}, "st": t.St, "p": pad(nil), "texts": t.Texts}
			if t.St == "ok" {
				third := session(c19Job{Forms: t.Texts, Probes: st.Probes})
				ev["st"], ev["p"] = third.St, pad(third.Probes)
			}
			lf = append(lf, ev)
		}
		snap := c19Body(first.Snap)
		if 6000 < len(snap) {
			snap = snap[:6000]
		}
		out.Emit(h.V{"id": st.ID, "items": st.Items, "st1": first.St, "p1": pad(first.Probes), "st2": second.St, "p2": pad(second.Probes),
			"same": first.St == "ok" && second.St == "ok" && c19Body(first.Snap) == c19Body(second.Snap), "snap": snap, "lf": lf})
	})
}

func c19session(args []string) {
	var job c19Job
	_ = json.NewDecoder(os.Stdin).Decode(&job)
	res := c19Res{St: "ok", Probes: []string{}}
	s := slip.NewScope()
	for _, f := range job.Forms {
		if o := h.Eval(s, f); !o.OK() {
			if res.St == "ok" {
				res.St = ""
			} else {
				res.St += " ;; "
			}
			res.St += "form " + f + ": " + o.Class + ": " + o.Msg
		}
	}
	if 0 < len(job.Snap) {
		// a snapshot is a Lisp file: it is loaded the way a user loads it
		path, _ := os.CreateTemp("", "c19-*.lisp")
		_, _ = path.WriteString(job.Snap)
		_ = path.Close()
		defer os.Remove(path.Name())
		if o := h.Eval(s, fmt.Sprintf("(load %q)", path.Name())); !o.OK() {
			res.St = fmt.Sprintf("load: %s: %.300s", o.Class, o.Msg)
		}
	}
	for _, p := range job.Probes {
		// (the probes answer under the default printer settings whatever the session or its snapshot set)
		o := h.Eval(s, "(let ((*print-base* 10) (*print-radix* nil) (*print-length* nil) (*print-level* nil) (*print-prec* -1)) (prin1-to-string "+p+"))")
		if str, ok := o.Val.(slip.String); ok && o.OK() {
			res.Probes = append(res.Probes, string(str))
		} else {
			res.Probes = append(res.Probes, "error")
		}
	}
	for _, f := range job.Env {
		if o := h.Eval(s, f); !o.OK() && res.St == "ok" {
			res.St = "env " + f + ": " + o.Class + ": " + o.Msg
		}
	}
	for _, margin := range c19Margins {
		if len(job.Objs) == 0 {
			break
		}
		t := c19Texts{Margin: margin, St: "ok", Texts: []string{}}
		for _, ob := range job.Objs {
			var form slip.Object
			o := h.Eval(s, "(make-load-form "+ob.Expr+")")
			if !o.OK() {
				t.St = "make-load-form " + ob.Expr + ": " + o.Class + ": " + o.Msg
				break
			}
			form = o.Val
			ps := slip.NewScope()
			ps.Let(slip.Symbol("*print-right-margin*"), slip.Fixnum(margin))
			var text string
			if o = h.Try(func() slip.Object { text = string(pp.Append(nil, ps, form)); return nil }); !o.OK() {
				t.St = "pretty print of the load form of " + ob.Expr + ": " + o.Class + ": " + o.Msg
				break
			}
			t.Texts = append(t.Texts, ob.Pre+strings.TrimRight(text, "\n")+ob.Post)
		}
		res.LF = append(res.LF, t)
	}
	if o := h.Eval(s, "(snapshot nil)"); o.OK() {
		if str, ok := o.Val.(slip.String); ok {
			res.Snap = string(str)
		}
	} else if res.St == "ok" {
		res.St = "snapshot: " + o.Class + ": " + o.Msg
	}
	b, _ := json.Marshal(res)
	fmt.Println(string(b))
}
