package main

import (
	"encoding/json"
	"fmt"
	"math/big"
	"strconv"
	"strings"

	"github.com/ohler55/slip"

	"verifharness/internal/h"
)

// C03: print an object under every setting of its grid, read each distinct text back. Stimulus = one row printed by
// ObjGen.tla plus an id:
//
//	{"id":3,"obj":{"k":"list","v":[...]},"grid":{"bases":[10,16],"cases":["downcase"],"pretty":[false,true],"margins":[1,2],"readably":[true]}}
//
// One event per distinct (text, flat text) pair:
//
//	{"id":3,"obj":..,"orig":..,"cfg":{"base":10,"radix":true,...},"count":12,"st":"ok","text":"(1 2)","flat":"(1 2)","nread":1,"back":{...}}
func init() { drivers["c03"] = c03 }

type c03Val struct {
	K    string          `json:"k"`
	Neg  bool            `json:"neg"`
	Ds   []int           `json:"ds"`
	N    []int           `json:"n"`
	D    []int           `json:"d"`
	Fmt  string          `json:"fmt"`
	Txt  string          `json:"txt"`
	Kw   bool            `json:"kw"`
	Dims []int           `json:"dims"`
	V    json.RawMessage `json:"v"`
	Tail *c03Val         `json:"tail"`
}

type c03Grid struct {
	Bases    []int    `json:"bases"`
	Cases    []string `json:"cases"`
	Pretty   []bool   `json:"pretty"`
	Margins  []int    `json:"margins"`
	Readably []bool   `json:"readably"`
}

type c03Stim struct {
	ID   int             `json:"id"`
	Obj  c03Val          `json:"obj"`
	Raw  json.RawMessage `json:"-"`
	Grid c03Grid         `json:"grid"`
}

func c03Digits(ds []int) *big.Int {
	var b strings.Builder
	for _, d := range ds {
		b.WriteByte(byte('0' + d))
	}
	bi, ok := new(big.Int).SetString(b.String(), 10)
	if !ok {
		panic("digits " + b.String())
	}
	return bi
}

func c03Elems(raw json.RawMessage) slip.List {
	var elems []c03Val
	if err := json.Unmarshal(raw, &elems); err != nil {
		panic(err)
	}
	l := make(slip.List, len(elems))
	for i, e := range elems {
		l[i] = c03Obj(e)
	}
	return l
}

// nested lists of the row-major elements for the given dimensions
func c03Nest(dims []int, flat slip.List) (slip.List, slip.List) {
	if len(dims) == 0 {
		return nil, flat
	}
	out := make(slip.List, 0, dims[0])
	for i := 0; i < dims[0]; i++ {
		if len(dims) == 1 {
			out = append(out, flat[0])
			flat = flat[1:]
		} else {
			var sub slip.List
			sub, flat = c03Nest(dims[1:], flat)
			out = append(out, sub)
		}
	}
	return out, flat
}

func c03Obj(v c03Val) slip.Object {
	switch v.K {
	case "int":
		bi := c03Digits(v.Ds)
		if v.Neg {
			bi.Neg(bi)
		}
		if bi.IsInt64() {
			return slip.Fixnum(bi.Int64())
		}
		return (*slip.Bignum)(bi)
	case "ratio":
		n := c03Digits(v.N)
		if v.Neg {
			n.Neg(n)
		}
		return (*slip.Ratio)(new(big.Rat).SetFrac(n, c03Digits(v.D)))
	case "float":
		switch v.Fmt {
		case "single":
			f, err := strconv.ParseFloat(v.Txt, 32)
			if err != nil {
				panic(err)
			}
			return slip.SingleFloat(f)
		case "double":
			f, err := strconv.ParseFloat(v.Txt, 64)
			if err != nil {
				panic(err)
			}
			return slip.DoubleFloat(f)
		default:
			f, _, err := big.ParseFloat(v.Txt, 10, 128, big.ToNearestEven)
			if err != nil {
				panic(err)
			}
			return (*slip.LongFloat)(f)
		}
	case "str", "chr":
		if v.K == "chr" {
			var cp int
			if err := json.Unmarshal(v.V, &cp); err != nil {
				panic(err)
			}
			return slip.Character(rune(cp))
		}
		var cps []int
		if err := json.Unmarshal(v.V, &cps); err != nil {
			panic(err)
		}
		rs := make([]rune, len(cps))
		for i, c := range cps {
			rs[i] = rune(c)
		}
		return slip.String(string(rs))
	case "sym":
		var name string
		if err := json.Unmarshal(v.V, &name); err != nil {
			panic(err)
		}
		if v.Kw {
			return slip.Symbol(":" + name)
		}
		return slip.Symbol(name)
	case "nil":
		return nil
	case "t":
		return slip.True
	case "list":
		l := c03Elems(v.V)
		if len(l) == 0 {
			return nil
		}
		return l
	case "dotted":
		l := c03Elems(v.V)
		return append(l, slip.Tail{Value: c03Obj(*v.Tail)})
	case "vec":
		l := c03Elems(v.V)
		return slip.NewVector(len(l), slip.TrueSymbol, nil, l, true)
	case "hash":
		var kvs [][]c03Val
		if err := json.Unmarshal(v.V, &kvs); err != nil {
			panic(err)
		}
		ht := slip.HashTable{}
		for _, kv := range kvs {
			ht[c03Obj(kv[0])] = c03Obj(kv[1])
		}
		return ht
	case "array":
		flat := c03Elems(v.V)
		if len(v.Dims) == 0 {
			a := slip.NewArray([]int{}, slip.TrueSymbol, nil, nil, true)
			a.MajorSet(0, flat[0])
			return a
		}
		nested, _ := c03Nest(v.Dims, flat)
		return slip.NewArray(v.Dims, slip.TrueSymbol, nil, nested, true)
	}
	panic("value kind " + v.K)
}

func c03DigitsOf(bi *big.Int) []int {
	s := new(big.Int).Abs(bi).String()
	out := make([]int, len(s))
	for i := range s {
		out[i] = int(s[i] - '0')
	}
	return out
}

func c03Project(o slip.Object) h.V {
	switch t := o.(type) {
	case nil:
		return h.V{"k": "nil"}
	case slip.Fixnum:
		bi := big.NewInt(int64(t))
		return h.V{"k": "int", "neg": t < 0, "ds": c03DigitsOf(bi), "ty": "fixnum"}
	case *slip.Bignum:
		bi := (*big.Int)(t)
		return h.V{"k": "int", "neg": bi.Sign() < 0, "ds": c03DigitsOf(bi), "ty": "bignum"}
	case *slip.Ratio:
		r := (*big.Rat)(t)
		return h.V{"k": "ratio", "neg": r.Sign() < 0, "n": c03DigitsOf(r.Num()), "d": c03DigitsOf(r.Denom())}
	case slip.SingleFloat:
		return h.V{"k": "float", "fmt": "single", "txt": strconv.FormatFloat(float64(t), 'g', -1, 32)}
	case slip.DoubleFloat:
		return h.V{"k": "float", "fmt": "double", "txt": strconv.FormatFloat(float64(t), 'g', -1, 64)}
	case *slip.LongFloat:
		return h.V{"k": "float", "fmt": "long", "txt": (*big.Float)(t).Text('g', 30)}
	case slip.String:
		return h.V{"k": "str", "v": h.CodePoints(string(t))}
	case slip.Character:
		return h.V{"k": "chr", "v": int(t)}
	case slip.Symbol:
		// slip's symbols are not case sensitive (Symbol.Equal folds the case): the name is projected in lower case
		name := strings.ToLower(string(t))
		if strings.HasPrefix(name, ":") {
			return h.V{"k": "sym", "v": name[1:], "kw": true}
		}
		return h.V{"k": "sym", "v": name, "kw": false}
	case slip.List:
		items := make([]any, 0, len(t))
		for i, e := range t {
			if tl, ok := e.(slip.Tail); ok && i == len(t)-1 {
				return h.V{"k": "dotted", "v": items, "tail": c03Project(tl.Value)}
			}
			items = append(items, c03Project(e))
		}
		if len(items) == 0 {
			return h.V{"k": "nil"}
		}
		return h.V{"k": "list", "v": items}
	case *slip.Vector:
		items := []any{}
		for _, e := range t.AsList() {
			items = append(items, c03Project(e))
		}
		return h.V{"k": "vec", "v": items}
	case slip.HashTable:
		items := []any{}
		for k, v := range t {
			items = append(items, []any{c03Project(k), c03Project(v)})
		}
		return h.V{"k": "hash", "v": items}
	case *slip.Array:
		// the elements as aref reaches them (every index tuple, the last index varying fastest), not the storage
		items := []any{}
		dims := t.Dimensions()
		if dims == nil {
			dims = []int{}
		}
		total := 1
		for _, d := range dims {
			total *= d
		}
		idx := make([]int, len(dims))
		for n := 0; n < total; n++ {
			items = append(items, c03Project(t.Get(idx...)))
			for k := len(idx) - 1; k >= 0; k-- {
				if idx[k]++; idx[k] < dims[k] {
					break
				}
				idx[k] = 0
			}
		}
		return h.V{"k": "array", "dims": dims, "v": items}
	}
	if o == slip.True {
		return h.V{"k": "t"}
	}
	// a function object such as (quote a) or (function car) read back from 'a / #'car: project its list form
	if f, ok := o.(slip.Funky); ok {
		items := []any{h.V{"k": "sym", "v": f.GetName(), "kw": false}}
		for _, a := range f.GetArgs() {
			items = append(items, c03Project(a))
		}
		return h.V{"k": "list", "v": items}
	}
	return h.V{"k": "opaque", "s": fmt.Sprintf("%T %s", o, slip.ObjectString(o))}
}

func c03(args []string) {
	out := h.NewOut()
	defer out.Flush()
	s := slip.NewScope()
	lisp := func(b bool) string {
		if b {
			return "t"
		}
		return "nil"
	}
	h.Lines(func(line []byte) {
		var st c03Stim
		if err := json.Unmarshal(line, &st); err != nil {
			panic(err)
		}
		var raw struct {
			Obj json.RawMessage `json:"obj"`
		}
		_ = json.Unmarshal(line, &raw)
		obj := c03Obj(st.Obj)
		s.Let(slip.Symbol("fobj"), obj)
		orig := c03Project(obj)
		seen := map[string]int{}
		events := []h.V{}
		write := func(base int, radix bool, cs string, pretty bool, margin int, readably bool) (string, string) {
			o := h.Eval(s, fmt.Sprintf("(write-to-string fobj :base %d :radix %s :case :%s :pretty %s :right-margin %d :readably %s :array t)",
				base, lisp(radix), cs, lisp(pretty), margin, lisp(readably)))
			if !o.OK() {
				return "", "err:" + o.Class + ": " + o.Msg
			}
			str, ok := o.Val.(slip.String)
			if !ok {
				return "", "err:not a string"
			}
			return string(str), "ok"
		}
		for _, base := range st.Grid.Bases {
			radixes := []bool{true}
			if base == 10 {
				radixes = []bool{true, false}
			}
			for _, radix := range radixes {
				for _, cs := range st.Grid.Cases {
					for _, readably := range st.Grid.Readably {
						flat, flatSt := write(base, radix, cs, false, 80, readably)
						for _, pretty := range st.Grid.Pretty {
							margins := st.Grid.Margins
							if !pretty {
								margins = margins[:1]
							}
							for _, margin := range margins {
								text, status := flat, flatSt
								if pretty {
									text, status = write(base, radix, cs, true, margin, readably)
								}
								key := status + "\x00" + text + "\x00" + flat
								if i, has := seen[key]; has {
									events[i]["count"] = events[i]["count"].(int) + 1
									continue
								}
								seen[key] = len(events)
								ev := h.V{"id": st.ID, "obj": raw.Obj, "orig": orig, "count": 1, "st": status, "text": text, "flat": flat,
									"cfg":   h.V{"base": base, "radix": radix, "case": cs, "pretty": pretty, "margin": margin, "readably": readably},
									"nread": 0, "back": h.V{"k": "none"}, "readst": ""}
								if status == "ok" {
									// how many objects the text holds (the reader API of the library) and the object
									// read-from-string returns for it (the reader API of the language)
									var code slip.Code
									r := h.Try(func() slip.Object { code = slip.ReadString(text, s); return nil })
									if r.OK() {
										ev["nread"] = len(code)
									} else {
										ev["readst"] = r.Class + ": " + r.Msg
									}
									s.Let(slip.Symbol("ftext"), slip.String(text))
									if o := h.Eval(s, "(multiple-value-list (read-from-string ftext))"); o.OK() {
										if l, ok := o.Val.(slip.List); ok && 0 < len(l) {
											ev["back"] = c03Project(l[0])
										}
									} else if ev["readst"] == "" {
										ev["readst"] = o.Class + ": " + o.Msg
										ev["nread"] = 0
									}
								}
								events = append(events, ev)
							}
						}
					}
				}
			}
		}
		for _, ev := range events {
			out.Emit(ev)
		}
	})
}
