package main

import (
	"encoding/json"
	"fmt"
	"strings"

	"github.com/ohler55/slip"

	"verifharness/internal/h"
)

// C04 (binding half): one stimulus per lambda-list shape with all the calls TLC enumerated for it.
//
//	{"id":7,"ll":{"req":1,"opt":[0,3],"rest":true,"keys":[2],"aux":1},"prev":null|{...shape...},
//	 "calls":[{"args":[{"k":"int","v":1},{"k":"key","v":"k1"},...]}, ...]}
//
// Two functions are defined from the shape: one returns the list of all its parameters, one returns 42 without
// touching them (so that running with a missing binding cannot hide behind an unbound-variable error). When
// "prev" is given the functions are first defined with that lambda list, a caller of each is defined, and then
// they are redefined with the real one; the calls then go through the old callers.
// Event: {"t":7,"res":[{"direct":..,"funcall":..,"apply":..,"const":..}, ...]} one entry per call, each value
// {"st":"" | class, "v": projected result}.
func init() { drivers["c04bind"] = c04bind }

type c04Shape struct {
	Req  int   `json:"req"`
	Opt  []int `json:"opt"`
	Rest bool  `json:"rest"`
	Keys []int `json:"keys"`
	Aux  int   `json:"aux"`
	Aok  bool  `json:"aok"`
}

type c04Val struct {
	K string          `json:"k"`
	V json.RawMessage `json:"v"`
}

type c04Stim struct {
	ID    int       `json:"id"`
	LL    c04Shape  `json:"ll"`
	Prev  *c04Shape `json:"prev"`
	Calls []struct {
		Args []c04Val `json:"args"`
	} `json:"calls"`
}

func c04Render(v c04Val) string {
	switch v.K {
	case "int":
		return string(v.V)
	case "key":
		var s string
		_ = json.Unmarshal(v.V, &s)
		return ":" + s
	}
	return "nil"
}

// parameter names in lambda-list order, and the lambda list text
func c04LambdaList(ll c04Shape) (string, []string) {
	var parts, names []string
	first := ""
	dflt := func(name string, kind int) string {
		switch kind {
		case 1:
			return fmt.Sprintf("(%s 7)", name)
		case 2:
			return fmt.Sprintf("(%s (+ 3 5))", name)
		case 3:
			return fmt.Sprintf("(%s (+ %s 100))", name, first)
		}
		return name
	}
	for i := 1; i <= ll.Req; i++ {
		n := fmt.Sprintf("r%d", i)
		if first == "" {
			first = n
		}
		parts, names = append(parts, n), append(names, n)
	}
	if len(ll.Opt) > 0 {
		parts = append(parts, "&optional")
		for i, k := range ll.Opt {
			n := fmt.Sprintf("o%d", i+1)
			parts, names = append(parts, dflt(n, k)), append(names, n)
			if first == "" {
				first = n
			}
		}
	}
	if ll.Rest {
		parts, names = append(parts, "&rest", "more"), append(names, "more")
	}
	if len(ll.Keys) > 0 {
		parts = append(parts, "&key")
		for i, k := range ll.Keys {
			n := fmt.Sprintf("k%d", i+1)
			parts, names = append(parts, dflt(n, k)), append(names, n)
		}
	}
	if ll.Aok {
		parts = append(parts, "&allow-other-keys")
	}
	if ll.Aux > 0 {
		parts, names = append(parts, "&aux", "(a1 (+ 2 3))"), append(names, "a1")
	}
	return strings.Join(parts, " "), names
}

func c04bind(args []string) {
	out := h.NewOut()
	defer out.Flush()
	s := slip.NewScope()
	cell := func(o h.Outcome) h.V {
		c := h.V{"st": o.Class, "fault": o.Fault()}
		if o.OK() {
			c["v"] = h.Project(o.Val)
		}
		return c
	}
	h.Lines(func(line []byte) {
		var st c04Stim
		if err := json.Unmarshal(line, &st); err != nil {
			panic(err)
		}
		fl, fc := fmt.Sprintf("vfl-%d", st.ID), fmt.Sprintf("vfc-%d", st.ID)
		define := func(ll c04Shape) string {
			text, names := c04LambdaList(ll)
			o1 := h.Eval(s, fmt.Sprintf("(defun %s (%s) (list %s))", fl, text, strings.Join(names, " ")))
			o2 := h.Eval(s, fmt.Sprintf("(defun %s (%s) 42)", fc, text))
			return o1.Class + o2.Class
		}
		defst := ""
		callText := func(ci int) (string, string) {
			c := st.Calls[ci]
			parts := make([]string, len(c.Args))
			for i, a := range c.Args {
				parts[i] = c04Render(a)
			}
			as := strings.Join(parts, " ")
			if as != "" {
				return " ", as
			}
			return "", as
		}
		if st.Prev != nil {
			defst += define(*st.Prev)
			// one caller per call, defined (and so compiled) while the earlier definition is the current one
			for ci := range st.Calls {
				sp, as := callText(ci)
				h.Eval(s, fmt.Sprintf("(defun %s-old%d () (%s%s%s))", fl, ci, fl, sp, as))
				// ... and used once with it (whatever comes of it): anything a first call leaves behind belongs to the old definition
				h.Eval(s, fmt.Sprintf("(%s-old%d)", fl, ci))
			}
		}
		// a third copy of the function is called, by one caller per call, before it exists; the callers are used once (the
		// function is undefined), then it is defined and the callers are used again
		ff := fmt.Sprintf("vff-%d", st.ID)
		for ci := range st.Calls {
			sp, as := callText(ci)
			h.Eval(s, fmt.Sprintf("(defun %s-fwd%d () (%s%s%s))", ff, ci, ff, sp, as))
			h.Eval(s, fmt.Sprintf("(%s-fwd%d)", ff, ci))
		}
		{
			text, names := c04LambdaList(st.LL)
			defst += h.Eval(s, fmt.Sprintf("(defun %s (%s) (list %s))", ff, text, strings.Join(names, " "))).Class
		}
		defst += define(st.LL)
		res := []any{}
		for ci := range st.Calls {
			sp, as := callText(ci)
			r := h.V{
				"direct":  cell(h.Eval(s, fmt.Sprintf("(%s%s%s)", fl, sp, as))),
				"funcall": cell(h.Eval(s, fmt.Sprintf("(funcall #'%s%s%s)", fl, sp, as))),
				"apply":   cell(h.Eval(s, fmt.Sprintf("(apply #'%s (list%s%s))", fl, sp, as))),
				"const":   cell(h.Eval(s, fmt.Sprintf("(%s%s%s)", fc, sp, as))),
				"fwd":     cell(h.Eval(s, fmt.Sprintf("(%s-fwd%d)", ff, ci))),
			}
			if len(st.Calls[ci].Args) > 0 {
				// the function called twice by mapcar over one list per argument (the second time with every integer
				// 1000 higher): built-ins that call a function repeatedly may hand it the same argument buffer each time,
				// what the first call bound (the &rest list above all) must not change when the second call is made
				c := st.Calls[ci]
				lists, shifted := make([]string, len(c.Args)), make([]string, len(c.Args))
				for i, a := range c.Args {
					shifted[i] = c04Render(a)
					if a.K == "int" {
						var n int
						_ = json.Unmarshal(a.V, &n)
						shifted[i] = fmt.Sprint(n + 1000)
					}
					lists[i] = fmt.Sprintf("(list %s %s)", c04Render(a), shifted[i])
				}
				o := h.Eval(s, fmt.Sprintf("(mapcar #'%s %s)", fl, strings.Join(lists, " ")))
				first, second := o, o
				if l, ok := o.Val.(slip.List); ok && o.OK() && len(l) == 2 {
					first.Val, second.Val = l[0], l[1]
				}
				r["map2"], r["map2b"] = cell(first), cell(second)
				r["direct2"] = cell(h.Eval(s, fmt.Sprintf("(%s %s)", fl, strings.Join(shifted, " "))))
			}
			if st.Prev != nil {
				// a call site written before the redefinition and one compiled fresh inside a new function
				r["old"] = cell(h.Eval(s, fmt.Sprintf("(%s-old%d)", fl, ci)))
				h.Eval(s, fmt.Sprintf("(defun %s-site%d () (%s%s%s))", fl, ci, fl, sp, as))
				r["site"] = cell(h.Eval(s, fmt.Sprintf("(%s-site%d)", fl, ci)))
			}
			res = append(res, r)
		}
		out.Emit(h.V{"t": st.ID, "defst": defst, "res": res})
	})
}
