//go:build verif

package main

import (
	"encoding/json"
	"fmt"
	"os"
	"path/filepath"

	"github.com/ohler55/slip/pkg/repl"

	"verifharness/internal/h"
)

// C20: REPL history scenarios with restarts and crash points, as printed by spec/ReplStore/ReplStore.tla:
//
//	{"id":4,"limit":2,"ops":[{"op":"add","f":1},{"op":"add","f":2},{"op":"crash","f":0,"point":"compact.write","nth":2},
//	                         {"op":"add","f":3},{"op":"restart"}]}
//
// "add f" enters form number f of the pool, "clear a b" clears the entries a..b, a "crash" record says that the
// operation before it died just before the named file-system step ran for the nth time (f = 1: in the middle of
// that write, leaving an unterminated fragment); the in-memory History is then discarded and a new one loads the
// directory, as after every "restart". Events: one per operation; restarts and crashes carry the loaded history.
func init() { drivers["c20"] = c20 }

type c20Op struct {
	Op    string `json:"op"`
	F     int    `json:"f"`
	A     int    `json:"a"`
	B     int    `json:"b"`
	Point string `json:"point"`
	Nth   int    `json:"nth"`
	// Lisp: the clear is made the way the function (clear-history) makes it, through the stash embedded in the history
	Lisp bool `json:"lisp"`
}

type c20Stim struct {
	ID    int     `json:"id"`
	Limit int     `json:"limit"`
	Kind  string  `json:"kind"` // "" the history, "stash" the stash file (no limit, forms written expanded)
	Ops   []c20Op `json:"ops"`
}

// what the replay needs of a History and of a Stash
type c20Store interface {
	Add(form repl.Form)
	Clear(start, end int)
	Size() int
	Nth(n int) repl.Form
}

type c20Death struct{}

// the pool: multi-line forms, non-ASCII (inside strings: the stash parses what it loads and slip's reader takes no
// non-ASCII character outside a string), a form that needs several lines
var c20Pool = [][]string{
	// (forms with a parenthesis that is not code: inside a string, as a character, in a comment)
	{"(one)"}, {"(two", "  2)"}, {"(trois \"é ü\")"}, {"(format t \"~a(\" 4)"}, {"(five ; (see below", " 5", " five)"}, {"(char= c #\\()"}, {"(sept \"😀\")"},
	{"(eight \")\" #\\))"},
}

// probe forms for recorded findings: 101 a tab inside a line, 102 leading and trailing blanks
func c20Form(f int) repl.Form {
	var lines []string
	switch {
	case f == 101:
		lines = []string{"(tab\there)"}
	case f == 102:
		lines = []string{"  (blanks)  "}
	case f <= len(c20Pool):
		lines = c20Pool[f-1]
	default:
		lines = []string{fmt.Sprintf("(form %d)", f)}
	}
	form := repl.Form{}
	for _, l := range lines {
		form = append(form, []rune(l))
	}
	return form
}

func c20Lines(f repl.Form) [][]int {
	out := [][]int{}
	for _, line := range f {
		cps := []int{}
		for _, r := range line {
			cps = append(cps, int(r))
		}
		out = append(out, cps)
	}
	return out
}

var c20Hook = map[string]string{
	"append.open": "history.append.open", "append.write": "history.append.write",
	"compact.open": "history.compact.open", "compact.write": "history.compact.write", "compact.rename": "history.compact.rename",
	"clear.open": "history.clear.open", "clear.write": "history.clear.write",
}

func c20(args []string) {
	out := h.NewOut()
	defer out.Flush()
	base := os.Getenv("VERIF_SCRATCH_DIR")
	h.Lines(func(line []byte) {
		var st c20Stim
		if err := json.Unmarshal(line, &st); err != nil {
			panic(err)
		}
		dir, err := os.MkdirTemp(base, "c20-")
		if err != nil {
			panic(err)
		}
		defer os.RemoveAll(dir)
		file := filepath.Join(dir, "history")
		stash := st.Kind == "stash"
		loadFailed := ""
		curLimit := st.Limit // the configured limit: changed by "limit" operations, kept over restarts (it is a saved setting)
		load := func() c20Store {
			if stash {
				sh := &repl.Stash{}
				// a stash file the reader rejects makes LoadExpanded panic (the session would not start): recorded
				func() {
					defer func() {
						if r := recover(); r != nil {
							loadFailed = fmt.Sprintf("%.200v", r)
						}
					}()
					sh.LoadExpanded(file)
				}()
				return sh
			}
			hist := &repl.History{}
			hist.SetLimit(curLimit)
			hist.Load(file)
			return hist
		}
		loadedOf := func(hist c20Store) [][][]int {
			loaded := [][][]int{}
			for k := hist.Size() - 1; 0 <= k; k-- { // Nth(0) is the most recent form; the reference keeps oldest first
				loaded = append(loaded, c20Lines(hist.Nth(k)))
			}
			return loaded
		}
		hist := load()
		// run f; when the next record is a crash, die at that point (optionally leaving half of the pending write)
		guarded := func(crash *c20Op, pending func(k int) []byte, f func()) (crashed bool) {
			cnt := 0
			if crash != nil {
				hook := c20Hook[crash.Point]
				if stash {
					hook = map[string]string{"append.open": "stash.add.open", "append.write": "stash.add.write",
						"clear.open": "stash.clear.open", "clear.write": "stash.clear.write"}[crash.Point]
				}
				repl.VerifCrash = func(point string) {
					if point != hook {
						return
					}
					if cnt++; cnt == crash.Nth {
						if crash.F == 1 { // a write cut short: half of the bytes reach the file
							data := pending(crash.Nth)
							target := file
							if crash.Point == "compact.write" {
								target = file + ".tmp"
							}
							if fh, e := os.OpenFile(target, os.O_APPEND|os.O_CREATE|os.O_WRONLY, 0644); e == nil {
								_, _ = fh.Write(data[:len(data)/2])
								_ = fh.Close()
							}
						}
						panic(c20Death{})
					}
				}
			}
			defer func() {
				repl.VerifCrash = nil
				if r := recover(); r != nil {
					if _, ok := r.(c20Death); ok {
						crashed = true
						return
					}
					panic(r)
				}
			}()
			f()
			return
		}
		for i := 0; i < len(st.Ops); i++ {
			op := st.Ops[i]
			var crash *c20Op
			if i+1 < len(st.Ops) && st.Ops[i+1].Op == "crash" {
				crash = &st.Ops[i+1]
			}
			ev := h.V{"t": st.ID, "i": i, "op": op.Op, "limit": curLimit, "crashed": false, "form": [][]int{}, "a": op.A, "b": op.B, "loaded": [][][]int{}}
			switch op.Op {
			case "add":
				form := c20Form(op.F)
				ev["form"] = c20Lines(form)
				// bytes of the k-th pending write: the form itself when appending, the k-th kept form when compacting
				pending := func(k int) []byte {
					if crash != nil && crash.Point == "compact.write" {
						all := append(loadedOf(hist), nil)
						_ = all
						n := hist.Size() // after Add trimmed it: the kept forms, oldest first
						return hist.Nth(n - k).TabAppend(nil)
					}
					if stash { // the stash appends the form as it was typed, line by line
						return append(form.Append(nil), '\n')
					}
					return form.TabAppend(nil)
				}
				ev["crashed"] = guarded(crash, pending, func() { hist.Add(form) })
			case "clear":
				pending := func(k int) []byte { return hist.Nth(hist.Size() - k).TabAppend(nil) }
				ev["crashed"] = guarded(crash, pending, func() {
					if hl, ok := hist.(*repl.History); ok && op.Lisp {
						hl.Stash.Clear(op.A, op.B) // what cleanStaskCall(f, &TheHistory.Stash, ...) of (clear-history) does
						return
					}
					hist.Clear(op.A, op.B)
				})
			case "limit":
				// (setq *repl-history-limit* n): History.SetLimit on the running session
				curLimit = op.F
				if hl, ok := hist.(*repl.History); ok {
					hl.SetLimit(op.F)
				}
			case "crash":
				// the process is gone; the next session loads what the files hold
				hist = load()
				ev["loaded"] = loadedOf(hist)
				ev["point"], ev["nth"], ev["torn"] = op.Point, op.Nth, op.F == 1
			case "restart":
				hist = load()
				ev["loaded"] = loadedOf(hist)
			}
			if loadFailed != "" {
				ev["loadfailed"] = loadFailed
			}
			out.Emit(ev)
		}
	})
}
