package main

import (
	"encoding/json"
	"fmt"

	"github.com/ohler55/slip"

	"verifharness/internal/h"
)

// C13: package histories. Stimulus (one per line):
//
//	{"id":17,"every":false,"ops":[{"op":"use","a":"pb","b":"","c":0}, ...]}
//
// Events: one per operation {"t","i","op","a","b","c","st"} and, after the last
// operation (or after every one when "every" is set), "obs" and "qobs".
func init() { drivers["c13"] = c13 }

type c13Op struct {
	Op string `json:"op"`
	A  string `json:"a"`
	B  string `json:"b"`
	C  int    `json:"c"`
}

type c13Stim struct {
	ID    int     `json:"id"`
	Every bool    `json:"every"`
	Ops   []c13Op `json:"ops"`
}

var (
	c13Pkgs  = []string{"pa", "pb", "pc"}
	c13Names = []string{"n1", "n2"}
)

// c13Cell projects the outcome of looking a name up: the small integer bound to
// it, 0 when the name is unbound/undefined (any way of saying so), -1 otherwise.
func c13Cell(o h.Outcome, fn bool) int {
	if o.OK() {
		if n, ok := o.Val.(slip.Fixnum); ok {
			return int(n)
		}
		if o.Val == slip.Unbound {
			return 0
		}
		if sym, ok := o.Val.(slip.Symbol); ok && sym == slip.Symbol("unbound") {
			return 0
		}
		return -1
	}
	if fn {
		// Calling an undefined function is reported in several ways (one of them an
		// internal fault); all of them mean "not callable from here".
		return 0
	}
	if o.Class == "unbound-variable" {
		return 0
	}
	return -1
}

func c13(args []string) {
	out := h.NewOut()
	defer out.Flush()
	s := slip.NewScope()
	h.Lines(func(line []byte) {
		var st c13Stim
		if err := json.Unmarshal(line, &st); err != nil {
			panic(err)
		}
		real := map[string]string{}
		for _, p := range c13Pkgs {
			real[p] = fmt.Sprintf("v%s%d", p, st.ID)
			if o := h.Eval(s, fmt.Sprintf("(defpackage :%s (:use :cl))", real[p])); !o.OK() {
				panic(o.Msg)
			}
		}
		cur := c13Pkgs[0]
		inpkg := func(p string) { h.Eval(s, fmt.Sprintf("(in-package :%s)", p)) }
		inpkg(real[cur])
		for i, op := range st.Ops {
			var src string
			switch op.Op {
			case "use":
				src = fmt.Sprintf("(use-package :%s)", real[op.A])
			case "unuse":
				src = fmt.Sprintf("(unuse-package :%s)", real[op.A])
			case "inpkg":
				src = fmt.Sprintf("(in-package :%s)", real[op.A])
				cur = op.A
			case "export":
				src = fmt.Sprintf("(export '%s)", op.A)
			case "unexport":
				src = fmt.Sprintf("(unexport '%s)", op.A)
			case "def":
				if op.A == "var" {
					src = fmt.Sprintf("(setq %s %d)", op.B, op.C)
				} else {
					src = fmt.Sprintf("(defun %s () %d)", op.B, op.C)
				}
			case "undef":
				if op.A == "var" {
					src = fmt.Sprintf("(makunbound '%s)", op.B)
				} else {
					src = fmt.Sprintf("(fmakunbound '%s)", op.B)
				}
			default:
				panic("unknown op " + op.Op)
			}
			o := h.Eval(s, src)
			ev := h.V{"t": st.ID, "i": i, "op": op.Op, "a": op.A, "b": op.B, "c": op.C, "st": o.Class, "form": src}
			if st.Every || i == len(st.Ops)-1 {
				obs, q := h.V{}, h.V{}
				for _, p := range c13Pkgs {
					inpkg(real[p])
					vars, fns := map[string]int{}, map[string]int{}
					for _, n := range c13Names {
						vars[n] = c13Cell(h.Eval(s, fmt.Sprintf("(if (boundp '%s) %s 'unbound)", n, n)), false)
						// (apply 'n nil) does not create a placeholder function the way (n) would
						fns[n] = c13Cell(h.Eval(s, fmt.Sprintf("(apply '%s nil)", n)), true)
					}
					obs[p] = h.V{"var": vars, "fn": fns}
				}
				inpkg("cl-user")
				for _, p := range c13Pkgs {
					vars, fns := h.V{}, h.V{}
					for _, n := range c13Names {
						vars[n] = map[string]int{
							"ext": c13Cell(h.Eval(s, fmt.Sprintf("%s:%s", real[p], n)), false),
							"int": c13Cell(h.Eval(s, fmt.Sprintf("%s::%s", real[p], n)), false)}
						fns[n] = map[string]int{
							"ext": c13Cell(h.Eval(s, fmt.Sprintf("(%s:%s)", real[p], n)), true),
							"int": c13Cell(h.Eval(s, fmt.Sprintf("(%s::%s)", real[p], n)), true)}
					}
					q[p] = h.V{"var": vars, "fn": fns}
				}
				inpkg(real[cur])
				ev["obs"], ev["qobs"] = obs, q
			}
			out.Emit(ev)
		}
		inpkg("cl-user")
		for _, p := range c13Pkgs {
			h.Eval(s, fmt.Sprintf("(delete-package :%s)", real[p]))
		}
	})
}
