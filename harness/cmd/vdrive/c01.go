package main

// C01 / C07: programs over the core language with (vmark id value) in every evaluated
// position.  `vdrive c01 gen <seed> <n> <depth> <profile>` prints stimuli
//   {"id","defs":[{name,ps,body}],"ast":{...},"defsrc":[...],"src":"..."}
// (profile "core" = C01 forms, "ctl" = the same with non-local exits, cleanups and errors: C07)
// `vdrive c01` runs stimuli from stdin and prints start / mark / end events.
//
// The AST is the one spec/Core/Core.tla interprets; this file only chooses programs and renders them.

import (
	"bufio"
	"encoding/json"
	"fmt"
	"math/rand"
	"os"
	"sort"
	"strconv"
	"strings"
	"sync"

	"github.com/ohler55/slip"
	"github.com/ohler55/slip/pkg/gi"

	"verifharness/internal/h"
)

func init() { drivers["c01"] = c01 }

// ---- AST -------------------------------------------------------------
type N = map[string]any

type gen struct {
	rng     *rand.Rand
	mark    int
	vctr    int
	fctr    int
	funcs   []fdef   // named functions available for calls
	blocks  []string // blocks of the current function activation that may be left from here
	tags    []string // tags of enclosing tagbodies in the current function activation
	bctr    int
	catcher string          // control profile: name of (defun c (f) (block bq (funcall f) 5)), a function with a block named bq of its own
	maker   string          // name of a defined function that returns a closure counting up from its argument
	ctl     bool            // profile: generate non-local exits, cleanups, errors
	inline  bool            // profile "defs": also inline lambda calls ((lambda (p) ...) arg)
	rctr    int             // resources (mutexes, files) made so far in this program
	macro   [2]string       // names of the two macros of the program ("" = none): (mw a), (mb var form...)
	noExit  int             // > 0 while inside a position from which an exit is not generated (cleanup forms, binding init forms)
	clash   bool            // profile "core": closures called where a variable of the captured name is bound (finding C01-F4)
	feats   map[string]bool // features of the current program that open findings are about (stimulus field "features")
}
type fdef struct {
	name  string
	arity int
}

func I(n int) N              { return N{"k": "int", "v": n} }
func lit(v N) N              { return N{"k": "lit", "v": v} }
func nilV() N                { return N{"k": "nil"} }
func (g *gen) fresh() string { g.vctr++; return fmt.Sprintf("v%d", g.vctr) }
func sym(n string) N         { return N{"k": "sym", "v": n} }
func str(x string) N         { return N{"k": "str", "v": x} }
func lst(es ...any) N {
	if len(es) == 0 {
		return nilV()
	}
	return N{"k": "list", "v": es}
}

// datum is a piece of data to be quoted: symbols (also names of functions and special forms, a list that looks like a
// call must not be evaluated), strings, keywords, integers, nil, nested lists and quote forms inside
func (g *gen) datum(d int) N {
	switch ch := g.rng.Intn(10); {
	case ch < 2:
		return I(g.rng.Intn(10))
	case ch < 4:
		return sym([]string{"a", "b", "foo", "vmark", "setq", "x", "error", "quote", ":k"}[g.rng.Intn(9)])
	case ch < 5:
		return str([]string{"s", "two words", ""}[g.rng.Intn(3)])
	case ch < 6:
		return nilV()
	case ch < 7 && d > 0:
		if g.one(2) {
			// 'x inside quoted data: the datum is the list (quote x) (value kind qobj: the machine reads it as that list)
			g.feats["quote-shorthand-in-data"] = true
			return N{"k": "qobj", "v": g.datum(d - 1)}
		}
		return lst(sym("quote"), g.datum(d-1)) // (quote x) inside quoted data is the list (quote x)
	case d > 0:
		es := []any{}
		if g.one(3) {
			es = append(es, sym([]string{"vmark", "setq", "error", "return-from", "go"}[g.rng.Intn(5)]))
		}
		for i := g.rng.Intn(4); i > 0; i-- {
			es = append(es, g.datum(d-1))
		}
		return lst(es...)
	}
	return sym("a")
}

// quoted renders a literal datum as 'd or (quote d); self-evaluating data sometimes bare
func (g *gen) quoted(v N) N {
	n := N{"k": "lit", "v": v, "q": 1 + g.rng.Intn(2)}
	if k := v["k"]; (k == "int" || k == "str" || k == "nil") && g.one(2) {
		n["q"] = 0
	}
	if v["k"] == "sym" && strings.HasPrefix(v["v"].(string), ":") && g.one(2) {
		n["q"] = 0 // a keyword evaluates to itself
	}
	return n
}
func (g *gen) m(e N) N        { g.mark++; return N{"k": "mark", "id": g.mark, "e": e} }
func (g *gen) one(n int) bool { return g.rng.Intn(n) == 0 }

// exitForm returns a non-local exit that is legal here, or nil
func (g *gen) exitForm(d int, vars []string) N {
	if !g.ctl || g.noExit > 0 {
		return nil
	}
	switch g.rng.Intn(6) {
	case 0, 1:
		if len(g.blocks) > 0 {
			name := g.blocks[g.rng.Intn(len(g.blocks))]
			return N{"k": "retfrom", "name": name, "e": g.num(d-1, vars)}
		}
	case 2:
		// only the forward tags (suffix b) so that every generated program terminates
		fwd := []string{}
		for _, t := range g.tags {
			if strings.HasSuffix(t, "b") {
				fwd = append(fwd, t)
			}
		}
		if len(fwd) > 0 && g.one(2) {
			return N{"k": "go", "tag": fwd[g.rng.Intn(len(fwd))]}
		}
	case 3:
		if g.one(3) {
			return g.errorForm()
		}
	}
	return nil
}

// errorForm signals a condition of one of several classes: by (error ...), by dividing by zero, by a function
// applied to the wrong kind of argument and by a variable that is not bound
func (g *gen) errorForm() N {
	switch g.rng.Intn(6) {
	case 0:
		return N{"k": "error", "class": "division-by-zero"}
	case 1:
		return N{"k": "car", "a": lit(I(7))} // type-error
	case 2:
		return N{"k": "add", "a": lit(I(1)), "b": g.quoted(sym("a"))} // type-error
	case 3:
		return N{"k": "var", "n": "not-bound-anywhere"} // unbound-variable
	}
	return N{"k": "error", "class": "error"}
}

// body generates a sequence of 1..3 forms in body position (the last one gives the value)
func (g *gen) body(d int, vars []string) []any {
	es := []any{}
	for i := g.rng.Intn(3); i >= 0; i-- {
		if x := g.exitForm(d, vars); x != nil && g.one(4) {
			es = append(es, x)
			continue
		}
		if i > 0 && g.one(6) {
			es = append(es, g.m(g.quoted(g.datum(2)))) // a quoted datum in a position whose value is dropped
			continue
		}
		es = append(es, g.num(d-1, vars))
	}
	return es
}

// num generates an expression that evaluates to an int (or leaves through an exit)
func (g *gen) num(d int, vars []string) N {
	if d <= 0 {
		return g.leaf(vars)
	}
	if x := g.exitForm(d, vars); x != nil && g.one(12) {
		return x
	}
	if g.inline && len(vars) > 0 && g.one(8) {
		// ((lambda (p) (+ p v)) arg): an inline lambda call whose body uses a variable of the enclosing function
		p := g.fresh()
		v := vars[g.rng.Intn(len(vars))]
		lam := N{"k": "lam", "ps": []any{p}, "body": []any{g.m(N{"k": "add", "a": N{"k": "var", "n": p}, "b": N{"k": "var", "n": v}})}}
		return g.m(N{"k": "fcall", "f": lam, "args": []any{g.noex(func() N { return g.num(d-1, vars) })}, "spread": false, "inline": true})
	}
	if g.macro[0] != "" && g.one(14) {
		// a call of a macro of the program: the machine evaluates the expansion (field exp), the text is the macro call
		if g.one(2) {
			// (mw a) => (+ a (car (cdr (list 0 K 2)))): the template has a sub-form without commas whose value is a list
			a := g.noex(func() N { return g.num(d-1, vars) })
			return g.m(N{"k": "mcall", "name": g.macro[0], "args": []any{a},
				"exp": N{"k": "add", "a": a, "b": mwTail()}})
		}
		// (mb v form...) => (let ((v (car (cdr (list 0 K 2))))) form...)
		v := g.fresh()
		body := g.body(d-1, append(append([]string{}, vars...), v))
		return g.orZero(N{"k": "mcall", "name": g.macro[1], "args": append([]any{N{"k": "var", "n": v}}, body...),
			"exp": N{"k": "let", "bs": []any{N{"n": v, "e": mwTail()}}, "body": body}})
	}
	if d >= 2 && g.one(25) {
		return g.redefun(d, vars)
	}
	if g.one(9) {
		return g.more(d, vars)
	}
	switch ch := g.rng.Intn(26); {
	case ch < 3:
		return g.leaf(vars)
	case ch < 5:
		op := []string{"add", "sub"}[g.rng.Intn(2)]
		return g.m(N{"k": op, "a": g.num(d-1, vars), "b": g.num(d-1, vars)})
	case ch < 6 && len(vars) > 0:
		return g.m(N{"k": "setq", "n": vars[g.rng.Intn(len(vars))], "e": g.noex(func() N { return g.num(d-1, vars) })})
	case ch < 7:
		return N{"k": "if", "c": g.cond(d-1, vars), "a": g.num(d-1, vars), "b": g.num(d-1, vars)}
	case ch < 8:
		k := []string{"when", "unless"}[g.rng.Intn(2)]
		// the value is an int only when the body runs: wrap so that nil becomes 0
		return g.orZero(N{"k": k, "c": g.cond(d-1, vars), "body": g.body(d-1, vars)})
	case ch < 9:
		cs := []any{}
		for i := g.rng.Intn(3); i >= 0; i-- {
			c := N{"c": g.cond(d-1, vars), "body": g.body(d-1, vars)}
			if g.one(5) {
				c = N{"c": g.m(g.num(d-1, vars)), "body": []any{}} // a clause with only a test: its value is the result
			}
			cs = append(cs, c)
		}
		cs = append(cs, N{"c": lit(N{"k": "t"}), "body": g.body(d-1, vars)})
		return N{"k": "cond", "cs": cs}
	case ch < 10:
		cs := []any{}
		emptyClause := false
		for i, n := 0, 1+g.rng.Intn(2); i < n; i++ {
			keys := []any{I(g.rng.Intn(4))}
			if g.one(2) {
				keys = append(keys, I(g.rng.Intn(4)))
			}
			body := g.body(d-1, vars)
			if g.one(5) {
				body = []any{} // a clause without forms: when it is selected the value is nil and no other clause is looked at
				emptyClause = true
			}
			cs = append(cs, N{"keys": keys, "dflt": false, "body": body})
		}
		if g.one(4) {
			// (typecase e (type body) ...) / etypecase on an integer, a string, a symbol, nil or a list
			tcs := []any{}
			types := []string{"fixnum", "string", "null", "symbol", "list", "integer", "number"}
			for i, n := 0, 1+g.rng.Intn(3); i < n; i++ {
				tbody := g.body(d-1, vars)
				if g.one(6) {
					tbody = []any{}
				}
				tcs = append(tcs, N{"type": types[g.rng.Intn(len(types))], "body": tbody})
			}
			strict := g.ctl && g.one(3)
			if !strict && g.one(2) {
				tcs = append(tcs, N{"type": "t", "body": g.body(d-1, vars)})
			}
			// (no list as the key: slip's typecase, pinned by its suite, takes a list key as "any element is of the type")
			keys := []N{I(g.rng.Intn(4)), str("s"), sym("foo"), nilV()}
			tc := N{"k": "tcase", "strict": strict, "e": g.m(g.quoted(keys[g.rng.Intn(len(keys))])), "cs": tcs}
			if strict {
				return g.orZero(N{"k": "ignerr", "body": []any{tc}})
			}
			return g.orZero(tc)
		}
		if g.ctl && g.one(4) {
			// (ecase e ...) signals a type-error when no clause matches
			return g.orZero(N{"k": "ignerr", "body": []any{N{"k": "case", "strict": true, "e": g.m(N{"k": "lit", "v": I(g.rng.Intn(5))}), "cs": cs}}})
		}
		cs = append(cs, N{"keys": []any{}, "dflt": true, "body": g.body(d-1, vars)})
		cf := N{"k": "case", "strict": false, "e": g.m(N{"k": "lit", "v": I(g.rng.Intn(4))}), "cs": cs}
		if emptyClause {
			return g.orZero(cf)
		}
		return cf
	case ch < 12:
		return g.let(d, vars, g.one(2))
	case ch < 13:
		return N{"k": "progn", "es": g.body(d-1, vars)}
	case ch < 14:
		es := []any{g.num(d-1, vars)}
		for i := g.rng.Intn(2); i >= 0; i-- {
			es = append(es, g.num(d-1, vars))
		}
		return N{"k": "prog1", "es": es}
	case ch < 16 && len(g.funcs) > 0:
		f := g.funcs[g.rng.Intn(len(g.funcs))]
		args := make([]any, f.arity)
		for i := range args {
			args[i] = g.num(d-1, vars)
		}
		switch g.rng.Intn(3) {
		case 0:
			return g.m(N{"k": "fcall", "f": N{"k": "fnref", "name": f.name}, "args": args, "spread": false})
		case 1:
			// (apply #'f a (list b))
			n := len(args)
			last := N{"k": "list", "es": []any{args[n-1]}}
			return g.m(N{"k": "fcall", "f": N{"k": "fnref", "name": f.name}, "args": append(append([]any{}, args[:n-1]...), last), "spread": true})
		}
		return g.m(N{"k": "call", "f": f.name, "args": args})
	case ch < 17:
		return g.closure(d, vars)
	case ch < 18 && g.maker != "":
		a, b := g.fresh(), g.fresh()
		call := func(f string) N {
			return g.m(N{"k": "fcall", "f": N{"k": "var", "n": f}, "args": []any{g.num(d-2, vars)}, "spread": false})
		}
		mk := func() N {
			return N{"k": "call", "f": g.maker, "args": []any{g.noex(func() N { return g.num(d-2, vars) })}}
		}
		return N{"k": "letx", "bs": []any{N{"n": a, "e": mk()}, N{"n": b, "e": mk()}},
			"body": []any{call(a), call(b), call(a), g.m(N{"k": "add", "a": call(b), "b": call(a)})}}
	case ch < 20:
		return g.loop(d, vars)
	case ch < 21:
		return g.mapcar(d, vars)
	case ch < 22:
		// (multiple-value-bind (a b) (values x y) body)
		a, b := g.fresh(), g.fresh()
		vf := g.noex(func() N { // the values form is not a body position: no exits are placed in it
			vs := []any{g.num(d-1, vars)}
			if g.one(2) {
				vs = append(vs, g.num(d-1, vars))
			}
			var vals N = N{"k": "values", "es": vs}
			if g.one(4) {
				vals = N{"k": "trunc", "a": g.num(d-1, vars), "b": lit(I(1 + g.rng.Intn(3)))} // (truncate a b): quotient and remainder
			}
			return g.through(vals, d, vars)
		})
		bodyVars := append(append([]string{}, vars...), a)
		return N{"k": "mvb", "vars": []any{a, b}, "e": vf, "body": g.body(d-1, bodyVars)}
	case ch < 23 && g.one(3):
		return g.resource(d, vars)
	case ch < 23 && g.one(3) && len(vars) > 0:
		// (setq a e1 b e2): assignments in sequence, the value is the last one
		ps := []any{}
		for i := 1 + g.rng.Intn(3); i > 0; i-- {
			ps = append(ps, N{"n": vars[g.rng.Intn(len(vars))], "e": g.noex(func() N { return g.num(d-1, vars) })})
		}
		return g.m(N{"k": "setqs", "ps": ps})
	case ch < 23 && g.one(2):
		// (car '(3 x "s")) / (car (cdr '(a 4 b))): elements of quoted data
		if g.one(2) {
			return g.m(N{"k": "car", "a": g.quoted(lst(I(g.rng.Intn(10)), g.datum(1), g.datum(1)))})
		}
		return g.m(N{"k": "car", "a": N{"k": "cdr", "a": g.quoted(lst(g.datum(1), I(g.rng.Intn(10)), g.datum(1)))}})
	case ch < 23:
		// (car (cdr (list ...))) and quoted data
		es := []any{}
		for i := 1 + g.rng.Intn(3); i > 0; i-- {
			es = append(es, g.num(d-1, vars))
		}
		return g.m(N{"k": "car", "a": N{"k": "list", "es": es}})
	default:
		if g.ctl {
			return g.control(d, vars)
		}
		return g.let(d, vars, g.one(2))
	}
}

// valuesForm: a form with zero to three values
func (g *gen) valuesForm(d int, vars []string) N {
	return g.noex(func() N {
		if g.one(4) {
			return N{"k": "trunc", "a": g.num(d-1, vars), "b": lit(I(1 + g.rng.Intn(3)))}
		}
		vs := []any{}
		for i := g.rng.Intn(4); i > 0; i-- {
			vs = append(vs, g.num(d-1, vars))
		}
		return g.through(N{"k": "values", "es": vs}, d, vars)
	})
}

// psetqValue: the psetq form as a statement or, sometimes, with its value (nil) observed: open finding C01-F5 is about that value
func (g *gen) psetqValue(e N) N {
	if g.clash && g.one(3) {
		g.feats["psetq-value"] = true
		return g.m(g.orZero(e))
	}
	return e
}

// more: assignment in parallel and of multiple values, forms that select or collect values, the map family, prog / prog*,
// the simple loop, recover, incf / decf, push / pop
func (g *gen) more(d int, vars []string) N {
	v := func(n string) N { return N{"k": "var", "n": n} }
	switch g.rng.Intn(18) {
	case 16, 17:
		// (let ((vv (vector 0 k 0))) (setf (aref vv 0) (+ (aref vv 0) e)) (+ (aref vv 0) (aref vv 1))): every evaluation of
		// (vector ...) makes a vector of its own, whatever was done to the one made by an earlier evaluation of the same form
		vv := g.fresh()
		es := []any{lit(I(0)), lit(I(g.rng.Intn(5))), lit(I(0))}
		if g.one(3) {
			es[2] = g.noex(func() N { return g.num(d-2, vars) })
		}
		i := g.rng.Intn(2)
		return N{"k": "let", "bs": []any{N{"n": vv, "e": N{"k": "vector", "es": es}}},
			"body": []any{g.m(N{"k": "setaref", "a": v(vv), "i": i, "e": N{"k": "add", "a": N{"k": "aref", "a": v(vv), "i": i}, "b": g.num(d-2, vars)}}),
				g.m(N{"k": "add", "a": N{"k": "aref", "a": v(vv), "i": 0}, "b": N{"k": "aref", "a": v(vv), "i": 1}})}}
	case 14, 15:
		// every / some / find-if / count-if / remove-if with a lambda over (list ...): the function is called until the answer is
		// known; in the control profile the function sometimes leaves through an enclosing block instead of answering
		p := g.fresh()
		es := []any{}
		for i := 1 + g.rng.Intn(3); i > 0; i-- {
			es = append(es, g.noex(func() N { return g.num(d-2, vars) }))
		}
		op := []string{"every", "some", "findif", "countif", "removeif"}[g.rng.Intn(5)]
		var test N = N{"k": "lt", "a": v(p), "b": lit(I(g.rng.Intn(8)))}
		if op == "every" || op == "some" {
			// the calls of every / some are defined (in order, until the answer is known) and observed; how often the other
			// functions call their predicate is not defined: their predicates carry no mark
			test = g.m(test)
		}
		if g.ctl && g.noExit == 0 && len(g.blocks) > 0 && g.one(3) {
			name := g.blocks[g.rng.Intn(len(g.blocks))]
			test = N{"k": "if", "c": test, "a": N{"k": "retfrom", "name": name, "e": v(p)}, "b": lit(nilV())}
			if op != "some" {
				g.feats["exit-through-predicate"] = true
			}
		}
		call := N{"k": op, "f": N{"k": "lam", "ps": []any{p}, "body": []any{test}}, "l": N{"k": "list", "es": es}}
		switch op {
		case "every", "some":
			return N{"k": "if", "c": g.m(call), "a": lit(I(1)), "b": lit(I(0))}
		case "removeif":
			return g.orZero(g.m(N{"k": "car", "a": call}))
		}
		return g.orZero(g.m(call))
	case 0:
		// (let ((a e1) (b e2)) (psetq a b b (+ a 1)) (- a b))
		a, b := g.fresh(), g.fresh()
		return N{"k": "let", "bs": []any{N{"n": a, "e": g.noex(func() N { return g.num(d-2, vars) })}, N{"n": b, "e": g.noex(func() N { return g.num(d-2, vars) })}},
			"body": []any{g.psetqValue(N{"k": "psetq", "ps": []any{N{"n": a, "e": g.m(v(b))}, N{"n": b, "e": g.m(N{"k": "add", "a": v(a), "b": lit(I(1))})}}}),
				g.m(N{"k": "sub", "a": v(a), "b": v(b)})}}
	case 1:
		// (let ((a 0) (b 0) (c 0)) (multiple-value-setq (a b c) values) (+ a (or b 0)))
		a, b, c := g.fresh(), g.fresh(), g.fresh()
		return N{"k": "let", "bs": []any{N{"n": a, "e": lit(I(0))}, N{"n": b, "e": lit(I(0))}, N{"n": c, "e": lit(I(7))}},
			"body": []any{g.m(g.orZero(N{"k": "mvsetq", "vars": []any{a, b, c}, "e": g.valuesForm(d-1, vars)})),
				g.m(g.orZero(v(c))), g.m(N{"k": "add", "a": g.orZero(v(a)), "b": g.orZero(v(b))})}}
	case 2:
		// (car (cdr (multiple-value-list values)))
		var e N = N{"k": "mvlist", "e": g.valuesForm(d-1, vars)}
		if g.one(2) {
			e = N{"k": "cdr", "a": e}
		}
		return g.orZero(g.m(N{"k": "car", "a": e}))
	case 3:
		return g.orZero(g.m(N{"k": "nthv", "i": g.rng.Intn(4), "e": g.valuesForm(d-1, vars)}))
	case 4:
		// (multiple-value-bind (a b) (multiple-value-prog1 values form) (+ a b))
		a, b := g.fresh(), g.fresh()
		es := []any{g.valuesForm(d-1, vars)}
		for i := g.rng.Intn(3); i > 0; i-- {
			es = append(es, g.num(d-2, vars))
		}
		return N{"k": "mvb", "vars": []any{a, b}, "e": N{"k": "mvprog1", "es": es}, "body": []any{g.m(N{"k": "add", "a": g.orZero(v(a)), "b": g.orZero(v(b))})}}
	case 5:
		es := []any{g.num(d-1, vars), g.num(d-1, vars)}
		for i := g.rng.Intn(2); i > 0; i-- {
			es = append(es, g.num(d-2, vars))
		}
		return g.m(N{"k": "prog2", "es": es})
	case 6:
		// (multiple-value-call #'+ values values): every value of every form is an argument
		args := []any{}
		for i := g.rng.Intn(3); i >= 0; i-- {
			args = append(args, g.valuesForm(d-1, vars))
		}
		return g.m(N{"k": "mvcall", "f": N{"k": "fnref", "name": "+"}, "args": args})
	case 7:
		// the map family over (list ...): mapc for effect (its value is the list), mapcan concatenating, maplist on the tails
		p, acc := g.fresh(), g.fresh()
		es := []any{}
		for i := g.rng.Intn(4); i > 0; i-- {
			es = append(es, g.noex(func() N { return g.num(d-2, vars) }))
		}
		l := N{"k": "list", "es": es}
		switch g.rng.Intn(3) {
		case 0:
			f := N{"k": "lam", "ps": []any{p}, "body": []any{g.m(N{"k": "setq", "n": acc, "e": N{"k": "add", "a": v(acc), "b": v(p)}})}}
			if len(es) == 0 {
				return g.leaf(vars) // (mapc f nil) is finding C14-F3
			}
			return N{"k": "let", "bs": []any{N{"n": acc, "e": lit(I(0))}},
				"body": []any{g.m(g.orZero(N{"k": "car", "a": N{"k": "mapc", "f": f, "l": l}})), g.m(N{"k": "add", "a": v(acc), "b": lit(I(0))})}}
		case 1:
			f := N{"k": "lam", "ps": []any{p}, "body": []any{N{"k": "if", "c": g.m(N{"k": "lt", "a": v(p), "b": lit(I(g.rng.Intn(6)))}),
				"a": lit(nilV()), "b": N{"k": "list", "es": []any{v(p), g.m(N{"k": "add", "a": v(p), "b": lit(I(1))})}}}}}
			var e N = N{"k": "mapcan", "f": f, "l": l}
			if g.one(2) {
				e = N{"k": "cdr", "a": e}
			}
			return g.orZero(g.m(N{"k": "car", "a": e}))
		}
		f := N{"k": "lam", "ps": []any{p}, "body": []any{g.m(g.orZero(N{"k": "car", "a": N{"k": "cdr", "a": v(p)}}))}}
		return g.orZero(g.m(N{"k": "car", "a": N{"k": "maplist", "f": f, "l": l}}))
	case 8, 9:
		// (prog ((i 0) (acc e)) top (when (< i n) (setq acc (+ acc i)) (setq i (+ i 1)) (go top)) (return acc)): tags are not
		// evaluated, the go is backward, the value leaves through (return ...); without it a prog is nil
		i, acc := g.fresh(), g.fresh()
		g.bctr++
		top, out := fmt.Sprintf("p%da", g.bctr), fmt.Sprintf("p%db", g.bctr)
		star := g.one(2)
		accInit := g.noex(func() N { return g.num(d-2, vars) })
		if star && g.one(2) {
			accInit = N{"k": "add", "a": v(i), "b": lit(I(3))} // prog* sees the variable bound before
		}
		loopBody := []any{g.m(N{"k": "setq", "n": acc, "e": N{"k": "add", "a": v(acc), "b": v(i)}}),
			N{"k": "setq", "n": i, "e": N{"k": "add", "a": v(i), "b": lit(I(1))}}, N{"k": "go", "tag": top}}
		stmts := []any{
			N{"tag": top, "e": N{"k": "when", "c": N{"k": "lt", "a": v(i), "b": lit(I(g.rng.Intn(4)))}, "body": loopBody}},
		}
		if g.one(2) {
			// a statement that may leave the prog: return-from an enclosing block, go to a tag of an enclosing tagbody
			stmts = append(stmts, N{"tag": "", "e": g.num(d-2, vars)})
		}
		if g.one(2) {
			// a forward go over a statement
			stmts = append(stmts, N{"tag": "", "e": N{"k": "go", "tag": out}}, N{"tag": "", "e": g.m(lit(I(99)))}, N{"tag": out, "e": g.m(v(acc))})
		}
		if !g.one(4) {
			stmts = append(stmts, N{"tag": "", "e": N{"k": "retfrom", "name": "nil", "e": g.m(N{"k": "add", "a": v(acc), "b": lit(I(0))})}})
		}
		return g.orZero(N{"k": "prog", "star": star, "bs": []any{N{"n": i, "e": lit(I(0))}, N{"n": acc, "e": accInit}}, "stmts": stmts})
	case 10:
		// (let ((i 0)) (loop (setq i (+ i 1)) (when (< n i) (return i))))
		i := g.fresh()
		body := []any{g.m(N{"k": "setq", "n": i, "e": N{"k": "add", "a": v(i), "b": lit(I(1))}})}
		if g.one(2) {
			body = append(body, g.noex(func() N { return g.num(d-2, vars) }))
		}
		body = append(body, N{"k": "when", "c": N{"k": "lt", "a": lit(I(g.rng.Intn(3))), "b": v(i)}, "body": []any{N{"k": "retfrom", "name": "nil", "e": g.m(v(i))}}})
		return N{"k": "let", "bs": []any{N{"n": i, "e": lit(I(0))}}, "body": []any{N{"k": "sloop", "body": body}}}
	case 11:
		// (recover r on-recover form ...): the value of the forms, or of on-recover when one of them signals
		rv := g.fresh()
		body := g.body(d-1, vars)
		if g.one(2) {
			at := g.rng.Intn(len(body) + 1)
			body = append(body[:at], append([]any{g.errorForm()}, body[at:]...)...)
		}
		return g.orZero(N{"k": "recover", "var": rv, "on": g.noex(func() N { return g.m(g.num(d-2, vars)) }), "body": body})
	case 12:
		// (let ((a e)) (incf a 2) (decf a) a)
		a := g.fresh()
		return N{"k": "let", "bs": []any{N{"n": a, "e": g.noex(func() N { return g.num(d-2, vars) })}},
			"body": []any{g.m(N{"k": "incf", "n": a, "e": lit(I(1 + g.rng.Intn(3)))}), g.m(N{"k": "decf", "n": a, "e": g.m(lit(I(g.rng.Intn(3))))}), v(a)}}
	default:
		// (let ((l nil)) (push a l) (push b l) (+ (pop l) (or (car l) 0)))
		l := g.fresh()
		return N{"k": "let", "bs": []any{N{"n": l, "e": lit(nilV())}},
			"body": []any{N{"k": "push", "e": g.num(d-2, vars), "n": l}, g.m(g.orZero(N{"k": "car", "a": N{"k": "push", "e": g.num(d-2, vars), "n": l}})),
				g.m(N{"k": "add", "a": g.orZero(N{"k": "pop", "n": l}), "b": g.orZero(N{"k": "car", "a": v(l)})}), g.m(g.orZero(N{"k": "pop", "n": l})), g.orZero(N{"k": "pop", "n": l})}}
	}
}

// through wraps a form in forms that hand on all its values (or, prog1 and a marker call, only the first)
func (g *gen) through(e N, d int, vars []string) N {
	for i := g.rng.Intn(3); i > 0; i-- {
		switch g.rng.Intn(12) {
		case 0:
			e = N{"k": "progn", "es": []any{g.num(d-2, vars), e}}
		case 1:
			e = N{"k": "let", "bs": []any{N{"n": "x", "e": g.num(d-2, vars)}}, "body": []any{e}}
		case 2:
			e = N{"k": "if", "c": g.m(lit(N{"k": "t"})), "a": e, "b": lit(I(0))}
		case 3:
			g.bctr++
			name := fmt.Sprintf("b%d", g.bctr)
			e = N{"k": "block", "name": name, "body": []any{N{"k": "retfrom", "name": name, "e": e}, g.m(lit(I(9)))}}
		case 4:
			e = N{"k": "protect", "e": e, "cleanup": []any{g.m(lit(I(8)))}}
		case 5:
			e = N{"k": "fcall", "f": N{"k": "lam", "ps": []any{}, "body": []any{e}}, "args": []any{}, "spread": false}
		case 6:
			e = N{"k": "cond", "cs": []any{N{"c": g.m(lit(nilV())), "body": []any{lit(I(1))}}, N{"c": lit(N{"k": "t"}), "body": []any{e}}}}
		case 7:
			e = N{"k": "prog1", "es": []any{e, g.num(d-2, vars)}} // only the first value
		case 8:
			e = N{"k": "when", "c": g.m(lit(N{"k": "t"})), "body": []any{e}}
		case 9:
			e = N{"k": "and", "es": []any{g.m(lit(N{"k": "t"})), e}}
		case 10:
			e = N{"k": "or", "es": []any{g.m(lit(nilV())), e}}
		case 11:
			e = N{"k": "letx", "bs": []any{}, "body": []any{e}}
		}
	}
	return e
}

// resource: a mutex held by with-mutex-lock or a file opened by with-open-file around a body; (vheld r) is observed
// inside and, by the cleanup form of an enclosing unwind-protect, after control has left whichever way
func (g *gen) resource(d int, vars []string) N {
	g.rctr++
	if g.one(2) {
		mx := fmt.Sprintf("mx%d", g.rctr)
		held := func() N { return g.m(N{"k": "held", "e": N{"k": "var", "n": mx}}) }
		body := append([]any{held()}, g.body(d-1, vars)...)
		return N{"k": "let", "bs": []any{N{"n": mx, "e": N{"k": "newres"}}}, "body": []any{
			N{"k": "protect", "e": N{"k": "withlock", "e": N{"k": "var", "n": mx}, "body": body}, "cleanup": []any{held()}}}}
	}
	keep, fs := fmt.Sprintf("keep%d", g.rctr), fmt.Sprintf("fs%d", g.rctr)
	held := func() N { return g.m(N{"k": "held", "e": N{"k": "var", "n": keep}}) }
	body := []any{N{"k": "setq", "n": keep, "e": N{"k": "var", "n": fs}}, held()}
	if g.one(3) {
		// the body closes the stream itself and goes on (to an exit, an error or its end)
		body = append(body, N{"k": "closeres", "e": N{"k": "var", "n": fs}}, held())
	}
	body = append(body, g.body(d-1, vars)...)
	return N{"k": "let", "bs": []any{N{"n": keep, "e": lit(nilV()), "bare": g.rng.Intn(3)}}, "body": []any{
		N{"k": "protect", "e": N{"k": "withfile", "var": fs, "body": body}, "cleanup": []any{held()}}}}
}

// redefun: a defun form evaluated twice with the same text under two bindings of the variable its body uses (inside a let, or
// inside a function called twice): the function closes over the binding in force each time
//
//	(progn (let ((k 3)) (defun cf () (setq k (+ k 1))) 0) (cf) (let ((k 50)) (defun cf () (setq k (+ k 1))) 0) (+ (cf) (cf)))
func (g *gen) redefun(d int, vars []string) N {
	g.fctr++
	name := fmt.Sprintf("cf%d-%d", g.rng.Intn(1000), g.fctr)
	k := g.fresh()
	kv := N{"k": "var", "n": k}
	def := N{"k": "defun", "name": name, "ps": []any{}, "body": []any{g.m(N{"k": "setq", "n": k, "e": N{"k": "add", "a": kv, "b": lit(I(1))}})}}
	call := func() N { return N{"k": "call", "f": name, "args": []any{}} }
	a1, a2 := g.rng.Intn(10), 50+g.rng.Intn(10)
	under := func(a int) N {
		if g.one(2) {
			return N{"k": "let", "bs": []any{N{"n": k, "e": lit(I(a))}}, "body": []any{def, lit(I(0))}}
		}
		// ((lambda (k) (defun ...) 0) a)
		return N{"k": "fcall", "f": N{"k": "lam", "ps": []any{k}, "body": []any{def, lit(I(0))}}, "args": []any{lit(I(a))}, "spread": false, "inline": g.one(2)}
	}
	return N{"k": "progn", "es": []any{under(a1), g.m(call()), under(a2), g.m(N{"k": "add", "a": call(), "b": call()})}}
}

// mwTail is the comma-free part of the templates of the program's macros: (car (cdr (list 0 4 2)))
func mwTail() N {
	return N{"k": "car", "a": N{"k": "cdr", "a": N{"k": "list", "es": []any{lit(I(0)), lit(I(4)), lit(I(2))}}}}
}

func (g *gen) noex(f func() N) N {
	g.noExit++
	defer func() { g.noExit-- }()
	return f()
}

// orZero turns a possibly-nil value into an int: (or e 0)
func (g *gen) orZero(e N) N { return N{"k": "or", "es": []any{e, lit(I(0))}} }

func (g *gen) leaf(vars []string) N {
	if len(vars) > 0 && g.one(2) {
		return N{"k": "var", "n": vars[g.rng.Intn(len(vars))]}
	}
	return lit(I(g.rng.Intn(10)))
}

// a closure that captures (and sometimes updates) a variable of the binding it is created in, called once or twice
func (g *gen) closure(d int, vars []string) N {
	p, c, f := g.fresh(), g.fresh(), g.fresh()
	savedB, savedT := g.blocks, g.tags
	if !g.ctl || g.one(2) {
		// (otherwise the body of the lambda may leave through a block or to a tag of the place it is written in: the
		// lambda is called right there, while they are active)
		g.blocks, g.tags = nil, nil
	}
	inner := append(append([]string{}, vars...), c, p)
	var lb []any
	if g.one(2) {
		lb = []any{g.m(N{"k": "setq", "n": c, "e": N{"k": "add", "a": N{"k": "var", "n": c}, "b": N{"k": "var", "n": p}}})}
	} else {
		lb = []any{g.num(d-2, inner)}
	}
	g.blocks, g.tags = savedB, savedT
	lam := N{"k": "lam", "ps": []any{p}, "body": lb}
	call := func() N {
		return g.m(N{"k": "fcall", "f": N{"k": "var", "n": f}, "args": []any{g.num(d-2, append(append([]string{}, vars...), c))}, "spread": false})
	}
	body := []any{call()}
	if g.one(2) {
		body = append(body, call())
	}
	body = append(body, g.m(N{"k": "add", "a": N{"k": "var", "n": c}, "b": lit(I(0))}))
	if g.clash && g.one(4) {
		// the closure is called where a variable of the same name as the captured one is bound: (let ((c 40)) (funcall f x) c)
		// and the captured variable read afterwards: by the language rules the closure still reads and updates the variable
		// it captured (open finding C01-F4 is about exactly this shape)
		g.feats["closure-name-clash"] = true
		body = []any{N{"k": "let", "bs": []any{N{"n": c, "e": lit(I(40 + g.rng.Intn(10)))}}, "body": body},
			g.m(N{"k": "add", "a": N{"k": "var", "n": c}, "b": lit(I(0))})}
	}
	// (let* ((c init) (f (lambda (p) ...))) (funcall f x) ... c)
	return N{"k": "letx", "bs": []any{N{"n": c, "e": g.noex(func() N { return g.num(d-2, vars) })}, N{"n": f, "e": lam}}, "body": body}
}

func (g *gen) mapcar(d int, vars []string) N {
	p := g.fresh()
	savedB, savedT := g.blocks, g.tags
	if !g.ctl || g.one(2) {
		g.blocks, g.tags = nil, nil
	}
	lb := g.num(d-2, append(append([]string{}, vars...), p))
	g.blocks, g.tags = savedB, savedT
	es := []any{}
	for i := g.rng.Intn(4); i > 0; i-- {
		es = append(es, g.num(d-2, vars))
	}
	var f N = N{"k": "lam", "ps": []any{p}, "body": []any{lb}}
	if len(g.funcs) > 0 && g.one(3) {
		for _, fd := range g.funcs {
			if fd.arity == 1 {
				f = N{"k": "fnref", "name": fd.name}
			}
		}
	}
	// (car (mapcar f (list ...))) -> int or nil
	return g.orZero(g.m(N{"k": "car", "a": N{"k": "mapcar", "f": f, "l": N{"k": "list", "es": es}}}))
}

func (g *gen) loop(d int, vars []string) N {
	acc := g.fresh()
	v := []string{"i", "j", "k"}[g.rng.Intn(3)]
	inner := append([]string{}, vars...) // nested forms see neither the loop variable nor the accumulator: termination by construction
	saved := g.blocks
	g.blocks = append(append([]string{}, g.blocks...), "nil")
	defer func() { g.blocks = saved }()
	step := g.m(N{"k": "setq", "n": acc, "e": N{"k": "add", "a": N{"k": "var", "n": acc}, "b": N{"k": "var", "n": v}}})
	body := []any{step}
	if g.one(2) {
		body = append(body, g.body(d-2, inner)...)
	}
	if g.ctl && g.noExit == 0 && g.one(3) {
		// leave the loop early: to the loop's own block nil or to an enclosing named block, from under a let
		name := g.blocks[g.rng.Intn(len(g.blocks))]
		y := g.fresh()
		exit := N{"k": "retfrom", "name": name, "e": g.m(N{"k": "add", "a": N{"k": "var", "n": acc}, "b": N{"k": "var", "n": y}})}
		guarded := N{"k": "when", "c": g.m(N{"k": "lt", "a": lit(I(g.rng.Intn(3))), "b": N{"k": "var", "n": acc}}), "body": []any{exit}}
		body = append(body, N{"k": "let", "bs": []any{N{"n": y, "e": lit(I(10))}}, "body": []any{guarded}})
	}
	if g.ctl && g.one(4) {
		// the body of a loop is a tagbody: (when (< k acc) (go Skip7)) (mark) Skip7 (mark); the tag is spelled with a capital
		// letter in both places
		g.bctr++
		tag := fmt.Sprintf("Skip%d", g.bctr)
		body = append(body,
			N{"k": "when", "c": g.m(N{"k": "lt", "a": lit(I(g.rng.Intn(3))), "b": N{"k": "var", "n": acc}}), "body": []any{N{"k": "go", "tag": tag}}},
			g.m(lit(I(g.rng.Intn(10)))), N{"k": "var", "n": tag}, g.m(lit(I(g.rng.Intn(10)))))
	}
	var lp N
	outer := []any{N{"n": acc, "e": lit(I(0))}} // bindings of the let around the loop
	switch g.rng.Intn(4) {
	case 0:
		es := []any{}
		for i := g.rng.Intn(4); i > 0; i-- {
			es = append(es, g.noex(func() N { return g.num(d-2, vars) }))
		}
		res := N{"k": "var", "n": acc}
		if g.one(3) {
			res = g.m(N{"k": "lit", "v": I(7)})
		}
		var lf N = N{"k": "list", "es": es}
		if g.one(3) {
			// the list form reads an outer variable that has the same name as the loop variable
			outer = append(outer, N{"n": v, "e": lf})
			lf = N{"k": "var", "n": v}
		}
		lp = N{"k": "dolist", "var": v, "l": lf, "res": res, "body": body}
	case 1:
		cnt := g.noex(func() N { return g.m(lit(I(g.rng.Intn(4)))) })
		if g.one(3) {
			outer = append(outer, N{"n": v, "e": cnt})
			cnt = N{"k": "var", "n": v}
		}
		res := N{"k": "add", "a": N{"k": "var", "n": acc}, "b": N{"k": "var", "n": v}} // the result form sees the variable = count
		lp = N{"k": "dotimes", "var": v, "c": cnt, "res": res, "body": body}
	default:
		// (do ((i 0 (+ i 1)) (w init (+ w i))) ((< lim i) result) body) ; do* sees the new i
		star := g.one(2)
		w := g.fresh()
		lim := g.rng.Intn(4)
		vs := []any{
			N{"n": v, "init": g.noex(func() N { return g.m(lit(I(0))) }), "step": N{"k": "add", "a": N{"k": "var", "n": v}, "b": lit(I(1))}},
			N{"n": w, "init": g.noex(func() N { return N{"k": "add", "a": N{"k": "var", "n": acc}, "b": lit(I(1))} }),
				"step": g.m(N{"k": "add", "a": N{"k": "var", "n": w}, "b": N{"k": "var", "n": v}})},
		}
		test := N{"k": "lt", "a": lit(I(lim)), "b": N{"k": "var", "n": v}}
		res := []any{g.m(N{"k": "add", "a": N{"k": "var", "n": w}, "b": N{"k": "var", "n": acc}})}
		if g.one(2) {
			// (z 0 v) in front: a step form that is a bare variable; the later variable w is stepped by a form that reads z,
			// in do with the value z had before this round of steps
			z := g.fresh()
			vs = append([]any{N{"n": z, "init": lit(I(0)), "step": N{"k": "var", "n": v}}}, vs...)
			wstep := vs[2].(N)
			wstep["step"] = g.m(N{"k": "add", "a": N{"k": "add", "a": N{"k": "var", "n": w}, "b": N{"k": "var", "n": v}}, "b": N{"k": "var", "n": z}})
			res = []any{g.m(N{"k": "add", "a": N{"k": "add", "a": N{"k": "var", "n": w}, "b": N{"k": "var", "n": acc}}, "b": N{"k": "var", "n": z}})}
		} else if g.one(2) {
			// a variable without a step form keeps its value from one iteration to the next: for the machine its step form is
			// the variable itself
			u := g.fresh()
			uv := N{"n": u, "init": lit(I(20 + g.rng.Intn(10))), "step": N{"k": "var", "n": u}, "nostep": true}
			if g.one(2) {
				vs = append([]any{uv}, vs...)
			} else {
				vs = append(vs, uv)
			}
			res = []any{g.m(N{"k": "add", "a": N{"k": "add", "a": N{"k": "var", "n": w}, "b": N{"k": "var", "n": acc}}, "b": N{"k": "var", "n": u}})}
		}
		lp = N{"k": "do", "star": star, "vars": vs, "test": test, "res": res, "body": body}
	}
	// (let ((acc 0) [(v list-or-count)]) loop)
	return N{"k": "let", "bs": outer, "body": []any{g.orZero(lp)}}
}

// control forms (C07): block with exits, unwind-protect with cleanup marks, tagbody, ignore-errors
func (g *gen) control(d int, vars []string) N {
	if g.catcher != "" && g.one(12) {
		// (block bq (c (lambda () (return-from bq 1))) 2): the lambda leaves the block it is written in, not the block of the same
		// name inside the function that calls it (open finding C07-F11 is about this shape)
		g.feats["block-name-clash"] = true
		lam := N{"k": "lam", "ps": []any{}, "body": []any{N{"k": "retfrom", "name": "bq", "e": g.m(g.num(d-2, vars))}}}
		return N{"k": "block", "name": "bq", "body": []any{g.m(N{"k": "call", "f": g.catcher, "args": []any{lam}}), g.m(lit(I(2)))}}
	}
	if g.one(10) {
		return g.lambdaExit(d, vars)
	}
	switch g.rng.Intn(5) {
	case 0, 1:
		g.bctr++
		name := fmt.Sprintf("b%d", g.bctr)
		saved := g.blocks
		g.blocks = append(append([]string{}, g.blocks...), name)
		body := g.body(d-1, vars)
		g.blocks = saved
		return N{"k": "block", "name": name, "body": body}
	case 2:
		prot := N{"k": "progn", "es": g.body(d-1, vars)}
		g.noExit++
		cl := []any{}
		for i := g.rng.Intn(2); i >= 0; i-- {
			cl = append(cl, g.m(lit(I(g.rng.Intn(10)))))
		}
		g.noExit--
		if g.one(5) {
			// a cleanup form that signals: the cleanup forms before it have run once, the ones after it never
			at := g.rng.Intn(len(cl) + 1)
			cl = append(cl[:at], append([]any{N{"k": "error", "class": "error"}}, cl[at:]...)...)
			return g.orZero(N{"k": "ignerr", "body": []any{N{"k": "protect", "e": prot, "cleanup": cl}}})
		}
		return N{"k": "protect", "e": prot, "cleanup": cl}
	case 3:
		// (let ((c 0)) (tagbody s1 t1 s2 t2 s3) c) with forward and backward go, bounded by a counter
		c := g.fresh()
		g.bctr++
		t1, t2 := fmt.Sprintf("t%da", g.bctr), fmt.Sprintf("t%db", g.bctr)
		saved := g.tags
		g.tags = append(append([]string{}, g.tags...), t1, t2)
		inner := append([]string{}, vars...) // nested forms cannot reset the counter that bounds the backward jump
		bump := g.m(N{"k": "setq", "n": c, "e": N{"k": "add", "a": N{"k": "var", "n": c}, "b": lit(I(1))}})
		// backward jump guarded by the counter so that the loop ends
		back := N{"k": "when", "c": N{"k": "lt", "a": N{"k": "var", "n": c}, "b": lit(I(3))}, "body": []any{N{"k": "go", "tag": t1}}}
		stmts := []any{
			N{"tag": "", "e": g.num(d-2, inner)},
			N{"tag": t1, "e": bump},
			N{"tag": "", "e": N{"k": "when", "c": g.cond(d-2, inner), "body": []any{N{"k": "go", "tag": t2}}}},
			N{"tag": "", "e": g.num(d-2, inner)},
			N{"tag": t2, "e": g.m(lit(I(5)))},
			N{"tag": "", "e": back},
		}
		g.tags = saved
		return N{"k": "let", "bs": []any{N{"n": c, "e": lit(I(0))}}, "body": []any{N{"k": "tagbody", "stmts": stmts}, N{"k": "var", "n": c}}}
	default:
		return g.orZero(N{"k": "ignerr", "body": g.body(d-1, vars)})
	}
}

// lambdaExit: an anonymous lambda, called by funcall / apply / in operator position / mapc where it is written, leaves the
// block (named, or named nil: block nil and the loops) it is written in from the middle of its body; the forms of the block
// after the call are not evaluated, the block yields the value given
func (g *gen) lambdaExit(d int, vars []string) N {
	v := func(n string) N { return N{"k": "var", "n": n} }
	p := g.fresh()
	name := "nil"
	if g.one(3) {
		g.bctr++
		name = fmt.Sprintf("b%d", g.bctr)
	}
	at := 1 + g.rng.Intn(3)
	exit := N{"k": "retfrom", "name": name, "e": g.m(N{"k": "add", "a": v(p), "b": lit(I(10 * (1 + g.rng.Intn(5))))})}
	lb := []any{N{"k": "when", "c": g.m(N{"k": "eq", "a": v(p), "b": lit(I(at))}), "body": []any{exit}}, g.m(N{"k": "add", "a": v(p), "b": lit(I(1))})}
	lam := N{"k": "lam", "ps": []any{p}, "body": lb}
	call := func(arg N) N {
		switch g.rng.Intn(3) {
		case 0:
			return N{"k": "fcall", "f": lam, "args": []any{arg}, "spread": false}
		case 1:
			return N{"k": "fcall", "f": lam, "args": []any{N{"k": "list", "es": []any{arg}}}, "spread": true}
		}
		return N{"k": "fcall", "f": lam, "args": []any{arg}, "spread": false, "inline": true}
	}
	after := g.m(lit(I(g.rng.Intn(10))))
	if name == "nil" && g.one(2) {
		// (dolist (x (list 1 2 3) r) (funcall (lambda (p) (when (eq p k) (return v)) ...) x) (mark))
		x := g.fresh()
		es := []any{}
		for i := 1; i <= 3; i++ {
			es = append(es, lit(I(i)))
		}
		lp := N{"k": "dolist", "var": x, "l": N{"k": "list", "es": es}, "res": g.m(lit(I(77))), "body": []any{g.m(call(v(x))), after}}
		if g.one(2) {
			lp = N{"k": "dotimes", "var": x, "c": lit(I(4)), "res": g.m(lit(I(78))), "body": []any{g.m(call(v(x))), after}}
		}
		return g.orZero(lp)
	}
	arg := lit(I(1 + g.rng.Intn(3)))
	body := []any{g.m(call(arg)), after}
	if g.one(2) {
		// the call sits under an unwind-protect of the block: the cleanup runs once, the forms after it do not
		body = []any{N{"k": "protect", "e": g.m(call(arg)), "cleanup": []any{g.m(lit(I(5)))}}, after}
	}
	if name == "nil" && g.one(2) {
		// the mapping function hands the exit on as well
		es := []any{lit(I(1)), lit(I(2)), lit(I(3))}
		body = []any{g.m(g.orZero(N{"k": "car", "a": N{"k": "mapc", "f": lam, "l": N{"k": "list", "es": es}}})), after}
		return g.orZero(N{"k": "block", "name": name, "body": append(body, lit(I(4)))})
	}
	return N{"k": "block", "name": name, "body": body}
}

func (g *gen) cond(d int, vars []string) N {
	if g.ctl && g.noExit == 0 && g.one(6) {
		// a test that leaves instead of answering: (or (< a 3) (return-from b x))
		if x := g.exitForm(d, vars); x != nil {
			return N{"k": "or", "es": []any{g.m(N{"k": "lt", "a": g.num(d-1, vars), "b": lit(I(3))}), x}}
		}
	}
	switch g.rng.Intn(5) {
	case 0:
		return g.m(lit(nilV()))
	case 1:
		return g.m(N{"k": "lt", "a": g.num(d-1, vars), "b": g.num(d-1, vars)})
	case 2:
		return N{"k": "and", "es": []any{g.cond(d-1, vars), g.m(N{"k": "lt", "a": g.num(d-1, vars), "b": lit(I(5))})}}
	case 3:
		return g.m(N{"k": "eq", "a": g.num(d-1, vars), "b": lit(I(g.rng.Intn(6)))})
	default:
		return N{"k": "or", "es": []any{g.m(N{"k": "lt", "a": g.num(d-1, vars), "b": lit(I(3))}), g.cond(d-1, vars)}}
	}
}

func (g *gen) let(d int, vars []string, star bool) N {
	n := 1 + g.rng.Intn(2)
	bs := []any{}
	nv := append([]string{}, vars...)
	pool := []string{"x", "y", "z"}
	g.rng.Shuffle(len(pool), func(i, j int) { pool[i], pool[j] = pool[j], pool[i] })
	for i := 0; i < n; i++ {
		name := pool[i]
		scope := vars
		if star {
			scope = nv
		}
		sc := scope
		bs = append(bs, N{"n": name, "e": g.noex(func() N { return g.num(d-1, sc) })})
		nv = append(nv, name)
		if i == n-1 && g.one(6) {
			// a variable without an initial value, written x or (x), is nil
			bs = append(bs, N{"n": "unset", "e": lit(nilV()), "bare": 1 + g.rng.Intn(2)})
		}
	}
	k := "let"
	if star {
		k = "letx"
	}
	return N{"k": k, "bs": bs, "body": g.body(d-1, nv)}
}

// ---- render ----------------------------------------------------------
func renderVal(v N) string {
	switch v["k"] {
	case "int":
		return strconv.Itoa(v["v"].(int))
	case "nil":
		return "nil"
	case "t":
		return "t"
	case "sym":
		return v["v"].(string)
	case "str":
		return strconv.Quote(v["v"].(string))
	case "list":
		var parts []string
		for _, e := range v["v"].([]any) {
			parts = append(parts, renderVal(e.(N)))
		}
		return "(" + strings.Join(parts, " ") + ")"
	case "qobj":
		return "'" + renderVal(v["v"].(N))
	}
	panic(fmt.Sprint("renderVal ", v))
}

func render(n N) string {
	switch n["k"] {
	case "lit":
		switch q, _ := n["q"].(int); q {
		case 1:
			return "'" + renderVal(n["v"].(N))
		case 2:
			return "(quote " + renderVal(n["v"].(N)) + ")"
		}
		return renderVal(n["v"].(N))
	case "setqs":
		var b strings.Builder
		b.WriteString("(setq")
		for _, p := range n["ps"].([]any) {
			pn := p.(N)
			fmt.Fprintf(&b, " %s %s", pn["n"], render(pn["e"].(N)))
		}
		return b.String() + ")"
	case "trunc":
		return fmt.Sprintf("(truncate %s %s)", render(n["a"].(N)), render(n["b"].(N)))
	case "tcase":
		var b strings.Builder
		name := "typecase"
		if n["strict"].(bool) {
			name = "etypecase"
		}
		fmt.Fprintf(&b, "(%s %s", name, render(n["e"].(N)))
		for _, c := range n["cs"].([]any) {
			cn := c.(N)
			fmt.Fprintf(&b, " (%s%s)", cn["type"], rlist(cn["body"].([]any)))
		}
		return b.String() + ")"
	case "newres":
		return "(make-mutex)"
	case "withlock":
		return fmt.Sprintf("(with-mutex-lock %s%s)", render(n["e"].(N)), rlist(n["body"].([]any)))
	case "withfile":
		return fmt.Sprintf("(with-open-file (%s vheld-file-name :direction :output :if-exists :supersede :if-does-not-exist :create)%s)",
			n["var"], rlist(n["body"].([]any)))
	case "closeres":
		return fmt.Sprintf("(progn (close %s) t)", render(n["e"].(N)))
	case "held":
		return fmt.Sprintf("(vheld %s)", render(n["e"].(N)))
	case "var":
		return n["n"].(string)
	case "setq":
		return fmt.Sprintf("(setq %s %s)", n["n"], render(n["e"].(N)))
	case "mark":
		return fmt.Sprintf("(vmark %d %s)", n["id"], render(n["e"].(N)))
	case "add", "sub", "lt", "eq", "cons":
		op := map[string]string{"add": "+", "sub": "-", "lt": "<", "eq": "=", "cons": "cons"}[n["k"].(string)]
		return fmt.Sprintf("(%s %s %s)", op, render(n["a"].(N)), render(n["b"].(N)))
	case "car", "cdr":
		return fmt.Sprintf("(%s %s)", n["k"], render(n["a"].(N)))
	case "if":
		return fmt.Sprintf("(if %s %s %s)", render(n["c"].(N)), render(n["a"].(N)), render(n["b"].(N)))
	case "when", "unless":
		return fmt.Sprintf("(%s %s%s)", n["k"], render(n["c"].(N)), rlist(n["body"].([]any)))
	case "cond":
		var b strings.Builder
		b.WriteString("(cond")
		for _, c := range n["cs"].([]any) {
			cn := c.(N)
			fmt.Fprintf(&b, " (%s%s)", render(cn["c"].(N)), rlist(cn["body"].([]any)))
		}
		return b.String() + ")"
	case "case":
		var b strings.Builder
		if n["strict"].(bool) {
			fmt.Fprintf(&b, "(ecase %s", render(n["e"].(N)))
		} else {
			fmt.Fprintf(&b, "(case %s", render(n["e"].(N)))
		}
		for _, c := range n["cs"].([]any) {
			cn := c.(N)
			if cn["dflt"].(bool) {
				fmt.Fprintf(&b, " (t%s)", rlist(cn["body"].([]any)))
				continue
			}
			var ks []string
			for _, k := range cn["keys"].([]any) {
				ks = append(ks, renderVal(k.(N)))
			}
			fmt.Fprintf(&b, " ((%s)%s)", strings.Join(ks, " "), rlist(cn["body"].([]any)))
		}
		return b.String() + ")"
	case "progn", "and", "or", "prog1", "list", "values":
		return "(" + n["k"].(string) + rlist(n["es"].([]any)) + ")"
	case "let", "letx":
		name := "let"
		if n["k"] == "letx" {
			name = "let*"
		}
		var bs []string
		for _, b := range n["bs"].([]any) {
			bn := b.(N)
			switch bare, _ := bn["bare"].(int); bare {
			case 1:
				bs = append(bs, bn["n"].(string))
				continue
			case 2:
				bs = append(bs, fmt.Sprintf("(%s)", bn["n"]))
				continue
			}
			bs = append(bs, fmt.Sprintf("(%s %s)", bn["n"], render(bn["e"].(N))))
		}
		return fmt.Sprintf("(%s (%s)%s)", name, strings.Join(bs, " "), rlist(n["body"].([]any)))
	case "mvb":
		var vs []string
		for _, v := range n["vars"].([]any) {
			vs = append(vs, v.(string))
		}
		return fmt.Sprintf("(multiple-value-bind (%s) %s%s)", strings.Join(vs, " "), render(n["e"].(N)), rlist(n["body"].([]any)))
	case "block":
		return fmt.Sprintf("(block %s%s)", n["name"], rlist(n["body"].([]any)))
	case "retfrom":
		if n["name"] == "nil" {
			return fmt.Sprintf("(return %s)", render(n["e"].(N)))
		}
		return fmt.Sprintf("(return-from %s %s)", n["name"], render(n["e"].(N)))
	case "protect":
		return fmt.Sprintf("(unwind-protect %s%s)", render(n["e"].(N)), rlist(n["cleanup"].([]any)))
	case "tagbody":
		var b strings.Builder
		b.WriteString("(tagbody")
		for _, st := range n["stmts"].([]any) {
			sn := st.(N)
			if sn["tag"] != "" {
				fmt.Fprintf(&b, " %s", sn["tag"])
			}
			fmt.Fprintf(&b, " %s", render(sn["e"].(N)))
		}
		return b.String() + ")"
	case "go":
		return fmt.Sprintf("(go %s)", n["tag"])
	case "error":
		if n["class"] == "division-by-zero" {
			return "(/ 1 0)"
		}
		return `(error "boom")`
	case "ignerr":
		return "(ignore-errors" + rlist(n["body"].([]any)) + ")"
	case "lam":
		var ps []string
		for _, p := range n["ps"].([]any) {
			ps = append(ps, p.(string))
		}
		return fmt.Sprintf("(lambda (%s)%s)", strings.Join(ps, " "), rlist(n["body"].([]any)))
	case "fnref":
		return "#'" + n["name"].(string)
	case "fcall":
		if inl, _ := n["inline"].(bool); inl {
			return fmt.Sprintf("(%s%s)", render(n["f"].(N)), rlist(n["args"].([]any)))
		}
		name := "funcall"
		if n["spread"].(bool) {
			name = "apply"
		}
		return fmt.Sprintf("(%s %s%s)", name, render(n["f"].(N)), rlist(n["args"].([]any)))
	case "call":
		return fmt.Sprintf("(%s%s)", n["f"], rlist(n["args"].([]any)))
	case "defun":
		var ps []string
		for _, p := range n["ps"].([]any) {
			ps = append(ps, p.(string))
		}
		return fmt.Sprintf("(progn (defun %s (%s)%s) nil)", n["name"], strings.Join(ps, " "), rlist(n["body"].([]any)))
	case "mcall":
		return fmt.Sprintf("(%s%s)", n["name"], rlist(n["args"].([]any)))
	case "mapcar", "mapc", "mapcan", "maplist", "every", "some":
		return fmt.Sprintf("(%s %s %s)", n["k"], render(n["f"].(N)), render(n["l"].(N)))
	case "findif", "countif", "removeif":
		return fmt.Sprintf("(%s-if %s %s)", strings.TrimSuffix(n["k"].(string), "if"), render(n["f"].(N)), render(n["l"].(N)))
	case "psetq":
		var b strings.Builder
		b.WriteString("(psetq")
		for _, p := range n["ps"].([]any) {
			pn := p.(N)
			fmt.Fprintf(&b, " %s %s", pn["n"], render(pn["e"].(N)))
		}
		return b.String() + ")"
	case "mvsetq":
		var vs []string
		for _, v := range n["vars"].([]any) {
			vs = append(vs, v.(string))
		}
		return fmt.Sprintf("(multiple-value-setq (%s) %s)", strings.Join(vs, " "), render(n["e"].(N)))
	case "mvlist":
		return fmt.Sprintf("(multiple-value-list %s)", render(n["e"].(N)))
	case "nthv":
		return fmt.Sprintf("(nth-value %d %s)", n["i"], render(n["e"].(N)))
	case "mvprog1":
		return "(multiple-value-prog1" + rlist(n["es"].([]any)) + ")"
	case "prog2":
		return "(prog2" + rlist(n["es"].([]any)) + ")"
	case "mvcall":
		return fmt.Sprintf("(multiple-value-call %s%s)", render(n["f"].(N)), rlist(n["args"].([]any)))
	case "prog":
		var b strings.Builder
		name := "prog"
		if n["star"].(bool) {
			name = "prog*"
		}
		var bs []string
		for _, bd := range n["bs"].([]any) {
			bn := bd.(N)
			bs = append(bs, fmt.Sprintf("(%s %s)", bn["n"], render(bn["e"].(N))))
		}
		fmt.Fprintf(&b, "(%s (%s)", name, strings.Join(bs, " "))
		for _, st := range n["stmts"].([]any) {
			sn := st.(N)
			if sn["tag"] != "" {
				fmt.Fprintf(&b, " %s", sn["tag"])
			}
			fmt.Fprintf(&b, " %s", render(sn["e"].(N)))
		}
		return b.String() + ")"
	case "sloop":
		return "(loop" + rlist(n["body"].([]any)) + ")"
	case "vector":
		return "(vector" + rlist(n["es"].([]any)) + ")"
	case "aref":
		return fmt.Sprintf("(aref %s %d)", render(n["a"].(N)), n["i"])
	case "setaref":
		return fmt.Sprintf("(setf (aref %s %d) %s)", render(n["a"].(N)), n["i"], render(n["e"].(N)))
	case "recover":
		return fmt.Sprintf("(recover %s %s%s)", n["var"], render(n["on"].(N)), rlist(n["body"].([]any)))
	case "incf", "decf":
		return fmt.Sprintf("(%s %s %s)", n["k"], n["n"], render(n["e"].(N)))
	case "push":
		return fmt.Sprintf("(push %s %s)", render(n["e"].(N)), n["n"])
	case "pop":
		return fmt.Sprintf("(pop %s)", n["n"])
	case "dolist":
		return fmt.Sprintf("(dolist (%s %s %s)%s)", n["var"], render(n["l"].(N)), render(n["res"].(N)), rlist(n["body"].([]any)))
	case "dotimes":
		return fmt.Sprintf("(dotimes (%s %s %s)%s)", n["var"], render(n["c"].(N)), render(n["res"].(N)), rlist(n["body"].([]any)))
	case "do":
		name := "do"
		if n["star"].(bool) {
			name = "do*"
		}
		var vs []string
		for _, v := range n["vars"].([]any) {
			vn := v.(N)
			if ns, _ := vn["nostep"].(bool); ns {
				vs = append(vs, fmt.Sprintf("(%s %s)", vn["n"], render(vn["init"].(N))))
				continue
			}
			vs = append(vs, fmt.Sprintf("(%s %s %s)", vn["n"], render(vn["init"].(N)), render(vn["step"].(N))))
		}
		return fmt.Sprintf("(%s (%s) (%s%s)%s)", name, strings.Join(vs, " "), render(n["test"].(N)), rlist(n["res"].([]any)), rlist(n["body"].([]any)))
	}
	panic(fmt.Sprint("render ", n))
}
func rlist(es []any) string {
	var b strings.Builder
	for _, e := range es {
		b.WriteByte(' ')
		b.WriteString(render(e.(N)))
	}
	return b.String()
}

// ---- run --------------------------------------------------------------
type c01Stim struct {
	ID     int             `json:"id"`
	Defs   json.RawMessage `json:"defs"`
	Ast    json.RawMessage `json:"ast"`
	DefSrc []string        `json:"defsrc"`
	Src    string          `json:"src"`
	// macros of the program, defined before anything else in every variant
	MacroSrc []string `json:"macrosrc"`
}

func c01Project(o slip.Object) N {
	switch t := o.(type) {
	case nil:
		return N{"k": "nil"}
	case slip.Fixnum:
		return N{"k": "int", "v": int(t)}
	case slip.Symbol:
		return N{"k": "sym", "v": string(t)}
	case slip.String:
		return N{"k": "str", "v": string(t)}
	case slip.List:
		if len(t) == 0 {
			return N{"k": "nil"}
		}
		es := make([]any, len(t))
		for i, e := range t {
			es[i] = c01Project(e)
		}
		return N{"k": "list", "v": es}
	}
	if o == slip.True {
		return N{"k": "t"}
	}
	if f, ok := o.(slip.Funky); ok && f.GetName() == "quote" && len(f.GetArgs()) == 1 {
		// what the reader makes of 'x: reported as such (the datum is the list (quote x): open finding C01-F7)
		return N{"k": "qobj", "v": c01Project(f.GetArgs()[0])}
	}
	return N{"k": "other", "s": slip.ObjectString(o)}
}

func c01Values(o slip.Object) []any {
	if vs, ok := o.(slip.Values); ok {
		out := make([]any, len(vs))
		for i, v := range vs {
			out[i] = c01Project(v)
		}
		return out
	}
	return []any{c01Project(o)}
}

func c01(args []string) {
	if len(args) >= 1 && args[0] == "gen" {
		c01Gen(args[1:])
		return
	}
	out := h.NewOut()
	defer out.Flush()
	cur, budget := 0, 0
	h.Define("vmark", func(s *slip.Scope, a slip.List, depth int) slip.Object {
		if budget--; budget < 0 {
			// generated programs terminate by construction; a run-away evaluation is cut here and reported
			panic(fmt.Errorf("mark budget exceeded"))
		}
		out.Emit(N{"t": cur, "ev": "mark", "id": int(a[0].(slip.Fixnum)), "v": c01Project(a[1])})
		return a[1]
	})
	c01DefineHeld()
	s := slip.NewScope()
	h.Lines(func(line []byte) {
		var st c01Stim
		if err := json.Unmarshal(line, &st); err != nil {
			panic(err)
		}
		cur, budget = st.ID, 4000
		out.Emit(N{"t": st.ID, "ev": "start", "defs": st.Defs, "ast": st.Ast})
		for _, d := range append(append([]string{}, st.MacroSrc...), st.DefSrc...) {
			if o := h.Eval(s, d); !o.OK() {
				out.Emit(N{"t": st.ID, "ev": "end", "v": []any{N{"k": "err", "c": o.Class}}, "src": d, "msg": o.Msg})
				return
			}
		}
		o := h.Eval(s, st.Src)
		if o.OK() {
			out.Emit(N{"t": st.ID, "ev": "end", "v": c01Values(o.Val), "src": st.Src})
		} else {
			out.Emit(N{"t": st.ID, "ev": "end", "v": []any{N{"k": "err", "c": o.Class}}, "src": st.Src, "msg": fmt.Sprintf("%.120s", o.Msg)})
		}
	})
}

// c01DefineHeld registers (vheld r): t while the mutex r is held / the stream r is open, and the variable
// vheld-file-name with a file of this process that with-open-file forms write to
func c01DefineHeld() {
	h.Define("vheld", func(s *slip.Scope, a slip.List, depth int) slip.Object {
		switch r := a[0].(type) {
		case *gi.Mutex:
			if (*sync.Mutex)(r).TryLock() {
				(*sync.Mutex)(r).Unlock()
				return nil
			}
			return slip.True
		case slip.Stream:
			if r.IsOpen() {
				return slip.True
			}
		}
		return nil
	})
	slip.CurrentPackage.Set("vheld-file-name", slip.String(fmt.Sprintf("vheld-%d.tmp", os.Getpid())))
}

func c01Gen(args []string) {
	seed, _ := strconv.Atoi(args[0])
	ntr, _ := strconv.Atoi(args[1])
	depth, _ := strconv.Atoi(args[2])
	profile := "core"
	if len(args) > 3 {
		profile = args[3]
	}
	w := bufio.NewWriter(os.Stdout)
	defer w.Flush()
	enc := json.NewEncoder(w)
	g := &gen{rng: rand.New(rand.NewSource(int64(seed))), ctl: profile == "ctl", inline: profile == "defs", clash: profile == "core"}
	for t := 1; t <= ntr; t++ {
		g.mark, g.funcs, g.blocks, g.tags, g.maker, g.catcher = 0, nil, nil, nil, "", ""
		g.feats = map[string]bool{}
		var defs []any
		var defsrc []string
		macrosrc := []string{}
		g.macro = [2]string{}
		if profile != "ctl" {
			g.fctr++
			g.macro = [2]string{fmt.Sprintf("mw%s%d-%d", profile[:1], seed, g.fctr), fmt.Sprintf("mb%s%d-%d", profile[:1], seed, g.fctr)}
			macrosrc = append(macrosrc,
				fmt.Sprintf("(defmacro %s (a) `(+ ,a %s))", g.macro[0], render(mwTail())),
				fmt.Sprintf("(defmacro %s (v &rest body) `(let ((,v %s)) ,@body))", g.macro[1], render(mwTail())))
		}
		for i := 0; i < 2; i++ {
			g.fctr++
			name := fmt.Sprintf("f%s%d-%d", profile[:1], seed, g.fctr)
			ar := 1 + g.rng.Intn(2)
			ps := []string{}
			pa := []any{}
			for j := 0; j < ar; j++ {
				p := g.fresh()
				ps = append(ps, p)
				pa = append(pa, p)
			}
			var body []any
			if i == 1 && g.one(2) {
				// a recursive function with a decreasing counter: (if (< p 1) base (+ p (f (- p 1) ...)))
				self := []any{N{"k": "sub", "a": N{"k": "var", "n": ps[0]}, "b": lit(I(1))}}
				for j := 1; j < ar; j++ {
					self = append(self, N{"k": "var", "n": ps[j]})
				}
				// depth of the recursion is bounded: below 1 and above 6 the function returns at once
				body = []any{N{"k": "if", "c": N{"k": "or", "es": []any{
					N{"k": "lt", "a": N{"k": "var", "n": ps[0]}, "b": lit(I(1))},
					N{"k": "lt", "a": lit(I(6)), "b": N{"k": "var", "n": ps[0]}}}},
					"a": g.m(lit(I(g.rng.Intn(5)))),
					"b": g.m(N{"k": "add", "a": N{"k": "var", "n": ps[0]}, "b": N{"k": "call", "f": name, "args": self}})}}
			} else {
				body = g.body(depth-2, ps)
			}
			defs = append(defs, N{"name": name, "ps": pa, "body": body})
			defsrc = append(defsrc, fmt.Sprintf("(defun %s (%s)%s)", name, strings.Join(ps, " "), rlist(body)))
			g.funcs = append(g.funcs, fdef{name, ar})
		}
		var forced []any // calls every program makes at its start, twice each
		{
			// (defun nf (n acc) (if (or (< n 1) (< 4 n)) acc (nf (- n 1) (nf (- n 2) (+ acc 1))))): a call of the function
			// in an argument of a call of the same function; the same call forms are entered again while an outer
			// evaluation of them is under way, and the whole thing runs twice
			g.fctr++
			name := fmt.Sprintf("nf%s%d-%d", profile[:1], seed, g.fctr)
			n, acc := g.fresh(), g.fresh()
			nv, av := N{"k": "var", "n": n}, N{"k": "var", "n": acc}
			inner := N{"k": "call", "f": name, "args": []any{N{"k": "sub", "a": nv, "b": lit(I(2))}, N{"k": "add", "a": av, "b": lit(I(1))}}}
			outer := N{"k": "call", "f": name, "args": []any{N{"k": "sub", "a": nv, "b": lit(I(1))}, inner}}
			body := []any{N{"k": "if", "c": N{"k": "or", "es": []any{N{"k": "lt", "a": nv, "b": lit(I(1))}, N{"k": "lt", "a": lit(I(4)), "b": nv}}},
				"a": g.m(av), "b": g.m(outer)}}
			defs = append(defs, N{"name": name, "ps": []any{n, acc}, "body": body})
			defsrc = append(defsrc, fmt.Sprintf("(defun %s (%s %s)%s)", name, n, acc, rlist(body)))
			g.funcs = append(g.funcs, fdef{name, 2})
			k := 2 + g.rng.Intn(2)
			forced = append(forced, g.m(N{"k": "add", "a": N{"k": "call", "f": name, "args": []any{lit(I(k)), lit(I(0))}},
				"b": N{"k": "call", "f": name, "args": []any{lit(I(k + 1)), lit(I(5))}}}))
		}
		if profile == "defs" {
			// a function with several callers that call it straight from their bodies and from argument positions (call
			// sites compiled when the caller is defined): (defun base (p) (+ p 3)), (defun ca (p) (base (+ p 1))),
			// (defun cb (p) (+ (base p) (base (- p 1))))
			g.fctr++
			base, ca, cb := fmt.Sprintf("base%d-%d", seed, g.fctr), fmt.Sprintf("ca%d-%d", seed, g.fctr), fmt.Sprintf("cb%d-%d", seed, g.fctr)
			p1, p2, p3 := g.fresh(), g.fresh(), g.fresh()
			b1 := []any{g.m(N{"k": "add", "a": N{"k": "var", "n": p1}, "b": lit(I(3))})}
			b2 := []any{N{"k": "call", "f": base, "args": []any{N{"k": "add", "a": N{"k": "var", "n": p2}, "b": lit(I(1))}}}}
			b3 := []any{N{"k": "add", "a": N{"k": "call", "f": base, "args": []any{N{"k": "var", "n": p3}}},
				"b": N{"k": "call", "f": base, "args": []any{N{"k": "sub", "a": N{"k": "var", "n": p3}, "b": lit(I(1))}}}}}
			for _, d := range []struct {
				name, p string
				body    []any
			}{{base, p1, b1}, {ca, p2, b2}, {cb, p3, b3}} {
				defs = append(defs, N{"name": d.name, "ps": []any{d.p}, "body": d.body})
				defsrc = append(defsrc, fmt.Sprintf("(defun %s (%s)%s)", d.name, d.p, rlist(d.body)))
				g.funcs = append(g.funcs, fdef{d.name, 1})
			}
			forced = append(forced, g.m(N{"k": "add", "a": N{"k": "call", "f": ca, "args": []any{lit(I(g.rng.Intn(5)))}},
				"b": N{"k": "call", "f": cb, "args": []any{lit(I(g.rng.Intn(5)))}}}))
		}
		if profile == "defs" {
			// a mutually recursive pair: (defun ev (n) (if (or (< n 1) (< 6 n)) 1 (od (- n 1)))) and od likewise with 0
			g.fctr++
			ev, od := fmt.Sprintf("evd%d-%d", seed, g.fctr), fmt.Sprintf("odd%d-%d", seed, g.fctr)
			for k, pair := range [][2]string{{ev, od}, {od, ev}} {
				p := g.fresh()
				body := []any{N{"k": "if", "c": N{"k": "or", "es": []any{
					N{"k": "lt", "a": N{"k": "var", "n": p}, "b": lit(I(1))},
					N{"k": "lt", "a": lit(I(6)), "b": N{"k": "var", "n": p}}}},
					"a": g.m(lit(I(1 - k))),
					"b": g.m(N{"k": "call", "f": pair[1], "args": []any{N{"k": "sub", "a": N{"k": "var", "n": p}, "b": lit(I(1))}}})}}
				defs = append(defs, N{"name": pair[0], "ps": []any{p}, "body": body})
				defsrc = append(defsrc, fmt.Sprintf("(defun %s (%s)%s)", pair[0], p, rlist(body)))
			}
			g.funcs = append(g.funcs, fdef{ev, 1}, fdef{od, 1})
		}
		{
			// (defun mk (p) (lambda (q) (setq p (+ p q)))): each call makes a closure over a binding of its own
			g.fctr++
			name := fmt.Sprintf("mk%s%d-%d", profile[:1], seed, g.fctr)
			p, q := g.fresh(), g.fresh()
			lam := N{"k": "lam", "ps": []any{q}, "body": []any{g.m(N{"k": "setq", "n": p, "e": N{"k": "add", "a": N{"k": "var", "n": p}, "b": N{"k": "var", "n": q}}})}}
			defs = append(defs, N{"name": name, "ps": []any{p}, "body": []any{lam}})
			defsrc = append(defsrc, fmt.Sprintf("(defun %s (%s) %s)", name, p, render(lam)))
			g.maker = name
		}
		if g.ctl {
			// (defun c (f) (block bq (funcall f) 5))
			g.fctr++
			g.catcher = fmt.Sprintf("cf%d-%d", seed, g.fctr)
			fp := g.fresh()
			body := []any{N{"k": "block", "name": "bq", "body": []any{g.m(N{"k": "fcall", "f": N{"k": "var", "n": fp}, "args": []any{}, "spread": false}), g.m(lit(I(5)))}}}
			defs = append(defs, N{"name": g.catcher, "ps": []any{fp}, "body": body})
			defsrc = append(defsrc, fmt.Sprintf("(defun %s (%s)%s)", g.catcher, fp, rlist(body)))
		}
		if g.ctl {
			// (defun r (n) (block b (unwind-protect (return-from b n) (mark) (when (< 0 n) (r (- n 1))))))
			// the cleanup re-enters the function while the exit of the outer activation is still on its way
			g.fctr++
			name := fmt.Sprintf("rc%d-%d", seed, g.fctr)
			p := g.fresh()
			g.bctr++
			bn := fmt.Sprintf("b%d", g.bctr)
			body := []any{N{"k": "block", "name": bn, "body": []any{N{"k": "protect",
				"e": N{"k": "retfrom", "name": bn, "e": g.m(N{"k": "var", "n": p})},
				"cleanup": []any{g.m(lit(I(1))),
					N{"k": "when", "c": N{"k": "and", "es": []any{N{"k": "lt", "a": lit(I(0)), "b": N{"k": "var", "n": p}}, N{"k": "lt", "a": N{"k": "var", "n": p}, "b": lit(I(4))}}},
						"body": []any{N{"k": "call", "f": name, "args": []any{N{"k": "sub", "a": N{"k": "var", "n": p}, "b": lit(I(1))}}}}}}}}}}
			defs = append(defs, N{"name": name, "ps": []any{p}, "body": body})
			defsrc = append(defsrc, fmt.Sprintf("(defun %s (%s)%s)", name, p, rlist(body)))
			g.funcs = append(g.funcs, fdef{name, 1})
		}
		g.rctr = 0
		main := N{"k": "progn", "es": append(forced, g.body(depth, nil)...)}
		feats := []string{}
		for f := range g.feats {
			feats = append(feats, f)
		}
		sort.Strings(feats)
		_ = enc.Encode(N{"id": t, "defs": defs, "ast": main, "defsrc": defsrc, "macrosrc": macrosrc, "src": render(main), "features": feats})
	}
}
