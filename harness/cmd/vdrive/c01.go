package main

// C01 / C07: programs over the core language with (vmark id value) in every evaluated
// position.  `vdrive c01 gen <seed> <n> <depth>` prints stimuli
//   {"id","defs":[{name,ps,body}],"ast":{...},"defsrc":[...],"src":"..."}
// `vdrive c01` runs stimuli from stdin and prints start / mark / end events.

import (
	"bufio"
	"encoding/json"
	"fmt"
	"math/rand"
	"os"
	"strconv"
	"strings"

	"github.com/ohler55/slip"

	"verifharness/internal/h"
)

func init() { drivers["c01"] = c01 }

// ---- AST -------------------------------------------------------------
type N = map[string]any

type gen struct {
	rng   *rand.Rand
	mark  int
	vctr  int
	fctr  int
	funcs []fdef // named functions available for calls
	blocks    []string
	bctr      int
	inCleanup bool
	inFunc    bool
	body      bool
	pb        bool
	tid   int
}
type fdef struct {
	name  string
	arity int
}

func I(n int) N        { return N{"k": "int", "v": n} }
func lit(v N) N        { return N{"k": "lit", "v": v} }
func (g *gen) fresh() string { g.vctr++; return fmt.Sprintf("v%d", g.vctr) }
func (g *gen) m(e N) N { g.mark++; return N{"k": "mark", "id": g.mark, "e": e} }

// num generates an expression that evaluates to an int
func (g *gen) bodyForm(d int, vars []string, parentBody bool) N {
	g.body = parentBody
	return g.num(d, vars)
}

func (g *gen) num(d int, vars []string) N {
	body := g.body
	g.body = false
	g.pb = body
	if body && len(g.blocks) > 0 && !g.inCleanup && g.rng.Intn(5) == 0 {
		return N{"k": "retfrom", "name": g.blocks[g.rng.Intn(len(g.blocks))], "e": g.num(d-1, vars)}
	}
	ch := g.rng.Intn(10)
	switch {
	case d <= 0 || ch < 2:
		if len(vars) > 0 && g.rng.Intn(2) == 0 {
			return N{"k": "var", "n": vars[g.rng.Intn(len(vars))]}
		}
		return lit(I(g.rng.Intn(10)))
	case ch < 4:
		return g.m(N{"k": "add", "a": g.num(d-1, vars), "b": g.num(d-1, vars)})
	case ch < 5 && len(vars) > 0:
		return g.m(N{"k": "setq", "n": vars[g.rng.Intn(len(vars))], "e": g.num(d-1, vars)})
	case ch < 6:
		c := g.cond(d-1, vars)
		g.body = body
		a := g.num(d-1, vars)
		g.body = body
		b := g.num(d-1, vars)
		return N{"k": "if", "c": c, "a": a, "b": b}
	case ch < 7:
		return g.let(d, vars, g.rng.Intn(2) == 0)
	case ch < 8 && len(g.funcs) > 0:
		f := g.funcs[g.rng.Intn(len(g.funcs))]
		args := make([]any, f.arity)
		for i := range args {
			args[i] = g.num(d-1, vars)
		}
		return g.m(N{"k": "call", "f": f.name, "args": args})
	case ch >= 6 && ch < 9 && g.rng.Intn(2) == 0:
		return g.ctl(d, vars)
	case ch < 9:
		// ((lambda (p) body) arg) via funcall
		p := g.fresh()
		saved := g.blocks
		g.blocks = nil
		lb := g.num(d-1, append(vars, p))
		g.blocks = saved
		return g.m(N{"k": "fcall", "f": N{"k": "lam", "ps": []any{p}, "body": []any{lb}}, "args": []any{g.num(d-1, vars)}})
	default:
		es := []any{}
		for i := g.rng.Intn(2); i >= 0; i-- {
			es = append(es, g.bodyForm(d-1, vars, body))
		}
		return N{"k": "let", "bs": []any{}, "body": es}
	}
}

// control forms: block with possible return-from, unwind-protect with cleanup marks
func (g *gen) ctl(d int, vars []string) N {
	pb := g.pb
	switch g.rng.Intn(2) {
	case 0:
		g.bctr++
		name := fmt.Sprintf("b%d", g.bctr)
		g.blocks = append(g.blocks, name)
		body := []any{}
		for i := g.rng.Intn(3); i >= 0; i-- {
			body = append(body, g.bodyForm(d-1, vars, pb))
		}
		g.blocks = g.blocks[:len(g.blocks)-1]
		return N{"k": "block", "name": name, "body": body}
	default:
		prot := g.bodyForm(d-1, vars, pb)
		was := g.inCleanup
		g.inCleanup = true
		cl := []any{}
		for i := g.rng.Intn(2); i >= 0; i-- {
			cl = append(cl, g.m(lit(I(g.rng.Intn(10)))))
		}
		g.inCleanup = was
		return N{"k": "protect", "e": prot, "cleanup": cl}
	}
}

func (g *gen) cond(d int, vars []string) N {
	switch g.rng.Intn(4) {
	case 0:
		return g.m(lit(N{"k": "nil"}))
	case 1:
		return g.m(N{"k": "lt", "a": g.num(d-1, vars), "b": g.num(d-1, vars)})
	case 2:
		return N{"k": "and", "es": []any{g.cond(d-1, vars), g.m(N{"k": "lt", "a": g.num(d-1, vars), "b": lit(I(5))})}}
	default:
		return N{"k": "or", "es": []any{g.m(N{"k": "lt", "a": g.num(d-1, vars), "b": lit(I(3))}), g.cond(d-1, vars)}}
	}
}

func (g *gen) let(d int, vars []string, star bool) N {
	pb := g.pb
	n := 1 + g.rng.Intn(2)
	bs := []any{}
	nv := append([]string{}, vars...)
	names := []string{}
	pool := []string{"x", "y", "z"}
	g.rng.Shuffle(len(pool), func(i, j int) { pool[i], pool[j] = pool[j], pool[i] })
	for i := 0; i < n; i++ {
		name := pool[i]
		scope := vars
		if star {
			scope = nv
		}
		bs = append(bs, N{"n": name, "e": g.num(d-1, scope)})
		nv = append(nv, name)
		names = append(names, name)
	}
	body := []any{}
	for i := g.rng.Intn(2); i >= 0; i-- {
		body = append(body, g.bodyForm(d-1, nv, pb))
	}
	k := "let"
	if star {
		k = "letx"
	}
	return N{"k": k, "bs": bs, "body": body}
}

// ---- render ----------------------------------------------------------
func render(n N) string {
	switch n["k"] {
	case "lit":
		v := n["v"].(N)
		switch v["k"] {
		case "int":
			return strconv.Itoa(v["v"].(int))
		case "nil":
			return "nil"
		}
	case "var":
		return n["n"].(string)
	case "setq":
		return fmt.Sprintf("(setq %s %s)", n["n"], render(n["e"].(N)))
	case "mark":
		return fmt.Sprintf("(vmark %d %s)", n["id"], render(n["e"].(N)))
	case "add":
		return fmt.Sprintf("(+ %s %s)", render(n["a"].(N)), render(n["b"].(N)))
	case "lt":
		return fmt.Sprintf("(< %s %s)", render(n["a"].(N)), render(n["b"].(N)))
	case "if":
		return fmt.Sprintf("(if %s %s %s)", render(n["c"].(N)), render(n["a"].(N)), render(n["b"].(N)))
	case "progn", "and", "or":
		return "(" + n["k"].(string) + rlist(n["es"].([]any)) + ")"
	case "let", "letx":
		name := "let"
		if n["k"] == "letx" {
			name = "let*"
		}
		var bs []string
		for _, b := range n["bs"].([]any) {
			bn := b.(N)
			bs = append(bs, fmt.Sprintf("(%s %s)", bn["n"], render(bn["e"].(N))))
		}
		return fmt.Sprintf("(%s (%s)%s)", name, strings.Join(bs, " "), rlist(n["body"].([]any)))
	case "block":
		return fmt.Sprintf("(block %s%s)", n["name"], rlist(n["body"].([]any)))
	case "retfrom":
		return fmt.Sprintf("(return-from %s %s)", n["name"], render(n["e"].(N)))
	case "protect":
		return fmt.Sprintf("(unwind-protect %s%s)", render(n["e"].(N)), rlist(n["cleanup"].([]any)))
	case "lam":
		var ps []string
		for _, p := range n["ps"].([]any) {
			ps = append(ps, p.(string))
		}
		return fmt.Sprintf("(lambda (%s)%s)", strings.Join(ps, " "), rlist(n["body"].([]any)))
	case "fcall":
		return fmt.Sprintf("(funcall %s%s)", render(n["f"].(N)), rlist(n["args"].([]any)))
	case "call":
		return fmt.Sprintf("(%s%s)", n["f"], rlist(n["args"].([]any)))
	}
	panic(fmt.Sprint("render ", n))
}
func rlist(es []any) string {
	var b strings.Builder
	for _, e := range es {
		b.WriteByte(' ')
		b.WriteString(render(e.(N)))
	}
	return b.String()
}

// ---- run --------------------------------------------------------------
type c01Stim struct {
	ID     int             `json:"id"`
	Defs   json.RawMessage `json:"defs"`
	Ast    json.RawMessage `json:"ast"`
	DefSrc []string        `json:"defsrc"`
	Src    string          `json:"src"`
}

func c01Project(o slip.Object) N {
	switch t := o.(type) {
	case nil:
		return N{"k": "nil"}
	case slip.Fixnum:
		return N{"k": "int", "v": int(t)}
	}
	if o == slip.True {
		return N{"k": "t"}
	}
	return N{"k": "other", "s": slip.ObjectString(o)}
}

func c01(args []string) {
	if len(args) >= 1 && args[0] == "gen" {
		c01Gen(args[1:])
		return
	}
	out := h.NewOut()
	defer out.Flush()
	cur := 0
	h.Define("vmark", func(s *slip.Scope, a slip.List, depth int) slip.Object {
		out.Emit(N{"t": cur, "ev": "mark", "id": int(a[0].(slip.Fixnum)), "v": c01Project(a[1])})
		return a[1]
	})
	s := slip.NewScope()
	h.Lines(func(line []byte) {
		var st c01Stim
		if err := json.Unmarshal(line, &st); err != nil {
			panic(err)
		}
		cur = st.ID
		out.Emit(N{"t": st.ID, "ev": "start", "defs": st.Defs, "ast": st.Ast})
		for _, d := range st.DefSrc {
			if o := h.Eval(s, d); !o.OK() {
				out.Emit(N{"t": st.ID, "ev": "end", "v": N{"k": "err", "c": o.Class}, "src": d})
				return
			}
		}
		o := h.Eval(s, st.Src)
		if o.OK() {
			out.Emit(N{"t": st.ID, "ev": "end", "v": c01Project(o.Val), "src": st.Src})
		} else {
			out.Emit(N{"t": st.ID, "ev": "end", "v": N{"k": "err", "c": o.Class}, "src": st.Src})
		}
	})
}

func c01Gen(args []string) {
	seed, _ := strconv.Atoi(args[0])
	ntr, _ := strconv.Atoi(args[1])
	depth, _ := strconv.Atoi(args[2])
	w := bufio.NewWriter(os.Stdout)
	defer w.Flush()
	enc := json.NewEncoder(w)
	g := &gen{rng: rand.New(rand.NewSource(int64(seed)))}
	for t := 1; t <= ntr; t++ {
		g.mark, g.funcs = 0, nil
		var defs []any
		var defsrc []string
		for i := 0; i < 2; i++ {
			g.fctr++
			name := fmt.Sprintf("f%d-%d", seed, g.fctr)
			ar := 1 + g.rng.Intn(2)
			ps := []string{}
			pa := []any{}
			for j := 0; j < ar; j++ {
				p := g.fresh()
				ps = append(ps, p)
				pa = append(pa, p)
			}
			saved := g.blocks
			g.blocks = nil
			g.body = true
			body := g.num(depth-2, ps)
			g.blocks = saved
			defs = append(defs, N{"name": name, "ps": pa, "body": []any{body}})
			defsrc = append(defsrc, fmt.Sprintf("(defun %s (%s)%s)", name, strings.Join(ps, " "), rlist([]any{body})))
			g.funcs = append(g.funcs, fdef{name, ar})
		}
		g.body = true
		main := g.num(depth, nil)
		_ = enc.Encode(N{"id": t, "defs": defs, "ast": main, "defsrc": defsrc, "src": render(main)})
	}
}
