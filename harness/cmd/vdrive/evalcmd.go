package main

import (
	"fmt"

	"github.com/ohler55/slip"

	"verifharness/internal/h"
)

// eval: a probe for people, not used by any check. One form per input line, evaluated in one scope; prints the
// printed value or the condition class and message.
func init() { drivers["eval"] = evalCmd }

func evalCmd(args []string) {
	s := slip.NewScope()
	h.Lines(func(line []byte) {
		o := h.Eval(s, string(line))
		if o.OK() {
			fmt.Printf("%s => %s\n", line, slip.ObjectString(o.Val))
		} else {
			fmt.Printf("%s => !%s %s\n", line, o.Class, o.Msg)
		}
	})
}
