package main

import (
	"encoding/json"
	"fmt"
	"strings"
	"sync"

	"github.com/ohler55/slip"

	"verifharness/internal/h"
)

// C10: histories of defmethod / remove-method / call on one generic function.
// Stimulus: {"id":5,"arity":1,"ops":[{"op":"def","q":"around","s":["k1"]},{"op":"call","s":["k2"]}]}
// One event per stimulus: {"t":5,"steps":[{"st":"","trace":[...]}, ...]} (one entry per op).
func init() { drivers["c10"] = c10 }

type c10Op struct {
	Op string   `json:"op"`
	Q  string   `json:"q"`
	S  []string `json:"s"`
	V  int      `json:"v"`
}

type c10Stim struct {
	ID    int     `json:"id"`
	Arity int     `json:"arity"`
	Univ  string  `json:"univ"` // "user" / "retry": defclass chain k1 < k2 < k3; "builtin": fixnum < integer < real; "lists": cons < list < sequence
	Ops   []c10Op `json:"ops"`
}

var (
	c10mu    sync.Mutex
	c10trace []string
)

func c10(args []string) {
	out := h.NewOut()
	defer out.Flush()
	h.Define("vmark", func(s *slip.Scope, args slip.List, depth int) slip.Object {
		c10mu.Lock()
		c10trace = append(c10trace, string(args[0].(slip.String)))
		c10mu.Unlock()
		return nil
	})
	s := slip.NewScope()
	if o := h.Eval(s, "(defclass k3 () ()) (defclass k2 (k3) ()) (defclass k1 (k2) ())"); !o.OK() {
		panic(o.Msg)
	}
	params := []string{"a", "b", "c"}
	qual := map[string]string{"primary": "", "before": ":before ", "after": ":after ", "around": ":around "}
	qlist := map[string]string{"primary": "nil", "before": "'(:before)", "after": "'(:after)", "around": "'(:around)"}
	h.Lines(func(line []byte) {
		var st c10Stim
		if err := json.Unmarshal(line, &st); err != nil {
			panic(err)
		}
		g := fmt.Sprintf("gf-%d", st.ID)
		cls := func(k string) string { return k }
		inst := func(k string) string { return fmt.Sprintf("(make-instance '%s)", k) }
		if st.Univ == "builtin" {
			cls = func(k string) string {
				return map[string]string{"k1": "fixnum", "k2": "integer", "k3": "real", "t": "t"}[k]
			}
			inst = func(k string) string {
				return map[string]string{"k1": "7", "k2": "1180591620717411303424", "k3": "1.5"}[k]
			}
		}
		if st.Univ == "lists" {
			// cons < list < sequence: a dotted pair, a proper list and a vector (two values of one Go type differ in class)
			cls = func(k string) string {
				return map[string]string{"k1": "cons", "k2": "list", "k3": "sequence", "t": "t"}[k]
			}
			inst = func(k string) string {
				return map[string]string{"k1": "(cons 1 2)", "k2": "(list 1 2)", "k3": "(vector 1 2)"}[k]
			}
		}
		ps := params[:st.Arity]
		h.Eval(s, fmt.Sprintf("(defgeneric %s (%s))", g, strings.Join(ps, " ")))
		steps := []any{}
		for _, op := range st.Ops {
			var src string
			switch op.Op {
			case "def":
				sl := make([]string, st.Arity)
				for i := range ps {
					sl[i] = fmt.Sprintf("(%s %s)", ps[i], cls(op.S[i]))
				}
				tag := strings.Join(op.S, ",")
				body := fmt.Sprintf(`(vmark "%s:%s:%d")`, tag, op.Q, op.V)
				if st.Univ == "retry" && op.Q == "primary" && op.V == 1 {
					body += ` (error "primary fails")`
				}
				if op.Q == "around" && st.Univ == "retry" && op.V == 1 {
					// the first call of the next method is left through an error (if the primary fails), the second goes to the
					// same next method
					body = fmt.Sprintf(`(vmark "%s:in:1") (ignore-errors (call-next-method %s)) (vmark "%s:mid:1") (call-next-method %s) (vmark "%s:out:1")`,
						tag, strings.Join(ps, " "), tag, strings.Join(ps, " "), tag)
				} else if op.Q == "around" {
					if op.V == 1 {
						body = fmt.Sprintf(`(vmark "%s:in:1") (call-next-method %s) (vmark "%s:out:1")`, tag, strings.Join(ps, " "), tag)
					} else { // version 2 of an :around body does not continue
						body = fmt.Sprintf(`(vmark "%s:stop:2")`, tag)
					}
				}
				src = fmt.Sprintf("(defmethod %s %s(%s) %s)", g, qual[op.Q], strings.Join(sl, " "), body)
			case "rem":
				cs := make([]string, len(op.S))
				for i := range op.S {
					cs[i] = cls(op.S[i])
				}
				src = fmt.Sprintf("(remove-method '%s (find-method '%s %s '(%s)))", g, g, qlist[op.Q], strings.Join(cs, " "))
			case "call":
				as := make([]string, st.Arity)
				for i := range ps {
					as[i] = inst(op.S[i])
				}
				src = fmt.Sprintf("(%s %s)", g, strings.Join(as, " "))
			}
			c10trace = nil
			o := h.Eval(s, src)
			tr := c10trace
			if tr == nil {
				tr = []string{}
			}
			steps = append(steps, h.V{"st": o.Class, "trace": tr, "fault": o.Fault()})
		}
		out.Emit(h.V{"t": st.ID, "steps": steps})
	})
}
