#!/bin/sh
# Run once in /verif after a fresh restore, offline: parse every specification and warm the Go build cache.
set -e
cd "$(dirname "$0")"
tmp=$(mktemp -d /var/tmp/verif-setup-XXXXXX)
trap 'rm -rf "$tmp"' EXIT
for d in spec/*/; do
  [ "$d" = "spec/common/" ] && continue
  work="$tmp/$(basename "$d")"; mkdir -p "$work"
  cp spec/common/*.tla "$d"*.tla "$work"/ 2>/dev/null || true
  for f in "$work"/*.tla; do
    case "$(basename "$f")" in BigInt.tla|Val.tla|TraceIO.tla) continue;; esac
    (cd "$work" && tla-sany "$(basename "$f")" >/dev/null 2>&1) || { echo "SANY failed: $f"; exit 1; }
  done
done
python3 - <<'PY'
import sys, os
sys.path.insert(0, os.getcwd())
from lib import common
print("harness:", common.build_harness())
PY
echo setup ok
