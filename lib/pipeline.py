"""Generic generate -> drive -> accept pipeline used by the history families."""
import json, os, random, subprocess
from concurrent.futures import ThreadPoolExecutor

from . import common


def drive(vdrive, prop, stimuli, chunk=400, workers=None, timeout=600):
    """Run stimuli through `vdrive <prop>` in recycled worker processes; returns list of event dicts
    in stimulus order. A worker that dies or times out is an infrastructure failure."""
    workers = workers or common.CORES
    chunks = [stimuli[i:i + chunk] for i in range(0, len(stimuli), chunk)]

    def one(ch):
        inp = "".join(json.dumps(s, separators=(",", ":")) + "\n" for s in ch)
        p = subprocess.run([vdrive, prop], input=inp.encode(), capture_output=True, cwd=common.scratch(), timeout=timeout)
        if p.returncode != 0:
            raise common.Infra(f"vdrive {prop} exited {p.returncode}: {p.stderr.decode(errors='replace')[-2000:]}")
        return [json.loads(l) for l in p.stdout.decode().splitlines() if l.strip()]

    out = []
    with ThreadPoolExecutor(max_workers=workers) as ex:
        for evs in ex.map(one, chunks):
            out.extend(evs)
    return out


def accept(module_dir, module, cfg, events, *, shards=None, timeout=900, trace_name="traces.ndjson", key="t"):
    """Shard events by trace id, run the TLC acceptor on every shard in parallel, merge results.
    The acceptor prints PrintT("RESULT" \\o ToJson([bad |-> ..., checked |-> n]))."""
    shards = shards or common.CORES
    by_trace = {}
    order = []
    for e in events:
        if e[key] not in by_trace:
            by_trace[e[key]] = []
            order.append(e[key])
        by_trace[e[key]].append(e)
    groups = common.shard(order, shards)

    results = []

    def run_shard(ids):
        if not ids:
            return {"bad": [], "checked": 0, "states": 0, "lines": 0}
        lines = []
        for t in ids:
            lines.extend(by_trace[t])
        r = common.run_tlc_with_files(module_dir, module, cfg, {trace_name: lines}, timeout=timeout)
        found = list(common.emitted(r["out"], prefix="RESULT"))
        if not found:
            raise common.Infra(f"acceptor {module} produced no RESULT ({r['errors'][:2]})")
        res = found[-1]
        # map line numbers back to (trace, event)
        for b in res["bad"]:
            b["event"] = lines[b["l"] - 1]
        res["states"] = r["generated"]
        res["lines"] = len(lines)
        return res

    with ThreadPoolExecutor(max_workers=shards) as ex:
        for r in ex.map(run_shard, groups):
            results.append(r)
    merged = {"bad": [], "checked": 0, "states": 0, "lines": 0}
    for r in results:
        merged["bad"].extend(r["bad"])
        merged["checked"] += r.get("checked", 0)
        merged["states"] += r["states"]
        merged["lines"] += r["lines"]
    return merged
