"""Shared plumbing for the /verif checks: scratch dirs, harness build, TLC runs,
JSON line decoding, sharding, evidence and known-findings handling.

Python standard library only."""
import atexit, json, os, re, shutil, subprocess, sys, tempfile, time

VERIF = os.path.dirname(os.path.dirname(os.path.abspath(__file__)))
REPO = os.environ.get("VERIF_REPO", "/repo")
CORES = os.cpu_count() or 4
# runs against a scratch copy of the repository (mutation self-tests) keep their evidence and replay
# files out of /verif
OUTDIR = VERIF if not os.environ.get("VERIF_NO_EVIDENCE") else os.path.join("/var/tmp", "verif-selftest-out")


class Infra(Exception):
    """An infrastructure failure (build, TLC crash, timeout): exit 2, never a verdict."""


_scratch = None


def scratch():
    """Per-run scratch directory outside /repo and /verif, removed at exit."""
    global _scratch
    if _scratch is None:
        base = os.environ.get("VERIF_SCRATCH", "/var/tmp")
        os.makedirs(base, exist_ok=True)
        _scratch = tempfile.mkdtemp(prefix="verif-", dir=base)
        if not os.environ.get("VERIF_KEEP"):
            atexit.register(shutil.rmtree, _scratch, True)
    return _scratch


def go_env():
    env = dict(os.environ)
    env["GOFLAGS"] = "-mod=mod"
    env.setdefault("GOPROXY", "off")
    env.pop("GOSUMDB", None)  # GOSUMDB=off breaks the cached toolchain switch
    return env


def build_harness(tags="verif", race=False):
    """Build vdrive from /verif/harness against REPO's current working tree."""
    src = os.path.join(VERIF, "harness")
    dst = os.path.join(scratch(), "harness")
    if os.path.exists(dst):
        shutil.rmtree(dst)
    shutil.copytree(src, dst)
    gomod = open(os.path.join(dst, "go.mod")).read()
    gomod = re.sub(r"=> \S+", "=> " + REPO, gomod)
    open(os.path.join(dst, "go.mod"), "w").write(gomod)
    shutil.copy(os.path.join(REPO, "go.sum"), os.path.join(dst, "go.sum"))
    out = os.path.join(scratch(), "vdrive-race" if race else "vdrive")
    cmd = ["go", "build", "-tags", tags, "-o", out]
    if race:
        cmd.insert(2, "-race")
    cmd.append("./cmd/vdrive")
    p = subprocess.run(cmd, cwd=dst, env=go_env(), capture_output=True, text=True)
    if p.returncode != 0:
        fallback = shutil.which("go1.26.8")
        if fallback and "requires go" in p.stderr:
            env = go_env()
            env["GOTOOLCHAIN"] = "local"
            cmd[0] = fallback
            p = subprocess.run(cmd, cwd=dst, env=env, capture_output=True, text=True)
    if p.returncode != 0:
        raise Infra("harness build failed:\n" + p.stderr[-4000:])
    return out


_TLC_STATS = re.compile(r"(\d+) states generated, (\d+) distinct states found")


def run_tlc(module_dir, module, cfg, *, workers=1, timeout=900, simulate=None, extra=(), stdout_path=None):
    """Run TLC on spec/<dir>/<module>.tla with <cfg>; returns dict(generated, distinct, out, wall)."""
    work = tempfile.mkdtemp(prefix="tlc-", dir=scratch())
    # run in a scratch copy so that states/ and friends never land in /verif
    for d in (module_dir, os.path.join(VERIF, "spec", "common")):
        for f in os.listdir(d):
            if f.endswith((".tla", ".cfg")):
                shutil.copy(os.path.join(d, f), work)
    out = stdout_path or os.path.join(work, "tlc.out")
    cmd = ["timeout", str(timeout), "tlc", "-workers", str(workers), "-metadir", os.path.join(work, "meta"),
           "-config", cfg, *extra, module + ".tla"]
    t0 = time.time()
    with open(out, "w") as fh:
        p = subprocess.run(cmd, cwd=work, stdout=fh, stderr=subprocess.STDOUT, env=dict(os.environ))
    wall = time.time() - t0
    text_tail = _tail(out, 20000)
    if p.returncode == 124:
        raise Infra(f"TLC timed out after {timeout}s on {module}")
    m = None
    for m in _TLC_STATS.finditer(text_tail):
        pass
    errors = [l for l in text_tail.splitlines() if l.startswith("Error:")]
    return {"generated": int(m.group(1)) if m else 0, "distinct": int(m.group(2)) if m else 0,
            "out": out, "wall": wall, "errors": errors, "rc": p.returncode, "work": work}


def run_tlc_with_files(module_dir, module, cfg, files, **kw):
    """Like run_tlc but first writes `files` (name -> list of ndjson rows) next to the spec."""
    work = tempfile.mkdtemp(prefix="tlc-", dir=scratch())
    for d in (module_dir, os.path.join(VERIF, "spec", "common")):
        if os.path.isdir(d):
            for f in os.listdir(d):
                if f.endswith((".tla", ".cfg")):
                    shutil.copy(os.path.join(d, f), work)
    for name, rows in files.items():
        write_ndjson(os.path.join(work, name), rows)
    out = os.path.join(work, "tlc.out")
    timeout = kw.get("timeout", 900)
    cmd = ["timeout", str(timeout), "tlc", "-workers", str(kw.get("workers", 1)), "-metadir", os.path.join(work, "meta"),
           "-config", cfg, *kw.get("extra", ()), module + ".tla"]
    t0 = time.time()
    # the JVM would otherwise size its heap to a quarter of the machine for every one of the parallel runs
    env = dict(os.environ, JAVA_TOOL_OPTIONS=f"-Xmx{kw.get('heap', '2500m')} -Xss256m")
    with open(out, "w") as fh:
        p = subprocess.run(cmd, cwd=work, stdout=fh, stderr=subprocess.STDOUT, env=env)
    if p.returncode == 124:
        raise Infra(f"TLC timed out after {timeout}s on {module}")
    text_tail = _tail(out, 20000)
    if "OutOfMemoryError" in text_tail:
        raise Infra(f"TLC ran out of memory on {module}")
    m = None
    for m in _TLC_STATS.finditer(text_tail):
        pass
    errors = [l for l in text_tail.splitlines() if l.startswith("Error:")]
    return {"generated": int(m.group(1)) if m else 0, "distinct": int(m.group(2)) if m else 0,
            "out": out, "wall": time.time() - t0, "errors": errors, "rc": p.returncode, "work": work}


def _tail(path, n):
    with open(path, "rb") as fh:
        fh.seek(0, 2)
        size = fh.tell()
        fh.seek(max(0, size - n))
        return fh.read().decode("utf-8", "replace")


def emitted(path, prefix=None):
    """Yield the JSON values TLC printed with PrintT(ToJson(x)) (optionally PrintT(prefix \\o ToJson(x)))."""
    with open(path, encoding="utf-8", errors="replace") as fh:
        for line in fh:
            if not line.startswith('"'):
                continue
            try:
                s = json.loads(line)
            except ValueError:
                continue
            if prefix is not None:
                if not s.startswith(prefix):
                    continue
                s = s[len(prefix):]
            try:
                yield json.loads(s)
            except ValueError:
                continue


def shard(items, n):
    n = max(1, min(n, len(items) or 1))
    return [items[i::n] for i in range(n)]


def write_ndjson(path, rows):
    with open(path, "w") as fh:
        for r in rows:
            fh.write(json.dumps(r, separators=(",", ":")) + "\n")


def read_ndjson(path):
    with open(path) as fh:
        return [json.loads(l) for l in fh if l.strip()]


# ---------------------------------------------------------------- findings
def load_findings(prop):
    path = os.path.join(VERIF, "known-findings.jsonl")
    out = []
    if os.path.exists(path):
        for l in open(path):
            l = l.strip()
            if l and not l.startswith("#"):
                f = json.loads(l)
                if f.get("property") == prop:
                    out.append(f)
    return out


class Report:
    """Collects what a run covered and decides the exit code."""

    def __init__(self, prop, tier, seed, level="model_checking"):
        self.prop, self.tier, self.seed, self.level = prop, tier, seed, level
        self.t0 = time.time()
        self.cov = {"states": 0, "transitions": 0, "traces_validated_against_impl": 0, "samples": [],
                    "evaluations": 0, "distinct_nontrivial": 0, "rule": "", "exhaustive": False}
        self.assumptions = []
        # replay files of earlier runs of this property would be mistaken for this run's
        rdir = os.path.join(OUTDIR, "replays")
        if os.path.isdir(rdir):
            for f in os.listdir(rdir):
                if f.startswith(prop + "-"):
                    os.remove(os.path.join(rdir, f))
        self.violations = []     # (replay path, text)
        self.known = []          # summaries printed as KNOWN-FINDING

    MAX_REPLAYS = 25

    def violation(self, payload, text):
        """Record a violation; the first MAX_REPLAYS get a replay file of their own, the rest
        share the last one (their stimuli are appended to it) so that a systematic defect does
        not write thousands of files."""
        os.makedirs(os.path.join(OUTDIR, "replays"), exist_ok=True)
        n = len(self.violations) + 1
        if n <= self.MAX_REPLAYS:
            path = os.path.join(OUTDIR, "replays", f"{self.prop}-{self.seed}-{n}.json")
            with open(path, "w") as fh:
                json.dump(payload, fh, indent=1)
        else:
            path = os.path.join(OUTDIR, "replays", f"{self.prop}-{self.seed}-more.ndjson")
            with open(path, "a") as fh:
                fh.write(json.dumps(payload, separators=(",", ":")) + "\n")
        self.violations.append((path, text))

    def finish(self):
        os.makedirs(os.path.join(OUTDIR, "evidence"), exist_ok=True)
        ev = {"property_id": self.prop, "tier": self.tier, "seed": self.seed, "level": self.level,
              "coverage": self.cov, "assumptions": self.assumptions, "wall_s": round(time.time() - self.t0, 2),
              "violations": len(self.violations)}
        with open(os.path.join(OUTDIR, "evidence", self.prop + ".json"), "w") as fh:
            json.dump(ev, fh, indent=1)
        for k in self.known:
            print(f"KNOWN-FINDING: property={self.prop} {k}")
        for path, text in self.violations[: self.MAX_REPLAYS]:
            print(f"VIOLATION property={self.prop} replay={path}")
            print("  " + text)
        if len(self.violations) > self.MAX_REPLAYS:
            print(f"VIOLATION property={self.prop} replay={self.violations[-1][0]}")
            print(f"  ... and {len(self.violations) - self.MAX_REPLAYS} more rejected stimuli (one per line in that file)")
        return 1 if self.violations else 0


def seed():
    try:
        return int(os.environ.get("VERIF_SEED", "1"))
    except ValueError:
        return 1
