"""Stimulus generation from a TLA+ specification with TLC: breadth-first transition cover of the
bounded state graph, or random walks (-simulate). The specification's ACTION_CONSTRAINT prints one
JSON value per generated successor (see DESIGN.md 1.4)."""
import os, re, shutil, tempfile

from . import common

_SIM_STATS = re.compile(r"The number of states generated: (\d+)")
_SIM_TRACES = re.compile(r"(\d+) traces generated")


def _prepare(spec_dir, cfg_name, consts, subst=None):
    d = tempfile.mkdtemp(prefix="spec-", dir=common.scratch())
    for f in os.listdir(spec_dir):
        if f.endswith((".tla", ".cfg")):
            shutil.copy(os.path.join(spec_dir, f), d)
    cfg = open(os.path.join(d, cfg_name)).read()
    for k, v in (consts or {}).items():
        cfg, n = re.subn(rf"(?m)^(\s*{re.escape(k)}\s*=\s*).*$", lambda m: m.group(1) + str(v), cfg)
        if n != 1:
            raise common.Infra(f"constant {k} not found exactly once in {cfg_name}")
    for a, b in (subst or {}).items():
        cfg = cfg.replace(a, b)
    open(os.path.join(d, cfg_name), "w").write(cfg)
    return d


def bfs(spec_dir, module, cfg_name, consts=None, *, timeout=1500, workers=1, subst=None, prefix=None):
    """Exhaustive exploration; returns (rows, stats). rows = every JSON value printed."""
    d = _prepare(spec_dir, cfg_name, consts, subst)
    r = common.run_tlc_with_files(d, module, cfg_name, {}, timeout=timeout, workers=workers, heap="8g")
    if r["errors"]:
        raise common.Infra(f"{module}: " + "; ".join(r["errors"][:3]) + "\n" + common._tail(r["out"], 3000))
    rows = list(common.emitted(r["out"], prefix=prefix))
    return rows, {"mode": "bfs", "module": module, "consts": consts or {}, "generated": r["generated"],
                  "distinct": r["distinct"], "wall_s": round(r["wall"], 1), "emitted": len(rows)}


def sim(spec_dir, module, cfg_name, consts=None, *, num=500, depth=12, seed=1, timeout=900, subst=None, prefix=None):
    """Random walks through the same Next relation (tlc -simulate)."""
    d = _prepare(spec_dir, cfg_name, consts, subst)
    r = common.run_tlc_with_files(d, module, cfg_name, {}, timeout=timeout, workers=1, heap="8g",
                                  extra=["-simulate", f"num={num}", "-depth", str(depth), "-seed", str(seed)])
    if r["errors"]:
        raise common.Infra(f"{module} (simulate): " + "; ".join(r["errors"][:3]) + "\n" + common._tail(r["out"], 3000))
    tail = common._tail(r["out"], 4000)
    m = _SIM_STATS.search(tail)
    t = None
    for t in _SIM_TRACES.finditer(tail):
        pass
    rows = list(common.emitted(r["out"], prefix=prefix))
    return rows, {"mode": "simulate", "module": module, "consts": consts or {}, "walks": int(t.group(1)) if t else 0,
                  "depth": depth, "seed": seed, "generated": int(m.group(1)) if m else 0, "wall_s": round(r["wall"], 1),
                  "emitted": len(rows)}
