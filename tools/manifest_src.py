"""Source of MANIFEST.json (see mkmanifest.py)."""
HOOK_COMMITS = ['dd72dcd']
PENDING = "not claimed yet: the check for this property is still being built (see DESIGN.md section 11); no verdict is offered"
NOT_APPLICABLE = {
    "C09": "crash-freedom of ~1000 functions x arbitrary inputs has no state/transition structure to specify; deciding it is input fuzzing, a different technique family (DESIGN.md section 6)",
}
NOTES = "See DESIGN.md. ./check <id> --tier quick|thorough; exit 0 held / 1 VIOLATION / 2 infrastructure failure (never a verdict)."
TRUST = "Trusted: TLC 1.8, the Go harness (vdrive: rendering of stimuli to Lisp text, observation through a registered marker function), python3 orchestration. Bounded: see evidence 'rule'."
CORE_TEXT = ("Trace validation against an abstract machine: Core.tla is a small-step machine (control, environment heap shared by closures, "
             "continuation frames with unique block / tagbody ids, exit mode that unwinds frame by frame through protect frames) for the core language; "
             "a seeded typed generator produces programs with a marker call around every evaluated position, slip evaluates them, and the TLA+ acceptor "
             "CoreTrace (TLC) advances the machine to its next observable event for every recorded marker and for the final values / condition class: "
             "order and number of evaluations, selected branches, bindings, closure state, loop protocol, multiple values, and for the control profile "
             "targets of return-from / return / go, cleanups exactly once innermost first, errors and ignore-errors.")
CHECKS = {
 "C01": {
  "text": CORE_TEXT,
  "design_ref": "DESIGN.md section 3 C01",
  "note": TRUST + " Programs are chosen by a seeded generator in the harness (core profile); the machine is the only judge.",
  "technique": "TLA+ abstract machine (CEK style) as trace acceptor under TLC over marker traces recorded from the implementation"},
 "C04": {
  "text": "Model-based conformance: LambdaList.tla defines Bind(lambda list, argument vector) from the language rules (positional first, defaults - literal, form, form using an earlier parameter - when absent, rest collected in order, keys by name, aux) with TLC checking totality and arity laws as an invariant and enumerating every lambda-list shape x every call shape; each row is executed against slip through a direct call, funcall, apply, a body that ignores its parameters, and - for functions redefined from another lambda list - through call sites compiled before the redefinition; observed bindings / rejections are compared with Bind. Second half: every registered function of every package is called with 0..max+2 arguments of its documented types and the TLA+ acceptor Arity (TLC) derives the arity relation from the documented lambda list.",
  "design_ref": "DESIGN.md section 3 C04",
  "note": TRUST + " Permissive where the statement is silent: an undeclared keyword may be rejected or ignored, either value of a duplicated key, and both readings of &rest followed by &key (the implementation documents that the rest stops at the first declared keyword). The 101 documented-arity disagreements of the unchanged tree are one open finding with an exact committed list.",
  "technique": "TLA+ definition of binding (TLC invariant + exhaustive enumeration) replayed against the code; TLA+ trace acceptor for the registry sweep"},
 "C07": {
  "text": CORE_TEXT,
  "design_ref": "DESIGN.md section 3 C07",
  "note": TRUST + " Control profile of the same generator: exits in body and argument positions, cleanup forms that signal, recursion through a cleanup, loops left early from under a let. with-mutex-lock is observed by the C17 check.",
  "technique": "TLA+ abstract machine (CEK style) as trace acceptor under TLC over marker traces recorded from the implementation"},
 "C02": {
  "text": "Trace validation: the harness reads generated texts (token pool over the whole grammar incl. multi-byte characters, numbers in several radixes, prefixes, comments) through every delivery mode - ReadStream, one-form ReadStream, ReadStreamPush, ReadStreamEach with every single cut / fixed chunk sizes / random multi-cuts, repeated ReadOne, read-from-string, cl:read - under several *read-base* / float-format settings, plus every proper prefix of every text; each event carries the one-shot result and is judged under TLC by the TLA+ acceptor ReaderTrace: delivery independence (relational), and, from the per-code-point structure machine Reader.tla, form count, reported positions between the end of a form and the start of the next, incomplete texts never read as complete, forms before a truncation point unchanged.",
  "design_ref": "DESIGN.md section 3 C02",
  "note": TRUST + " Objects are compared through their printed form. Two open findings (read-from-string positions with multi-byte text, cl:read on a non-seekable stream) are exercised as probes only.",
  "technique": "TLA+ structure machine + trace acceptor (TLC) over traces recorded from the implementation"},
 "C05": {
  "text": "Trace validation with verified certificates: Numeric.tla gives every operator of the statement by its defining relation on exact values (integers as limb sequences because TLC integers are 32-bit, rationals as pairs, float operands of comparisons as mantissa*2^exponent); TLC first checks the specification's own operators against its integer arithmetic and against each other (NumericLaws); the harness applies each operator to operands held in variables (all pairs of the boundary grid, ratios, adjacent doubles, seeded 200-bit operands), re-reads the variables and records result, representation type and certificates (quotient, cofactors, Bezout coefficients); the TLA+ acceptor NumericTrace verifies under TLC the relation, lowest terms, canonical type and that no operand changed.",
  "design_ref": "DESIGN.md section 3 C05",
  "note": TRUST + " Seven open findings of the numeric tower are matched by the exact shape of the rejected event (reason + representation + operand class), never by the operator alone.",
  "technique": "TLA+ relational specification + TLC self-check, TLA+ trace acceptor over recorded operator events"},
 "C06": {
  "text": "Trace validation: the harness executes histories of list operations over three variables (every ordered pair of the 31 operations on lists built in five ways, plus seeded-random histories) against slip and records, after every operation, the returned value and the contents of every variable; the TLA+ acceptor ListHeapTrace (permissive reference: value the language defines + may-share identities by the language rules) replays each recorded event under TLC and rejects a wrong result, a change caused by a non-destructive function or place operation, and a change of a list that cannot share structure with the one destroyed.",
  "design_ref": "DESIGN.md section 3 C06",
  "note": TRUST + " Operation sequences are chosen by a seeded generator in the orchestrator (the specification judges, it does not enumerate here).",
  "technique": "TLA+ trace acceptor (TLC) over traces recorded from the implementation"},
 "C14": {
  "text": "Model-based conformance: SeqFuns.tla transcribes the language definitions of 47 sequence functions (find/position/count/remove/delete/substitute with -if/-if-not, remove-duplicates, search, mismatch, replace, fill, subseq, reverse, member/assoc/rassoc, sort/stable-sort/merge, set functions, every/some/notany/notevery, map/mapcar/reduce/concatenate) onto TLA+ sequences; TLC checks laws of the transcriptions as an invariant and enumerates every sequence up to the bound x every in-range keyword combination (random longer sequences with ties for the sorting family), printing the result the definition gives; the harness renders each row as list, vector and string calls against slip and the observed results are compared with TLC's (sort: any ordered permutation; set functions as sets).",
  "design_ref": "DESIGN.md section 3 C14",
  "note": TRUST + " Three open findings (missing -if-not variants, empty sequences rejected, fill bounds) are matched by the shape of the observed failure.",
  "technique": "TLA+ transcription (TLC invariant + exhaustive parameter enumeration), results replayed against the code"},
 "C20": {
  "text": "Model checking plus behaviours replayed through crash hooks: ReplStore.tla models the history as pkg/repl keeps it (forms in memory, history file, history.tmp, one action per file-system step of Add and Clear, process death before any step or in the middle of a write) together with the reference of the property; TLC checks on it that a restart loads exactly the reference and that a death at any point loads a prefix or suffix of the reference before or after the interrupted operation, no duplicate, no line that was not entered (this found the glued-fragment defect, since repaired); the same behaviours - every transition of the bounded graph for limits 2 and 3, random walks for limit 10 - are replayed into a real repl.History built with the verif tag, the hook in front of the named file-system call simulating the death, and the loaded history after every restart / death is judged by the TLA+ acceptor ReplStoreTrace under TLC. Settings: histories of setq / restart from ReplSettings.tla, every session a separate process.",
  "design_ref": "DESIGN.md section 3 C20",
  "note": TRUST + " A process death is simulated by panicking out of the hook (for a torn write after writing half of the pending bytes); durability of completed writes and renames is assumed. The stash file is not covered yet.",
  "technique": "TLA+ model with crash actions checked by TLC (invariants), its behaviours replayed into the code through build-tag hooks, TLA+ trace acceptor"},
 "C15": {
  "text": "Trace validation against an executable TLA+ definition, on TLC-enumerated inputs: Format.tla is an interpreter of the control language (prefix parameters incl. v and #, modifiers, ~A ~S ~D ~B ~O ~X ~nR, English and Roman ~R on decimal digit sequences of any length, ~C ~% ~& ~| ~~ ~T ~* ~? ~( ~[ ~{ ~^ ~P, nested blocks, argument navigation, the errors the definitions require) following CLHS 22.3 and, where slip's own documentation defines a directive differently (~T column arithmetic, ~& at the start), that documentation. FormatGen.tla enumerates the case grid: one TLC initial state per (directive, parameter combination, modifiers, argument) of seven families plus random compositions of up to 4 pieces incl. blocks built from pieces (simulation mode). Every case is executed with destination nil, t and a string stream; the acceptor FormatTrace under TLC recomputes the text, compares the three destinations, and checks princ-to-string / prin1-to-string of every argument against ~A / ~S.",
  "design_ref": "DESIGN.md section 3 C15",
  "note": TRUST + " Cases whose consequences the definitions leave open (wrong kind of argument, ~* outside the arguments, column width 0) are counted and not judged. Two open findings pinned by slip's own suite: strings inside lists keep their quotes under princ (modelled as a named deviation in Format.tla, so those calls are still judged exactly) and ~^ (matched by the presence of the directive).",
  "technique": "executable TLA+ definition (interpreter) evaluated by TLC over recorded calls (trace validation), inputs enumerated by TLC from a TLA+ generator (initial-state grid + simulation)"},
 "C16": {
  "text": "Trace validation of logged relations plus model-generated table histories: the harness evaluates eq / eql / equal / equalp / sxhash / type-of / typep / subtypep / find-class / coerce over a universe of 35 objects (equal numbers in different representations, zeros and negatives, bignums and ratios built twice, strings and characters differing in case, symbols, nested lists, vectors) and 22 type names and logs the matrices, every call that signals, and the key identity a fresh table implements; EqHash.tla states the laws of the property over those matrices (totality, implication chain, reflexive / symmetric / transitive, equal => same sxhash, typep of own type-of, subtypep reflexive / transitive / agrees with typep on registry-known types, coerce returns the requested type, table key identity covers the table test) and TLC evaluates them, printing the violating tuples. HashGen.tla is the finite-map model: TLC emits one put / get / rem / clr / maphash history per transition of its bounded graph plus random walks of 12; each is executed on 7 key sets x 4 :test values and every step (value, presence, count, maphash contents) is judged by the TLA+ acceptor.",
  "design_ref": "DESIGN.md section 3 C16",
  "note": TRUST + " slip documents :test as ignored (always eql); the acceptor judges the map mechanics modulo the key identity the table implements and the law 'key identity covers eql' separately, so the four open findings (exact violating tuples committed; any other tuple is a violation) do not hide other defects.",
  "technique": "TLA+ laws evaluated by TLC over logged relation matrices (trace validation) + TLC-generated table histories replayed into the code and judged by a TLA+ finite-map acceptor"},
 "C10": {
  "text": "Model-based conformance: Generic.tla is the reference (method table -> effective method) together with an implementation-shaped cache/fast-path model whose coherence TLC checks as invariants; TLC emits one defmethod/replace/remove-method/call history per transition of the bounded state graph (VIEW includes a ghost of the cache so call-before-definition paths are distinct states) plus random walks; every history is executed against slip built from /repo and every call's method trace is compared with the trace TLC computed.",
  "design_ref": "DESIGN.md section 3 C10",
  "note": TRUST + " Sequential histories only in this check; the concurrent clause is exercised by the schedules of the C17 check.",
  "technique": "TLA+ reference + cache twin (TLC invariants), TLC-generated behaviours replayed into the code (transition cover + simulation)"},
 "C12": {
  "text": "Model-based conformance: Clos.tla recomputes precedence ('direct superclasses in the order written followed by theirs'), slot initialisation (initarg, most specific initform, unbound), reader, class-of and typep from the current definitions (design invariants checked by TLC); TLC enumerates histories of defclass (any order, forward references, redefinition) and make-instance steps - every transition of the bounded graph, the complete graph for two classes, random walks for five - and each is executed against slip several times (map iteration) and compared with the values TLC computed.",
  "design_ref": "DESIGN.md section 3 C12",
  "note": TRUST + " One open finding (an initarg shared by two slots) is matched by its exact shape only; everything else about those histories is still judged.",
  "technique": "TLA+ reference, TLC-generated behaviours replayed into the code (transition cover + simulation)"},
 "C13": {
  "text": "Model-based conformance with trace acceptance: Packages.tla is the reference (use/export graph + own definitions; resolution recomputed from the graph; design invariants OwnWins / NothingFromNowhere checked by TLC); TLC emits one history of use/unuse/export/unexport/def/undef/in-package per transition of the bounded state graph of the reference and of an implementation-shaped twin of the denormalised package tables (VIEW includes the table residue); each history is executed against slip with fresh packages and the full resolution matrix from every package plus pkg:name / pkg::name access is judged by the TLA+ acceptor PackagesTrace under TLC (candidate sets where the statement leaves the landing place of a definition open).",
  "design_ref": "DESIGN.md section 3 C13",
  "note": TRUST + " One open finding (a package exporting a name it never defines while using a package that exports the same name) is matched by a feature predicate of the specification.",
  "technique": "TLA+ reference + implementation-shaped twin (TLC), transition cover replayed into the code, TLA+ trace acceptor"},
 "C11": {
  "text": "Model-based conformance: Flavors.tla recomputes precedence, daemon order and variable inheritance from the definitions (order-independent by construction; design invariants checked by TLC); TLC's interleavings of defflavor/defmethod/defwhopper are the histories (exhaustive to the stated depth, random walks beyond); each is executed against slip and precedence list, daemon trace of a send, variable default/accessor/init keyword of every defined flavor are compared with the values TLC computed.",
  "design_ref": "DESIGN.md section 3 C11",
  "note": TRUST,
  "technique": "TLA+ reference, TLC-generated behaviours replayed into the code (transition cover + simulation)"},
}
