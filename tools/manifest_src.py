"""Source of MANIFEST.json (see mkmanifest.py)."""
HOOK_COMMITS = []
PENDING = "not claimed yet: the check for this property is still being built (see DESIGN.md section 11); no verdict is offered"
NOT_APPLICABLE = {
    "C09": "crash-freedom of ~1000 functions x arbitrary inputs has no state/transition structure to specify; deciding it is input fuzzing, a different technique family (DESIGN.md section 6)",
}
NOTES = "See DESIGN.md. ./check <id> --tier quick|thorough; exit 0 held / 1 VIOLATION / 2 infrastructure failure (never a verdict)."
CHECKS = {}
