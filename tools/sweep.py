#!/usr/bin/env python3
"""Run every registered check (or the ones named) for several seeds and print one line per run.
Used to look for flaky alarms on the unchanged tree and to time the tiers; the evidence written
is the last run's. usage: sweep.py [--tier quick|thorough] [--seeds 1,2,3] [--jobs N] [Cnn ...]"""
import argparse, json, os, subprocess, sys, time
from concurrent.futures import ThreadPoolExecutor
VERIF = os.path.dirname(os.path.dirname(os.path.abspath(__file__)))
ap = argparse.ArgumentParser()
ap.add_argument("--tier", default="quick")
ap.add_argument("--seeds", default="1,2,3")
ap.add_argument("--jobs", type=int, default=1)
ap.add_argument("props", nargs="*")
a = ap.parse_args()
man = json.load(open(os.path.join(VERIF, "MANIFEST.json")))
props = a.props or [c["property_id"] for c in man["checks"]]
runs = [(p, s) for s in a.seeds.split(",") for p in props]


def one(ps):
    p, s = ps
    env = dict(os.environ, VERIF_SEED=s)
    if a.jobs > 1:
        env["VERIF_NO_EVIDENCE"] = "1"
    t0 = time.time()
    pr = subprocess.run(["./check", p, "--tier", a.tier], cwd=VERIF, env=env, capture_output=True, text=True)
    v = [l for l in pr.stdout.splitlines() if l.startswith("VIOLATION")]
    k = [l for l in pr.stdout.splitlines() if l.startswith("KNOWN-FINDING")]
    line = f"{p} tier={a.tier} seed={s} exit={pr.returncode} wall={time.time() - t0:.0f}s violations={len(v)} known={len(k)}"
    if pr.returncode:
        line += "\n    " + "\n    ".join((v[:5] or pr.stderr.strip().splitlines()[-8:]))
    print(line, flush=True)
    return pr.returncode


with ThreadPoolExecutor(max_workers=a.jobs) as ex:
    rcs = list(ex.map(one, runs))
print("SWEEP", "ok" if not any(rcs) else "NOT CLEAN", flush=True)
sys.exit(1 if any(rcs) else 0)
