#!/usr/bin/env python3
"""probe.py: build the harness against the repo (VERIF_REPO or /repo) and evaluate the forms on stdin, one per line,
in one scope.  A convenience for triage; no check depends on it."""
import os
import subprocess
import sys

sys.path.insert(0, os.path.join(os.path.dirname(os.path.abspath(__file__)), "..", "lib"))
import common

exe = common.build_harness()
sys.exit(subprocess.run([exe, "eval"], stdin=sys.stdin).returncode)
