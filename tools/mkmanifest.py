#!/usr/bin/env python3
"""Regenerate MANIFEST.json from tools/manifest_src.py (single source of truth) and validate it."""
import json, os, sys
here = os.path.dirname(os.path.abspath(__file__))
sys.path.insert(0, here)
import manifest_src as m
props = [json.loads(l)["id"] for l in open(os.path.join(here, "..", "properties.jsonl"))]
checks = []
for pid in props:
    c = m.CHECKS.get(pid)
    if not c:
        continue
    checks.append({
        "property_id": pid,
        "quick_cmd": f"./check {pid} --tier quick",
        "thorough_cmd": f"./check {pid} --tier thorough",
        "evidence_file": f"evidence/{pid}.json",
        "replay_cmd_template": f"./check {pid} --replay {{path}}",
        "engine": "tlc+vdrive",
        "level_claimed": {"category": c.get("category", "model_checking"), "text": c["text"], "design_ref": c["design_ref"]},
        "level_note": c["note"],
        "technique": c["technique"],
    })
na = [{"property_id": p, "reason": m.NOT_APPLICABLE.get(p, m.PENDING)} for p in props if p not in m.CHECKS]
man = {
    "version": 1,
    "setup_cmd": "./setup.sh",
    "hooks": {"guard": "verif", "enable": "go build -tags verif (harness module, replace github.com/ohler55/slip => /repo)",
              "baseline_off_cmd": "cd /repo && go test -mod=mod -vet=off -count=1 -timeout 25m ./...",
              "source_commits": m.HOOK_COMMITS, "add_only": True},
    "engines": [{"name": "tlc+vdrive", "path": "check", "serves_properties": sorted(m.CHECKS),
                 "kind_free_text": "explicit TLA+ specifications checked with TLC 1.8 (design invariants, bounded-exhaustive stimulus generation from the state graph, trace acceptors); Go harness `vdrive` (module replace => /repo, tag verif) executes the generated histories against slip built from the working tree and records ndjson traces; python3 orchestrator"}],
    "checks": checks,
    "not_applicable": na,
    "notes": m.NOTES,
}
path = os.path.join(here, "..", "MANIFEST.json")
json.dump(man, open(path, "w"), indent=1)
try:
    sys.path.insert(0, "/opt/veriftools/pyvenv/lib/python3.11/site-packages")
    import jsonschema
    jsonschema.validate(man, json.load(open("/root/.vp/MANIFEST.schema.json")))
    print("MANIFEST.json valid;", len(checks), "checks,", len(na), "not claimed")
except ImportError:
    print("MANIFEST.json written (jsonschema not importable here)")
