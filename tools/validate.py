#!/usr/bin/env python3
"""Validate MANIFEST.json and every evidence/*.json against the schemas in /root/.vp."""
import json, os, sys, glob
sys.path.insert(0, "/opt/veriftools/pyvenv/lib/python3.11/site-packages")
import jsonschema
here = os.path.dirname(os.path.dirname(os.path.abspath(__file__)))
ok = True
man = json.load(open(os.path.join(here, "MANIFEST.json")))
jsonschema.validate(man, json.load(open("/root/.vp/MANIFEST.schema.json")))
sch = json.load(open("/root/.vp/EVIDENCE.schema.json"))
for c in man["checks"]:
    p = os.path.join(here, c["evidence_file"])
    if not os.path.exists(p):
        print("MISSING", p); ok = False; continue
    ev = json.load(open(p))
    try:
        jsonschema.validate(ev, sch)
        cov = ev["coverage"]
        print(f"ok {c['property_id']} tier={ev['tier']} wall={ev['wall_s']} states={cov.get('states')} trans={cov.get('transitions')} traces={cov.get('traces_validated_against_impl')} eval={cov.get('evaluations')} distinct={cov.get('distinct_nontrivial')} viol={ev.get('violations')}")
    except jsonschema.ValidationError as e:
        print("INVALID", p, e.message[:300]); ok = False
sys.exit(0 if ok else 1)
