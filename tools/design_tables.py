#!/usr/bin/env python3
"""Rewrites the generated tables of DESIGN.md chapter 12 (seeded changes, open findings, counts per property) from
seeded/*/meta.json and known-findings.jsonl.  The tables sit between <!-- gen:NAME --> and <!-- /gen:NAME --> markers."""
import collections, glob, json, os, re

VERIF = os.path.dirname(os.path.dirname(os.path.abspath(__file__)))
ls = [json.loads(l) for l in open(os.path.join(VERIF, "known-findings.jsonl")) if l.strip()]


def mutants():
    rows = ["| Change | What it breaks | Caught by | Missed by |", "|---|---|---|---|"]
    for d in sorted(glob.glob(os.path.join(VERIF, "seeded", "*", "meta.json"))):
        m = json.load(open(d))
        det = m.get("detected_by", {})
        what = ""
        try:
            notes = open(os.path.join(os.path.dirname(d), "notes.md")).read().splitlines()
            what = next((l.lstrip("# ").strip() for l in notes if l.startswith("#")), "")
        except OSError:
            pass
        what = what.split("—")[-1].split(" - ")[-1].strip()[:110].replace("|", "/")
        rows.append(f"| {m['id']} | {what} | {', '.join(k for k, v in det.items() if v == 'caught') or '-'} | "
                    f"{', '.join(k for k, v in det.items() if v == 'missed') or '-'} |")
    return "\n".join(rows)


def open_findings():
    rows = ["| id | what fails | why not repaired |", "|---|---|---|"]
    for d in ls:
        if d["status"] == "open":
            rows.append(f"| {d['id']} | {d['summary'][:260].replace('|', '/')} | {d.get('why_not_fixed', '')[:200].replace('|', '/')} |")
    return "\n".join(rows)


def counts():
    c = collections.Counter((d["property"], d["status"]) for d in ls)
    rows = ["| property | repaired (`fix:` commits recorded) | open findings |", "|---|---|---|"]
    for p in sorted({d["property"] for d in ls}):
        rows.append(f"| {p} | {c[(p, 'fixed')]} | {c[(p, 'open')]} |")
    rows.append(f"| total | {sum(v for (p, s), v in c.items() if s == 'fixed')} | {sum(v for (p, s), v in c.items() if s == 'open')} |")
    return "\n".join(rows)


path = os.path.join(VERIF, "DESIGN.md")
s = open(path).read()
for name, fn in (("mutants", mutants), ("open", open_findings), ("counts", counts)):
    pat = re.compile(rf"<!-- gen:{name} -->.*?<!-- /gen:{name} -->", re.S)
    if not pat.search(s):
        raise SystemExit(f"marker gen:{name} not found in DESIGN.md")
    s = pat.sub(lambda m: f"<!-- gen:{name} -->\n{fn()}\n<!-- /gen:{name} -->", s)
open(path, "w").write(s)
print("DESIGN.md tables rewritten")
