#!/usr/bin/env python3
"""Seeded-change tooling (never touches /repo's working tree).

  mutant.py import <agent-out-dir>/<mN> <seeded-id> <property> <demo-dst-dir>
        copy patch.diff, notes.md and the demo *_test.go into /verif/seeded/<seeded-id>/ and write meta.json
  mutant.py verify <seeded-id>
        scratch worktree of /repo HEAD: demo passes unchanged; with patch: builds, repo suite == baseline, demo fails
  mutant.py detect <seeded-id> [<Cnn> ...] [--tier quick|thorough]
        scratch worktree + patch, run ./check <Cnn> with VERIF_REPO pointing at it; prints exit codes
"""
import json, os, shutil, subprocess, sys, tempfile, glob
VERIF = os.path.dirname(os.path.dirname(os.path.abspath(__file__)))
SEEDED = os.path.join(VERIF, "seeded")


def sh(cmd, cwd=None, env=None, timeout=3600):
    p = subprocess.run(cmd, shell=True, cwd=cwd, env=env, capture_output=True, text=True, timeout=timeout)
    return p.returncode, p.stdout + p.stderr


def goenv():
    e = dict(os.environ, GOPROXY="off")
    e.pop("GOFLAGS", None)
    return e


class Worktree:
    def __init__(self, patch=None):
        self.dir = tempfile.mkdtemp(prefix="verif-wt-", dir="/var/tmp")
        os.rmdir(self.dir)
        rc, out = sh(f"git -C /repo worktree add -q --detach {self.dir} HEAD")
        if rc:
            raise SystemExit(out)
        if patch:
            rc, out = sh(f"git apply {patch}", cwd=self.dir)
            if rc:
                self.close()
                raise SystemExit("patch does not apply to /repo HEAD:\n" + out)

    def close(self):
        sh(f"git -C /repo worktree remove --force {self.dir}")
        shutil.rmtree(self.dir, ignore_errors=True)
        sh("git -C /repo worktree prune")


def meta(sid):
    return json.load(open(os.path.join(SEEDED, sid, "meta.json")))


def run_demo(wt, sid, m):
    d = os.path.join(SEEDED, sid)
    for f in m["demo"]["files"]:
        os.makedirs(os.path.dirname(os.path.join(wt.dir, f["to"])), exist_ok=True)
        shutil.copy(os.path.join(d, f["from"]), os.path.join(wt.dir, f["to"]))
    rc, out = sh(m["demo"]["cmd"], cwd=wt.dir, env=goenv())
    for f in m["demo"]["files"]:
        os.remove(os.path.join(wt.dir, f["to"]))
    return rc, out


def cmd_import(src, sid, prop, dst):
    d = os.path.join(SEEDED, sid)
    os.makedirs(d, exist_ok=True)
    shutil.copy(os.path.join(src, "patch.diff"), d)
    if os.path.exists(os.path.join(src, "notes.md")):
        shutil.copy(os.path.join(src, "notes.md"), os.path.join(d, "notes.md"))
    files = []
    tests = []
    for f in sorted(glob.glob(os.path.join(src, "*.go"))):
        shutil.copy(f, os.path.join(d, os.path.basename(f) + ".txt"))  # .txt so that no go tool ever picks it up
        files.append({"from": os.path.basename(f) + ".txt", "to": os.path.join(dst, os.path.basename(f))})
    m = {"id": sid, "property": prop, "source": "independent sub-agent given only the property text and a scratch worktree",
         "demo": {"files": files, "cmd": f"go test -mod=mod -vet=off -count=1 ./{dst}/ -run 'Test{prop}|Test{prop[0]}{prop[1:].lower()}'"},
         "needs": "", "verified": {}, "detected_by": {}}
    json.dump(m, open(os.path.join(d, "meta.json"), "w"), indent=1)
    print("imported", d)


def cmd_verify(sid):
    m = meta(sid)
    res = {}
    wt = Worktree()
    try:
        rc, out = run_demo(wt, sid, m)
        res["demo_on_head"] = "pass" if rc == 0 else "FAIL"
        if rc:
            print(out[-1500:])
    finally:
        wt.close()
    wt = Worktree(os.path.join(SEEDED, sid, "patch.diff"))
    try:
        rc, out = sh("go build -mod=mod . ./pkg/... ./cmd/...", cwd=wt.dir, env=goenv())
        res["builds"] = rc == 0
        rc, out = sh(f"{VERIF}/tools/repo-suite.py --repo {wt.dir}")
        res["suite"] = out.strip().splitlines()[0] if out.strip() else "?"
        res["suite_ok"] = rc == 0 or (out.count("NOT PASSING") == 1 and "TestWaitForInputNilReadyOnly" in out)
        rc, out = run_demo(wt, sid, m)
        res["demo_with_patch"] = "fail" if rc else "PASSES"
        res["demo_tail"] = out.strip().splitlines()[-6:]
    finally:
        wt.close()
    ok = res["demo_on_head"] == "pass" and res["builds"] and res["suite_ok"] and res["demo_with_patch"] == "fail"
    res["ok"] = ok
    head = subprocess.run("git -C /repo rev-parse --short HEAD", shell=True, capture_output=True, text=True).stdout.strip()
    res["repo_head"] = head
    m["verified"] = res
    json.dump(m, open(os.path.join(SEEDED, sid, "meta.json"), "w"), indent=1)
    print(json.dumps(res, indent=1))
    return 0 if ok else 1


def cmd_detect(sid, props, tier):
    m = meta(sid)
    props = props or [m["property"]]
    wt = Worktree(os.path.join(SEEDED, sid, "patch.diff"))
    rcs = {}
    try:
        for p in props:
            env = dict(os.environ, VERIF_REPO=wt.dir, VERIF_NO_EVIDENCE="1")
            try:
                pr = subprocess.run(["./check", p, "--tier", tier], cwd=VERIF, env=env, capture_output=True, text=True, timeout=1500)
            except subprocess.TimeoutExpired:
                print(f"{sid} {p} tier={tier} exit=2 violations=0 (the check did not finish within 1500 s)")
                rcs[p] = 2
                m.setdefault("detected_by", {})[f"{p}:{tier}"] = "infrastructure failure"
                subprocess.run("pkill -x vdrive", shell=True)
                continue
            lines = [l for l in pr.stdout.splitlines() if l.startswith(("VIOLATION", "KNOWN-FINDING"))]
            print(f"{sid} {p} tier={tier} exit={pr.returncode} violations={sum(l.startswith('VIOLATION') for l in lines)}")
            for l in pr.stdout.splitlines()[:6]:
                print("   ", l[:300])
            if pr.returncode == 2:
                print(pr.stderr[-1500:])
            rcs[p] = pr.returncode
            m.setdefault("detected_by", {})[f"{p}:{tier}"] = {0: "missed", 1: "caught", 2: "infrastructure failure"}.get(pr.returncode, str(pr.returncode))
    finally:
        wt.close()
    json.dump(m, open(os.path.join(SEEDED, sid, "meta.json"), "w"), indent=1)
    return rcs


if __name__ == "__main__":
    a = sys.argv[1:]
    if a[0] == "import":
        cmd_import(*a[1:5])
    elif a[0] == "verify":
        sys.exit(cmd_verify(a[1]))
    elif a[0] == "detect":
        tier = "quick"
        if "--tier" in a:
            i = a.index("--tier"); tier = a[i + 1]; del a[i:i + 2]
        cmd_detect(a[1], a[2:], tier)
