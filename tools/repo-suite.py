#!/usr/bin/env python3
"""Run the repository's own test suite (guard off unless --tags given) on a tree and compare
with /root/.vp/BASELINE.json: prints the baseline tests that no longer pass. exit 0 iff none.
usage: repo-suite.py [--repo DIR] [--tags TAGS] [--pkgs ./...]"""
import argparse, json, os, shutil, subprocess, sys, tempfile
ap = argparse.ArgumentParser()
ap.add_argument("--repo", default="/repo")
ap.add_argument("--tags", default="")
ap.add_argument("--pkgs", default="./...")
a = ap.parse_args()
base = json.load(open("/root/.vp/BASELINE.json"))
want = set(base["stable_pass"])
env = dict(os.environ, GOPROXY="off")
env.pop("GOFLAGS", None)  # the make-app tests run a nested go build that chokes on GOFLAGS
env.pop("GOSUMDB", None)
# never let the suite's make-app tests delete somebody's $TMPDIR/scratch
# NOTE: the suite's make-app tests remove $TMPDIR/scratch; nothing of ours may live there
# a TMPDIR of its own: the make-app tests build in $TMPDIR/scratch, which concurrent runs of the suite would share
tmp = tempfile.mkdtemp(prefix="suite-tmp-", dir="/var/tmp")
env["TMPDIR"] = tmp
cmd = ["go", "test", "-mod=mod", "-json", "-vet=off", "-count=1", "-timeout", "25m"]
if a.tags:
    cmd += ["-tags", a.tags]
cmd.append(a.pkgs)
p = subprocess.run(cmd, cwd=a.repo, env=env, capture_output=True, text=True)
shutil.rmtree(tmp, ignore_errors=True)
passed = set()
failed = set()
for line in p.stdout.splitlines():
    try:
        e = json.loads(line)
    except ValueError:
        continue
    if e.get("Test") and e.get("Action") in ("pass", "fail"):
        key = e["Package"] + "::" + e["Test"]
        (passed if e["Action"] == "pass" else failed).add(key)
if a.pkgs != "./...":
    pk = {k.split("::")[0] for k in passed | failed}
    want = {w for w in want if w.split("::")[0] in pk}
missing = sorted(want - passed)
print(f"passed={len(passed)} failed={len(failed)} baseline={len(want)} baseline_not_passing={len(missing)}")
for m in missing[:40]:
    print("  NOT PASSING:", m)
for f in sorted(failed)[:40]:
    print("  failing (not in the baseline):" if f not in want else "  FAILING:", f)
if not passed:
    print(p.stderr[-3000:])
sys.exit(1 if missing or not passed else 0)
